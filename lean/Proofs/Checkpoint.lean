import Proofs.Leaf
import Proofs.TilePath
import Model.Checkpoint
/-!
Lemmas about the checkpoint / note-verifier model (`Model/Checkpoint.lean`), used by `Props/C11.lean`:
the RFC6962NoteSignature parser is the exact inverse of its encoder, the STH signature input is injective,
the clause-by-clause characterisation of the verify closure, base64 and checkpoint text round trips.
-/
namespace Checkpoint
open Codec

theorem list_len4 {α} {l : List α} (h : l.length = 4) : ∃ a b c d, l = [a, b, c, d] := by
  match l, h with
  | [a, b, c, d], _ => exact ⟨a, b, c, d, rfl⟩

theorem noteSigSchema_eq : noteSigSchema = [.fixed 8, .fixed 1, .fixed 1, .lenp 2] := rfl

/-- the blob parser is the exact inverse of the encoder: it accepts only the canonical encoding, all of it -/
theorem parseNoteSig_sound {sig : Bytes} {x : NoteSig} (h : parseNoteSig sig = some x) : sig = x.encode ∧ x.WF := by
  unfold parseNoteSig at h
  cases hd : dec noteSigSchema sig with
  | none => rw [hd] at h; cases h
  | some p =>
    obtain ⟨vs, rest⟩ := p
    obtain ⟨ts, ha, sa, s, rfl⟩ := list_len4 (dec_length hd)
    rw [hd] at h
    simp only at h
    split at h
    · rename_i hr
      simp only [Option.some.injEq] at h
      subst h
      obtain ⟨henc, hfit⟩ := dec_canonical _ _ _ _ hd
      rw [noteSigSchema_eq] at hfit henc
      simp only [Fits, Field.fits] at hfit
      obtain ⟨h8, h1, h1', hl, _⟩ := hfit
      have e1 := toBE_fromBE ts; rw [h8] at e1
      have e2 := toBE_fromBE ha; rw [h1] at e2
      have e3 := toBE_fromBE sa; rw [h1'] at e3
      have l1 := fromBE_lt ts; rw [h8] at l1
      have l2 := fromBE_lt ha; rw [h1] at l2
      have l3 := fromBE_lt sa; rw [h1'] at l3
      refine ⟨?_, ?_⟩
      · unfold NoteSig.encode
        rw [noteSigSchema_eq]
        simp only [e1, e2, e3]
        rw [← henc, hr, List.append_nil]
      · exact ⟨by simpa using l1, by simpa using l2, by simpa using l3, hl⟩
    · cases h

theorem parseNoteSig_encode (x : NoteSig) (wf : x.WF) (rest : Bytes) :
    parseNoteSig (x.encode ++ rest) = if rest = [] then some x else none := by
  obtain ⟨w1, w2, w3, w4⟩ := wf
  unfold parseNoteSig NoteSig.encode
  rw [dec_enc noteSigSchema _ rest (by
    rw [noteSigSchema_eq]; simp only [Fits, Field.fits, toBE_length]; exact ⟨trivial, trivial, trivial, w4, trivial⟩)]
  simp only
  rw [fromBE_toBE 8 _ (by simpa using w1), fromBE_toBE 1 _ (by simpa using w2), fromBE_toBE 1 _ (by simpa using w3)]

/-- `C11_sth_inj` core: the STH signature input determines (size, timestamp, root) -/
theorem sthInput_inj {n ts n' ts' : Nat} {r r' a : Bytes}
    (hn : n < 18446744073709551616) (ht : ts < 18446744073709551616)
    (hn' : n' < 18446744073709551616) (ht' : ts' < 18446744073709551616)
    (h : sthInput n ts r = some a) (h' : sthInput n' ts' r' = some a) : n = n' ∧ ts = ts' ∧ r = r' := by
  unfold sthInput at h h'
  split at h
  · rename_i hr
    split at h'
    · rename_i hr'
      simp only [Option.some.injEq] at h h'
      have hf : ∀ (n ts : Nat) (r : Bytes), r.length = 32 →
          Fits sthSchema [[0], [1], toBE 8 ts, toBE 8 n, r] := by
        intro n ts r hr
        simp only [sthSchema, Fits, Field.fits, toBE_length]
        exact ⟨rfl, rfl, trivial, trivial, hr, trivial⟩
      have d1 := dec_enc sthSchema _ [] (hf n ts r hr)
      have d2 := dec_enc sthSchema _ [] (hf n' ts' r' hr')
      rw [h] at d1
      rw [h'] at d2
      rw [d1] at d2
      simp only [Option.some.injEq, Prod.mk.injEq, List.cons.injEq, and_true, true_and] at d2
      obtain ⟨e1, e2, e3⟩ := d2
      exact ⟨toBE_inj (by simpa using hn) (by simpa using hn') e2, toBE_inj (by simpa using ht) (by simpa using ht') e1, e3⟩
    · cases h'
  · cases h

end Checkpoint

namespace Checkpoint
open Codec

/-- `C11_verify_iff` core: the decision of the verify closure, clause by clause -/
theorem verifier_iff (cv : Crypto) (name : Bytes) (key : PubKey) (msg sig : Bytes) :
    verifier cv name key msg sig = true ↔
      ∃ c x alg, parseCheckpoint msg = some c ∧ c.origin = name ∧ c.ext = [] ∧
        parseNoteSig sig = some x ∧ x.hashAlg = 4 ∧ algOf key.kind = some alg ∧ x.sigAlg = alg ∧
        independentVerify cv key c.n.toNat x.timestamp c.hash x.signature = true := by
  unfold verifier independentVerify
  constructor
  · intro h
    cases hp : parseCheckpoint msg with
    | none => rw [hp] at h; cases h
    | some c =>
      rw [hp] at h
      simp only at h
      split at h
      · cases h
      · rename_i ho
        split at h
        · cases h
        · rename_i he
          cases hs : parseNoteSig sig with
          | none => rw [hs] at h; cases h
          | some x =>
            rw [hs] at h
            simp only at h
            split at h
            · cases h
            · rename_i hh
              cases hi : sthInput c.n.toNat x.timestamp c.hash with
              | none => rw [hi] at h; cases h
              | some sth =>
                rw [hi] at h
                simp only at h
                cases ha : algOf key.kind with
                | none => rw [ha] at h; cases h
                | some alg =>
                  rw [ha] at h
                  simp only at h
                  split at h
                  · cases h
                  · rename_i hsa
                    exact ⟨c, x, alg, rfl, by simpa using ho, by simpa using he, rfl, by simpa using hh, rfl,
                      by simpa using hsa, by rw [hi]; exact h⟩
  · intro ⟨c, x, alg, hp, ho, he, hs, hh, ha, hsa, hi⟩
    rw [hp]
    simp only [ho, he, hs, hh, ha, hsa, ne_eq, not_true_eq_false, if_false]
    cases hsth : sthInput c.n.toNat x.timestamp c.hash with
    | none => rw [hsth] at hi; cases hi
    | some sth => rw [hsth] at hi; exact hi

/-- trailing bytes after the RFC6962NoteSignature are rejected -/
theorem verifier_trailing (cv : Crypto) (name : Bytes) (key : PubKey) (msg sig t : Bytes) (ht : t ≠ [])
    (h : verifier cv name key msg sig = true) : verifier cv name key msg (sig ++ t) = false := by
  obtain ⟨c, x, alg, hp, ho, he, hs, _⟩ := (verifier_iff cv name key msg sig).mp h
  obtain ⟨henc, hwf⟩ := parseNoteSig_sound hs
  have : parseNoteSig (sig ++ t) = none := by
    rw [henc, parseNoteSig_encode x hwf t, if_neg ht]
  unfold verifier
  rw [hp]
  simp only [this]
  split
  · rfl
  · split <;> rfl

theorem verifier_foreign_origin (cv : Crypto) (name : Bytes) (key : PubKey) (msg sig : Bytes) (c : Checkpoint)
    (hp : parseCheckpoint msg = some c) (ho : c.origin ≠ name) : verifier cv name key msg sig = false := by
  unfold verifier
  rw [hp]
  simp [ho]

theorem verifier_extension (cv : Crypto) (name : Bytes) (key : PubKey) (msg sig : Bytes) (c : Checkpoint)
    (hp : parseCheckpoint msg = some c) (he : c.ext ≠ []) : verifier cv name key msg sig = false := by
  unfold verifier
  rw [hp]
  simp only
  split
  · rfl
  · simp [he]

theorem verifier_unparsable (cv : Crypto) (name : Bytes) (key : PubKey) (msg sig : Bytes)
    (hp : parseCheckpoint msg = none) : verifier cv name key msg sig = false := by
  unfold verifier
  rw [hp]

/-- what `parseCheckpoint` guarantees about the tree size and the root hash -/
theorem parseCheckpoint_bounds {msg : Bytes} {c : Checkpoint} (h : parseCheckpoint msg = some c) :
    0 ≤ c.n ∧ c.n ≤ 9223372036854775807 ∧ c.hash.length = 32 := by
  unfold parseCheckpoint at h
  repeat' split at h
  all_goals first
    | (cases h; done)
    | skip
  rename_i nn hat hneg _ hh hdec hlen hext
  simp only [Option.some.injEq] at h
  subst h
  have hr := TilePath.atoi_range _ _ hat
  dsimp only
  refine ⟨by omega, hr.2, by simpa using hlen⟩

end Checkpoint

namespace Checkpoint
open Codec

theorem b64Char_facts : ∀ k : Fin 64, b64Val (b64Char k.val) = some k.val ∧ b64Char k.val ≠ 61 ∧
    b64Char k.val ≠ 10 ∧ b64Char k.val ≠ 13 := by decide

theorem b64Char_val {k : Nat} (h : k < 64) : b64Val (b64Char k) = some k := (b64Char_facts ⟨k, h⟩).1
theorem b64Char_ne {k : Nat} (h : k < 64) : b64Char k ≠ 61 ∧ b64Char k ≠ 10 ∧ b64Char k ≠ 13 := (b64Char_facts ⟨k, h⟩).2

theorem ofNat_toNat (a : UInt8) : UInt8.ofNat a.toNat = a := by simp

theorem b64_quanta_roundtrip (h : Bytes) : b64DecodeQuanta (b64Encode h) = some h := by
  induction h using b64Encode.induct with
  | case1 => rfl
  | case2 a =>
    have ha := a.toNat_lt
    simp only [b64Encode, b64DecodeQuanta, and_self, if_true,
      b64Char_val (Nat.mod_lt _ (by decide : 0 < 64))]
    congr 2
    rw [← ofNat_toNat a]
    congr 1
    simp only [ofNat_toNat]
    omega
  | case3 a b =>
    have ha := a.toNat_lt
    have hb := b.toNat_lt
    have hne := (b64Char_ne (Nat.mod_lt ((a.toNat * 65536 + b.toNat * 256) / 64) (by decide : 0 < 64))).1
    simp only [b64Encode, b64DecodeQuanta, and_self, if_true, hne, if_false,
      b64Char_val (Nat.mod_lt _ (by decide : 0 < 64))]
    congr 2
    · rw [← ofNat_toNat a]
      congr 1
      simp only [ofNat_toNat]
      omega
    · congr 1
      rw [← ofNat_toNat b]
      congr 1
      simp only [ofNat_toNat]
      omega
  | case4 a b c rest ih =>
    have ha := a.toNat_lt
    have hb := b.toNat_lt
    have hc := c.toNat_lt
    have hne := (b64Char_ne (Nat.mod_lt (a.toNat * 65536 + b.toNat * 256 + c.toNat) (by decide : 0 < 64))).1
    simp only [b64Encode, b64DecodeQuanta, hne, false_and, if_false, ih,
      b64Char_val (Nat.mod_lt _ (by decide : 0 < 64))]
    congr 2
    · rw [← ofNat_toNat a]
      congr 1
      simp only [ofNat_toNat]
      omega
    · congr 1
      · rw [← ofNat_toNat b]
        congr 1
        simp only [ofNat_toNat]
        omega
      · congr 1
        rw [← ofNat_toNat c]
        congr 1
        simp only [ofNat_toNat]
        omega

end Checkpoint

namespace Checkpoint
open Codec TilePath

theorem b64Encode_chars (h : Bytes) : ∀ c ∈ b64Encode h, c ≠ 10 ∧ c ≠ 13 := by
  induction h using b64Encode.induct with
  | case1 => intro c hc; simp [b64Encode] at hc
  | case2 a =>
    intro c hc
    simp only [b64Encode, List.mem_cons, List.not_mem_nil, or_false] at hc
    rcases hc with rfl | rfl | rfl | rfl
    · exact (b64Char_ne (Nat.mod_lt _ (by decide))).2
    · exact (b64Char_ne (Nat.mod_lt _ (by decide))).2
    · decide
    · decide
  | case3 a b =>
    intro c hc
    simp only [b64Encode, List.mem_cons, List.not_mem_nil, or_false] at hc
    rcases hc with rfl | rfl | rfl | rfl
    · exact (b64Char_ne (Nat.mod_lt _ (by decide))).2
    · exact (b64Char_ne (Nat.mod_lt _ (by decide))).2
    · exact (b64Char_ne (Nat.mod_lt _ (by decide))).2
    · decide
  | case4 a b c rest ih =>
    intro x hx
    simp only [b64Encode, List.mem_cons] at hx
    rcases hx with rfl | rfl | rfl | rfl | hx
    · exact (b64Char_ne (Nat.mod_lt _ (by decide))).2
    · exact (b64Char_ne (Nat.mod_lt _ (by decide))).2
    · exact (b64Char_ne (Nat.mod_lt _ (by decide))).2
    · exact (b64Char_ne (Nat.mod_lt _ (by decide))).2
    · exact ih x hx

theorem b64Encode_length (h : Bytes) : (b64Encode h).length = 4 * ((h.length + 2) / 3) := by
  induction h using b64Encode.induct with
  | case1 => rfl
  | case2 a => simp [b64Encode]
  | case3 a b => simp [b64Encode]
  | case4 a b c rest ih =>
    simp only [b64Encode, List.length_cons, ih]
    omega

/-- `DecodeString(EncodeToString(h)) = h` -/
theorem b64_roundtrip (h : Bytes) : b64Decode (b64Encode h) = some h := by
  unfold b64Decode
  have : (b64Encode h).filter (fun c => c ≠ 10 && c ≠ 13) = b64Encode h := by
    apply List.filter_eq_self.mpr
    intro c hc
    have := b64Encode_chars h c hc
    simp [this.1, this.2]
  rw [this, b64_quanta_roundtrip]

theorem cutLine_line (l r : Bytes) (h : (10 : UInt8) ∉ l) : cutLine (l ++ 10 :: r) = some (l, r) := by
  induction l with
  | nil => simp [cutLine]
  | cons b bs ih =>
    have hb : b ≠ 10 := fun hc => h (by simp [hc])
    have hbs : (10 : UInt8) ∉ bs := fun hc => h (by simp [hc])
    simp [cutLine, hb, ih hbs]

theorem no_nl_digits {s : Bytes} (h : s.all isDigit = true) : (10 : UInt8) ∉ s := by
  intro hc
  have hd : isDigit 10 = true := (List.all_eq_true.mp h) 10 hc
  exact absurd hd (by decide)

theorem natDigits_length (fuel n k : Nat) (hk : 0 < k) (h : n < 10 ^ k) : (natDigits fuel n).length ≤ k := by
  induction fuel generalizing n k with
  | zero => simp [natDigits]
  | succ f ih =>
    simp only [natDigits]
    split
    · simp; omega
    · rename_i h10
      cases k with
      | zero => omega
      | succ k =>
        have hk' : 0 < k := by
          cases k with
          | zero => simp at h; omega
          | succ k => omega
        have := ih (n / 10) k hk' (by rw [Nat.pow_succ] at h; omega)
        simp; omega

theorem filter_nl_none {s : Bytes} (h : (10 : UInt8) ∉ s) : s.filter (· = 10) = [] := by
  apply List.filter_eq_nil_iff.mpr
  intro c hc
  simp
  intro h10; subst h10; exact h hc

/-- `ParseCheckpoint(c.String()) = c` for the checkpoints `signTreeHead` formats: no newline in the origin,
non-negative int64 size, 32-byte hash, no extension lines -/
theorem parse_format (origin hash : Bytes) (n : Int) (ho : (10 : UInt8) ∉ origin) (hol : origin.length ≤ 999000)
    (hn0 : 0 ≤ n) (hn1 : n ≤ 9223372036854775807) (hh : hash.length = 32) :
    parseCheckpoint (formatCheckpoint { origin := origin, n := n, hash := hash, ext := [] }) =
      some { origin := origin, n := n, hash := hash, ext := [] } := by
  obtain ⟨a1, a2, a3⟩ := fmtInt_facts hn0 hn1
  have hbl : (b64Encode hash).length = 44 := by rw [b64Encode_length, hh]
  have hb10 : (10 : UInt8) ∉ b64Encode hash := fun hc => (b64Encode_chars hash 10 hc).1 rfl
  have hf10 := no_nl_digits a2
  have hfl : (fmtInt n).length ≤ 19 := by
    rw [fmtInt_nonneg hn0]
    exact natDigits_length _ _ 19 (by decide) (by omega)
  unfold parseCheckpoint formatCheckpoint
  simp only
  have hcount : ((origin ++ 10 :: fmtInt n ++ 10 :: b64Encode hash ++ 10 :: ([] : Bytes)).filter (· = 10)).length = 3 := by
    simp [List.filter_append, List.filter_cons, filter_nl_none ho, filter_nl_none hf10, filter_nl_none hb10]
  have hlen : (origin ++ 10 :: fmtInt n ++ 10 :: b64Encode hash ++ 10 :: ([] : Bytes)).length ≤ maxCheckpointSize := by
    simp [maxCheckpointSize, hbl]; omega
  rw [if_neg (by rw [hcount]; omega)]
  have hsuf : hasSuffix (origin ++ 10 :: fmtInt n ++ 10 :: b64Encode hash ++ 10 :: ([] : Bytes)) [10] = true := by
    have : origin ++ 10 :: fmtInt n ++ 10 :: b64Encode hash ++ 10 :: ([] : Bytes) =
        (origin ++ 10 :: fmtInt n ++ 10 :: b64Encode hash) ++ [10] := by simp
    rw [this]; exact hasSuffix_append _ _
  rw [hsuf]
  simp only [Bool.not_true, Bool.false_eq_true, if_false]
  have e1 : origin ++ 10 :: fmtInt n ++ 10 :: b64Encode hash ++ 10 :: ([] : Bytes) =
      origin ++ 10 :: (fmtInt n ++ 10 :: (b64Encode hash ++ 10 :: [])) := by simp
  rw [e1, cutLine_line _ _ ho]
  simp only
  rw [cutLine_line _ _ hf10]
  simp only
  rw [cutLine_line _ _ hb10]
  simp only [a1]
  rw [if_neg (by simp; omega)]
  rw [b64_roundtrip]
  simp [hh, extOk]

end Checkpoint

/-! ### signTreeHead opens -/
namespace Checkpoint
open Codec TilePath

theorem digitallySigned_eq (s : Bytes) (h : s.length < 65536) :
    digitallySigned s = some (4 :: 3 :: (toBE 2 s.length ++ s)) := by
  unfold digitallySigned encSpec encChecked
  have hf : Fits (schemaOf digitallySignedSpec) (valuesOf digitallySignedSpec s) := by
    show Fits [.fixed 1, .fixed 1, .lenp 2] [[4], [3], s]
    simp only [Fits, Field.fits]; exact ⟨rfl, rfl, h, trivial⟩
  rw [if_pos hf]
  show some (enc [.fixed 1, .fixed 1, .lenp 2] [[4], [3], s]) = _
  simp [enc, encField]

theorem injectedBlob_eq (time : Int) (s : Bytes) :
    injectedBlob time (4 :: 3 :: (toBE 2 s.length ++ s)) =
      NoteSig.encode { timestamp := u64 time, hashAlg := 4, sigAlg := 3, signature := s } := by
  unfold injectedBlob NoteSig.encode
  rw [noteSigSchema_eq]
  show enc [.fixed 8] [toBE 8 (u64 time)] ++ _ = enc [.fixed 8, .fixed 1, .fixed 1, .lenp 2] [toBE 8 (u64 time), toBE 1 4, toBE 1 3, s]
  simp only [enc, encField, List.append_nil]
  have h4 : toBE 1 4 = [4] := by decide
  have h3 : toBE 1 3 = [3] := by decide
  rw [h4, h3]
  simp

theorem symCv_self (key : PubKey) (m : Bytes) : symCv key m (symSign key m) = true := by simp [symCv]

theorem symSign_length (key : PubKey) (m : Bytes) : (symSign key m).length = 5 + key.id.length + m.length := by
  simp [symSign, toBE_length]; omega

theorem sthInput_length {n ts : Nat} {r a : Bytes} (h : sthInput n ts r = some a) : a.length = 50 := by
  unfold sthInput at h
  split at h
  · rename_i hr
    simp only [Option.some.injEq] at h
    subst h
    simp [sthSchema, enc, encField, toBE_length, hr]
  · cases h

theorem sigTimestamp_encode (x : NoteSig) (h : x.timestamp ≤ 9223372036854775807) :
    sigTimestamp x.encode = some (Int.ofNat x.timestamp) := by
  unfold sigTimestamp NoteSig.encode
  rw [noteSigSchema_eq]
  have : enc [.fixed 8, .fixed 1, .fixed 1, .lenp 2] [toBE 8 x.timestamp, toBE 1 x.hashAlg, toBE 1 x.sigAlg, x.signature] =
      enc [.fixed 8] [toBE 8 x.timestamp] ++ enc [.fixed 1, .fixed 1, .lenp 2] [toBE 1 x.hashAlg, toBE 1 x.sigAlg, x.signature] := by
    simp [enc]
  rw [this, dec_enc [.fixed 8] _ _ (by simp only [Fits, Field.fits, toBE_length]; exact ⟨trivial, trivial⟩)]
  simp only
  rw [fromBE_toBE 8 _ (by have : (256:Nat)^8 = 18446744073709551616 := by decide
                          omega)]
  rw [if_neg (by unfold maxInt64; omega)]

/-- the unknown-key lines at the front of a note are skipped by `note.Open` -/
theorem openLoop_skip (known : List NoteVerifier) (text : Bytes) (g rest : List SigLine) (cnt : Nat)
    (seen : List (Bytes × Nat)) (acc : List SigLine)
    (hunk : ∀ s ∈ g, known.filter (fun v => v.name = s.name ∧ v.hash = s.hash) = [])
    (hcnt : cnt + g.length ≤ 100) :
    openLoop known text (g ++ rest) cnt seen acc = openLoop known text rest (cnt + g.length) seen acc := by
  induction g generalizing cnt with
  | nil => simp
  | cons s gs ih =>
    simp only [List.cons_append, openLoop]
    rw [if_neg (by simp at hcnt; omega)]
    rw [hunk s (by simp)]
    simp only
    rw [ih (cnt + 1) (fun x hx => hunk x (by simp [hx])) (by simp at hcnt ⊢; omega)]
    congr 1
    simp; omega

end Checkpoint

namespace Checkpoint
open Codec TilePath

theorem subtreeMessage_some (name origin hash : Bytes) (t n : Nat) (h1 : 1 ≤ name.length ∧ name.length ≤ 255)
    (h2 : origin.length ≤ 255) (ht : t ≤ 9223372036854775807) (hh : hash.length = 32) :
    ∃ m, subtreeMessage name t origin n hash = some m := by
  unfold subtreeMessage
  rw [if_neg (by unfold maxInt64; omega)]
  unfold encChecked
  rw [if_pos]
  · exact ⟨_, rfl⟩
  · simp only [Fits, Field.fits, toBE_length]
    refine ⟨by decide, by omega, trivial, by omega, trivial, trivial, hh, trivial⟩

/-- the RFC 6962 note signature `signTreeHead` produces verifies -/
theorem rfc_sig_verifies (name hash sth : Bytes) (key : PubKey) (n time : Int)
    (hparse : parseCheckpoint (formatCheckpoint { origin := name, n := n, hash := hash, ext := [] }) =
      some { origin := name, n := n, hash := hash, ext := [] })
    (hk : key.kind = .ecdsa) (ht0 : 0 ≤ time) (ht1 : time ≤ 9223372036854775807)
    (hsth : sthInput n.toNat time.toNat hash = some sth) (hsl : (symSign key sth).length < 65536) :
    parseNoteSig (NoteSig.encode { timestamp := time.toNat, hashAlg := 4, sigAlg := 3, signature := symSign key sth }) =
      some { timestamp := time.toNat, hashAlg := 4, sigAlg := 3, signature := symSign key sth } ∧
    verifier symCv name key (formatCheckpoint { origin := name, n := n, hash := hash, ext := [] })
      (NoteSig.encode { timestamp := time.toNat, hashAlg := 4, sigAlg := 3, signature := symSign key sth }) = true := by
  have hxwf : NoteSig.WF { timestamp := time.toNat, hashAlg := 4, sigAlg := 3, signature := symSign key sth } :=
    ⟨by show time.toNat < _; omega, by show (4 : Nat) < 256; decide, by show (3 : Nat) < 256; decide, hsl⟩
  have hpx := parseNoteSig_encode _ hxwf []
  rw [List.append_nil, if_pos rfl] at hpx
  refine ⟨hpx, ?_⟩
  rw [verifier_iff]
  refine ⟨_, _, 3, hparse, rfl, rfl, hpx, rfl, by rw [hk]; rfl, rfl, ?_⟩
  unfold independentVerify
  simp only [hsth]
  exact symCv_self _ _

/-- the ML-DSA cosignature `signTreeHead` produces verifies -/
theorem cosig_verifies (name hash m : Bytes) (wkey : PubKey) (n : Int) (cosigTime : Nat)
    (hparse : parseCheckpoint (formatCheckpoint { origin := name, n := n, hash := hash, ext := [] }) =
      some { origin := name, n := n, hash := hash, ext := [] })
    (hnlen : 1 ≤ name.length ∧ name.length ≤ 255) (hco : cosigTime ≤ 9223372036854775807)
    (hm : subtreeMessage name cosigTime name n.toNat hash = some m) :
    cosigVerify symCv name wkey (formatCheckpoint { origin := name, n := n, hash := hash, ext := [] })
      (toBE 8 cosigTime ++ symSign wkey m) = true := by
  unfold cosigVerify
  have hd : dec [.fixed 8] (toBE 8 cosigTime ++ symSign wkey m) = some ([toBE 8 cosigTime], symSign wkey m) := by
    have := dec_enc [.fixed 8] [toBE 8 cosigTime] (symSign wkey m)
      (by simp only [Fits, Field.fits, toBE_length]; exact ⟨trivial, trivial⟩)
    simpa [enc, encField] using this
  rw [hd]
  simp only
  have hfb : fromBE (toBE 8 cosigTime) = cosigTime := fromBE_toBE 8 _ (by
    have : (256:Nat)^8 = 18446744073709551616 := by decide
    omega)
  rw [hfb, if_neg (by unfold maxInt64; omega), hparse]
  simp only [ne_eq, not_true_eq_false, if_false]
  rw [if_neg (by omega)]
  simp only [hm]
  exact symCv_self _ _

/-- `note.Open` on: unknown-key lines, then one genuine signature for each of two distinct known keys (either order) -/
theorem noteOpen_two (v1 v2 : NoteVerifier) (text : Bytes) (g : List SigLine) (rs ws : SigLine) (swap : Bool)
    (hname : v1.name = v2.name) (hhash : v1.hash ≠ v2.hash)
    (hrs : rs.name = v1.name ∧ rs.hash = v1.hash) (hws : ws.name = v2.name ∧ ws.hash = v2.hash)
    (hv1 : v1.verify text rs.sig = true) (hv2 : v2.verify text ws.sig = true)
    (hg : ∀ s ∈ g, [v1, v2].filter (fun v => v.name = s.name ∧ v.hash = s.hash) = []) (hgl : g.length ≤ 98) :
    noteOpen [v1, v2] { text := text, sigs := g ++ (if swap then [ws, rs] else [rs, ws]) } =
      .ok (if swap then [ws, rs] else [rs, ws]) := by
  have hf1 : [v1, v2].filter (fun v => v.name = rs.name ∧ v.hash = rs.hash) = [v1] := by
    have : ¬ (v2.name = rs.name ∧ v2.hash = rs.hash) := by
      intro h; exact hhash (by rw [hrs.2] at h; exact h.2.symm)
    simp only [List.filter_cons, List.filter_nil, hrs.1, hrs.2, and_self, decide_true, if_true]
    rw [if_neg (by simpa [hrs.1, hrs.2] using this)]
  have hf2 : [v1, v2].filter (fun v => v.name = ws.name ∧ v.hash = ws.hash) = [v2] := by
    have : ¬ (v1.name = ws.name ∧ v1.hash = ws.hash) := by
      intro h; exact hhash (by rw [hws.2] at h; exact h.2)
    simp only [List.filter_cons, List.filter_nil, hws.1, hws.2, and_self, decide_true, if_true]
    rw [if_neg (by simpa [hws.1, hws.2] using this)]
  have hne : (rs.name, rs.hash) ≠ (ws.name, ws.hash) := by
    intro h
    have := (Prod.mk.inj h).2
    rw [hrs.2, hws.2] at this
    exact hhash this
  unfold noteOpen
  simp only
  rw [openLoop_skip _ _ g _ 0 [] [] hg (by omega)]
  have hc1 : ¬ (0 + g.length + 1 > 100) := by omega
  have hc2 : ¬ (0 + g.length + 1 + 1 > 100) := by omega
  cases swap with
  | false =>
    simp only [Bool.false_eq_true, if_false]
    rw [openLoop, if_neg hc1, hf1]
    simp only [List.contains_nil, Bool.false_eq_true, if_false, hv1, if_true]
    rw [openLoop, if_neg hc2, hf2]
    have : ((rs.name, rs.hash) :: ([] : List (Bytes × Nat))).contains (ws.name, ws.hash) = false := by
      simp [Ne.symm hne]
    simp only [this, Bool.false_eq_true, if_false, hv2, if_true, openLoop]
    simp
  | true =>
    simp only [if_true]
    rw [openLoop, if_neg hc1, hf2]
    simp only [List.contains_nil, Bool.false_eq_true, if_false, hv2, if_true]
    rw [openLoop, if_neg hc2, hf1]
    have : ((ws.name, ws.hash) :: ([] : List (Bytes × Nat))).contains (rs.name, rs.hash) = false := by
      simp [hne]
    simp only [this, Bool.false_eq_true, if_false, hv1, if_true, openLoop]
    simp

end Checkpoint

namespace Checkpoint
open Codec TilePath

/-- `signTreeHead` step by step, given that its intermediate values are what they should be -/
theorem signTreeHead_eq (c : Config) (n time : Int) (hash sth text blob wsig m : Bytes) (cosigTime : Nat)
    (grease : List SigLine) (swap : Bool)
    (hsth : sthInput (u64 n) (u64 time) hash = some sth) (hsl : (symSign c.key sth).length < 65536)
    (htx : formatCheckpoint { origin := c.name, n := n, hash := hash, ext := [] } = text)
    (hblob : injectedBlob time (4 :: 3 :: (toBE 2 (symSign c.key sth).length ++ symSign c.key sth)) = blob)
    (hver : verifier symCv c.name c.key text blob = true)
    (hparse : parseCheckpoint text = some { origin := c.name, n := n, hash := hash, ext := [] })
    (hnlen : 1 ≤ c.name.length ∧ c.name.length ≤ 255) (hn0 : 0 ≤ n)
    (hm : subtreeMessage c.name cosigTime c.name n.toNat hash = some m)
    (hwe : toBE 8 cosigTime ++ symSign c.witnessKey m = wsig) :
    signTreeHead symCv symSign c n time hash cosigTime grease swap =
      some { text := text, sigs := (grease.filter fun s => !(s.name = c.name ∧ (s.hash = c.keyHash ∨ s.hash = c.witnessKeyHash))) ++
        (if swap then [{ name := c.name, hash := c.witnessKeyHash, sig := wsig }, { name := c.name, hash := c.keyHash, sig := blob }]
         else [{ name := c.name, hash := c.keyHash, sig := blob }, { name := c.name, hash := c.witnessKeyHash, sig := wsig }]) } := by
  unfold signTreeHead
  rw [hsth]
  simp only
  rw [digitallySigned_eq _ hsl]
  simp only
  unfold injectedSign
  simp only
  rw [hblob, htx, hver]
  simp only [if_true]
  rw [hparse]
  simp only
  have hcond : ¬ (text ≠ formatCheckpoint { origin := c.name, n := n, hash := hash, ext := [] } ∨
      c.name.length = 0 ∨ c.name.length > 255) := by
    rw [htx]; intro h; rcases h with h | h | h
    · exact h rfl
    · omega
    · omega
  rw [if_neg hcond, hm]
  simp only [hwe]

end Checkpoint

namespace Checkpoint
open Codec TilePath

/-- `openCheckpoint` on the note `signTreeHead` builds, given that the two signatures verify -/
theorem openCheckpoint_signed (c : Config) (n time now : Int) (hash text blob wsig : Bytes) (grease : List SigLine) (swap : Bool)
    (hhash : c.keyHash ≠ c.witnessKeyHash) (hgl : grease.length ≤ 98)
    (hver : verifier symCv c.name c.key text blob = true)
    (hcos : cosigVerify symCv c.name c.witnessKey text wsig = true)
    (hparse : parseCheckpoint text = some { origin := c.name, n := n, hash := hash, ext := [] })
    (hts : sigTimestamp blob = some time) (hnow : time ≤ now) :
    openCheckpoint symCv c now
      { text := text, sigs := (grease.filter fun s => !(s.name = c.name ∧ (s.hash = c.keyHash ∨ s.hash = c.witnessKeyHash))) ++
        (if swap then [{ name := c.name, hash := c.witnessKeyHash, sig := wsig }, { name := c.name, hash := c.keyHash, sig := blob }]
         else [{ name := c.name, hash := c.keyHash, sig := blob }, { name := c.name, hash := c.witnessKeyHash, sig := wsig }]) } =
      .ok ({ origin := c.name, n := n, hash := hash, ext := [] }, time) := by
  have hgunk : ∀ s ∈ (grease.filter fun s => !(s.name = c.name ∧ (s.hash = c.keyHash ∨ s.hash = c.witnessKeyHash))),
      [rfc6962Verifier symCv c, cosigVerifier symCv c].filter (fun v => v.name = s.name ∧ v.hash = s.hash) = [] := by
    intro s hs
    have hs2 := (List.mem_filter.mp hs).2
    simp only [Bool.not_eq_true', decide_eq_false_iff_not, not_and, not_or] at hs2
    simp only [rfc6962Verifier, cosigVerifier, List.filter_cons, List.filter_nil]
    by_cases hname : c.name = s.name
    · have := hs2 hname.symm
      have h1 : ¬ (c.keyHash = s.hash) := fun h => this.1 h.symm
      have h2 : ¬ (c.witnessKeyHash = s.hash) := fun h => this.2 h.symm
      simp [hname, h1, h2]
    · simp [hname]
  have hglen := Nat.le_trans (List.length_filter_le (fun s : SigLine => !(s.name = c.name ∧ (s.hash = c.keyHash ∨ s.hash = c.witnessKeyHash))) grease) hgl
  have hopen := noteOpen_two (rfc6962Verifier symCv c) (cosigVerifier symCv c) text _
    { name := c.name, hash := c.keyHash, sig := blob } { name := c.name, hash := c.witnessKeyHash, sig := wsig } swap
    rfl hhash ⟨rfl, rfl⟩ ⟨rfl, rfl⟩ hver hcos hgunk hglen
  unfold openCheckpoint openCheckpointWith
  rw [hopen]
  simp only
  have hfilt : (if swap then [({ name := c.name, hash := c.witnessKeyHash, sig := wsig } : SigLine), { name := c.name, hash := c.keyHash, sig := blob }]
       else [{ name := c.name, hash := c.keyHash, sig := blob }, { name := c.name, hash := c.witnessKeyHash, sig := wsig }]).filter
       (fun s => s.hash = (rfc6962Verifier symCv c).hash) = [{ name := c.name, hash := c.keyHash, sig := blob }] := by
    have h1 : ¬ c.witnessKeyHash = c.keyHash := fun h => hhash h.symm
    cases swap <;> simp [rfc6962Verifier, List.filter_cons, h1]
  rw [hfilt]
  simp only [hts, hparse]
  rw [if_neg (by omega)]
  simp

end Checkpoint

namespace Checkpoint
open Codec TilePath

theorem sign_opens (c : Config) (n time : Int) (hash : Bytes) (cosigTime : Nat) (grease : List SigLine) (swap : Bool)
    (now : Int) (pre : SignPre c n time hash cosigTime grease) (hnow : time ≤ now) :
    ∃ note, signTreeHead symCv symSign c n time hash cosigTime grease swap = some note ∧
      note.text = formatCheckpoint { origin := c.name, n := n, hash := hash, ext := [] } ∧
      openCheckpoint symCv c now note = .ok ({ origin := c.name, n := n, hash := hash, ext := [] }, time) ∧
      (∃ s ∈ note.sigs, s.name = c.name ∧ s.hash = c.keyHash ∧ sigTimestamp s.sig = some time ∧
        verifier symCv c.name c.key note.text s.sig = true) ∧
      (∃ s ∈ note.sigs, s.name = c.name ∧ s.hash = c.witnessKeyHash ∧
        cosigVerify symCv c.name c.witnessKey note.text s.sig = true) := by
  obtain ⟨hnl, hnlen, hk, hkid, hhash, ⟨hn0, hn1⟩, ⟨ht0, ht1⟩, hh, hco, hgl⟩ := pre
  have hparse := parse_format c.name hash n hnl (by omega) hn0 hn1 hh
  have hun : u64 n = n.toNat := u64_of_nonneg hn0 hn1
  have hut : u64 time = time.toNat := u64_of_nonneg ht0 ht1
  obtain ⟨sth, hsth⟩ : ∃ sth, sthInput n.toNat time.toNat hash = some sth := by
    unfold sthInput; rw [if_pos hh]; exact ⟨_, rfl⟩
  have hsl : (symSign c.key sth).length < 65536 := by
    rw [symSign_length, sthInput_length hsth]; omega
  obtain ⟨hpx, hver⟩ := rfc_sig_verifies c.name hash sth c.key n time hparse hk ht0 ht1 hsth hsl
  obtain ⟨m, hm⟩ := subtreeMessage_some c.name c.name hash cosigTime n.toNat hnlen hnlen.2 hco hh
  have hcos := cosig_verifies c.name hash m c.witnessKey n cosigTime hparse hnlen hco hm
  have htsx : sigTimestamp (NoteSig.encode { timestamp := time.toNat, hashAlg := 4, sigAlg := 3, signature := symSign c.key sth }) = some time := by
    rw [sigTimestamp_encode _ (by show time.toNat ≤ _; omega)]
    show some (Int.ofNat time.toNat) = some time
    congr 1
    exact Int.toNat_of_nonneg ht0
  have hblob : injectedBlob time (4 :: 3 :: (toBE 2 (symSign c.key sth).length ++ symSign c.key sth)) =
      NoteSig.encode { timestamp := time.toNat, hashAlg := 4, sigAlg := 3, signature := symSign c.key sth } := by
    rw [injectedBlob_eq, hut]
  have hsign := signTreeHead_eq c n time hash sth _ _ _ m cosigTime grease swap (by rw [hun, hut]; exact hsth) hsl rfl hblob
    hver hparse hnlen hn0 hm rfl
  have hopen := openCheckpoint_signed c n time now hash _ _ _ grease swap hhash hgl hver hcos hparse htsx hnow
  refine ⟨_, hsign, rfl, hopen, ?_, ?_⟩
  · refine ⟨{ name := c.name, hash := c.keyHash, sig := _ }, ?_, rfl, rfl, htsx, hver⟩
    apply List.mem_append_right
    cases swap
    · exact List.mem_cons_self
    · exact List.mem_cons_of_mem _ List.mem_cons_self
  · refine ⟨{ name := c.name, hash := c.witnessKeyHash, sig := _ }, ?_, rfl, rfl, hcos⟩
    apply List.mem_append_right
    cases swap
    · exact List.mem_cons_of_mem _ List.mem_cons_self
    · exact List.mem_cons_self

end Checkpoint
