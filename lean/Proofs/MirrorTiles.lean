import Model.Mirror
import Proofs.MerkleMore
/-! Tile lemmas for C15: perfect subtrees, the content of hash tiles, soundness of the overlay
reader `Mirror.hyb` (what `torchwood.HashReaderOverlay` + `tlog.ReadTileData` compute equals the
tile of the log when the backend tiles it reads and the appended record hashes are the log's), and
the arithmetic of `tlog.NewTiles` (the tiles of the tree of size `ts + 256` are those of the tree of
size `ts` plus the new ones). Core only. -/
namespace Mirror
open Merkle Witness

variable (node : Hash → Hash → Hash) (emptyHash : Hash)

/-! ### `rng` -/

theorem rng_rng (B : List Hash) {lo hi u v : Nat} (h : v ≤ hi - lo) :
    rng (rng B lo hi) u v = rng B (lo + u) (lo + v) := by
  unfold rng
  rw [List.drop_take, List.take_take, List.drop_drop]
  congr 1
  omega

theorem rng_take_of_le (B : List Hash) {n lo hi : Nat} (h : hi ≤ n) :
    rng (B.take n) lo hi = rng B lo hi := by
  unfold rng
  rw [List.drop_take, List.take_take]
  congr 1
  omega

theorem rng_append (B : List Hash) {a b c : Nat} (h1 : a ≤ b) (h2 : b ≤ c) :
    rng B a b ++ rng B b c = rng B a c := by
  unfold rng
  have : (List.drop a B).take (c - a) = (List.drop a B).take (b - a) ++ ((List.drop a B).drop (b - a)).take (c - b) := by
    have h3 : c - a = (b - a) + (c - b) := by omega
    rw [h3, List.take_add]
  rw [this, List.drop_drop]
  congr 3
  omega

theorem rng_map {α β : Type} (f : α → β) (E : List α) (lo hi : Nat) :
    (E.map f |>.drop lo |>.take (hi - lo)) = ((E.drop lo).take (hi - lo)).map f := by
  rw [List.map_take, List.map_drop]

theorem rng_singleton (B : List Hash) {p : Nat} (h : p < B.length) : rng B p (p + 1) = [B[p]] := by
  unfold rng
  apply List.ext_getElem
  · simp [List.length_take, List.length_drop]; omega
  · intro i h1 h2
    simp only [List.length_cons, List.length_nil] at h2
    have : i = 0 := by omega
    subst this
    simp [List.getElem_take, List.getElem_drop]

/-! ### perfect subtrees -/

theorem split_pow2 (k : Nat) : split (2 ^ (k + 1)) = 2 ^ k := by
  unfold split
  congr 1
  have hpos : 0 < 2 ^ k := Nat.pow_pos (by decide)
  have hs : 2 ^ (k + 1) = 2 * 2 ^ k := by rw [Nat.pow_succ]; omega
  have hne : 2 ^ (k + 1) - 1 ≠ 0 := by omega
  exact (Nat.log2_eq_iff hne).2 ⟨by omega, by omega⟩

/-- a node over `2^(k+1)` leaves hashes its two halves -/
theorem mth_rng_pow2 (B : List Hash) {a k : Nat} (h : a + 2 ^ (k + 1) ≤ B.length) :
    mth node emptyHash (rng B a (a + 2 ^ (k + 1))) =
      node (mth node emptyHash (rng B a (a + 2 ^ k))) (mth node emptyHash (rng B (a + 2 ^ k) (a + 2 ^ (k + 1)))) := by
  have hpos : 0 < 2 ^ k := Nat.pow_pos (by decide)
  have hs : 2 ^ (k + 1) = 2 * 2 ^ k := by rw [Nat.pow_succ]; omega
  have hlen : a + 2 ^ (k + 1) - a = 2 ^ (k + 1) := by omega
  rw [mth_rng_unfold node emptyHash B h (by omega), hlen, split_pow2]

theorem mth_list_pow2 (L : List Hash) {k : Nat} (h : L.length = 2 ^ (k + 1)) :
    mth node emptyHash L = node (mth node emptyHash (L.take (2 ^ k))) (mth node emptyHash (L.drop (2 ^ k))) := by
  have hpos : 0 < 2 ^ k := Nat.pow_pos (by decide)
  have hs : 2 ^ (k + 1) = 2 * 2 ^ k := by rw [Nat.pow_succ]; omega
  rw [mth_unfold node emptyHash L (by omega), h, split_pow2]

/-- the roots of `cnt` consecutive subtrees of `c` leaves each, from subtree number `s` -/
def roots (B : List Hash) (c s cnt : Nat) : List Hash :=
  (List.range cnt).map fun t => mth node emptyHash (rng B ((s + t) * c) ((s + t + 1) * c))

theorem roots_length (B : List Hash) (c s cnt : Nat) : (roots node emptyHash B c s cnt).length = cnt := by
  simp [roots]

theorem roots_take (B : List Hash) (c s : Nat) {q cnt : Nat} (h : q ≤ cnt) :
    (roots node emptyHash B c s cnt).take q = roots node emptyHash B c s q := by
  apply List.ext_getElem
  · simp [roots]; omega
  · intro i h1 h2
    simp [roots, List.getElem_take]

theorem roots_drop (B : List Hash) (c s : Nat) {q cnt : Nat} (h : q ≤ cnt) :
    (roots node emptyHash B c s cnt).drop q = roots node emptyHash B c (s + q) (cnt - q) := by
  apply List.ext_getElem
  · simp [roots]
  · intro i h1 h2
    simp only [roots, List.getElem_drop, List.getElem_map, List.getElem_range]
    have e : s + (q + i) = s + q + i := by omega
    rw [e]

theorem roots_rng (B : List Hash) (c s : Nat) {off q cnt : Nat} (h : off + q ≤ cnt) :
    rng (roots node emptyHash B c s cnt) off (off + q) = roots node emptyHash B c (s + off) q := by
  unfold rng
  rw [roots_drop node emptyHash B c s (by omega : off ≤ cnt)]
  have : off + q - off = q := by omega
  rw [this, roots_take node emptyHash B c (s + off) (by omega : q ≤ cnt - off)]

/-- the Merkle tree hash over the roots of `2^k` consecutive perfect subtrees of `2^m` leaves is the
tree hash of their leaves -/
theorem mth_roots_pow2 (B : List Hash) (m : Nat) : ∀ (k s : Nat), (s + 2 ^ k) * 2 ^ m ≤ B.length →
    mth node emptyHash (roots node emptyHash B (2 ^ m) s (2 ^ k)) =
      mth node emptyHash (rng B (s * 2 ^ m) ((s + 2 ^ k) * 2 ^ m)) := by
  intro k
  induction k with
  | zero =>
    intro s h
    simp only [Nat.pow_zero]
    have : roots node emptyHash B (2 ^ m) s 1 = [mth node emptyHash (rng B (s * 2 ^ m) ((s + 1) * 2 ^ m))] := by
      simp [roots, List.range_succ]
    rw [this, mth_singleton]
  | succ k ih =>
    intro s h
    have hk : 0 < 2 ^ k := Nat.pow_pos (by decide)
    have hs : 2 ^ (k + 1) = 2 ^ k + 2 ^ k := by rw [Nat.pow_succ]; omega
    have hle : 2 ^ k ≤ 2 ^ (k + 1) := by omega
    rw [mth_list_pow2 node emptyHash _ (roots_length node emptyHash B (2 ^ m) s (2 ^ (k + 1))),
      roots_take node emptyHash B (2 ^ m) s hle, roots_drop node emptyHash B (2 ^ m) s hle]
    have e1 : 2 ^ (k + 1) - 2 ^ k = 2 ^ k := by omega
    rw [e1]
    have hb1 : (s + 2 ^ k) * 2 ^ m ≤ B.length := by
      have : (s + 2 ^ k) * 2 ^ m ≤ (s + 2 ^ (k + 1)) * 2 ^ m := Nat.mul_le_mul_right _ (by omega)
      omega
    have hb2 : (s + 2 ^ k + 2 ^ k) * 2 ^ m ≤ B.length := by
      have : s + 2 ^ k + 2 ^ k = s + 2 ^ (k + 1) := by omega
      rw [this]; exact h
    rw [ih s hb1, ih (s + 2 ^ k) hb2]
    -- the right-hand side: a node over 2^(k+1+m) leaves
    have hp : (s + 2 ^ (k + 1)) * 2 ^ m = s * 2 ^ m + 2 ^ (k + m + 1) := by
      rw [Nat.add_mul, ← Nat.pow_add]
      congr 2
      omega
    have hq : (s + 2 ^ k) * 2 ^ m = s * 2 ^ m + 2 ^ (k + m) := by
      rw [Nat.add_mul, ← Nat.pow_add]
    have hr : (s + 2 ^ k + 2 ^ k) * 2 ^ m = s * 2 ^ m + 2 ^ (k + m + 1) := by
      have : s + 2 ^ k + 2 ^ k = s + 2 ^ (k + 1) := by omega
      rw [this, hp]
    rw [hp, hq, hr, mth_rng_pow2 node emptyHash B (by rw [← hp]; exact h)]

/-! ### powers of 256 -/

theorem pow256 (l : Nat) : 256 ^ l = 2 ^ (8 * l) := by
  rw [Nat.pow_mul]

theorem pow_split (h : Nat) : 2 ^ h = 256 ^ (h / 8) * 2 ^ (h % 8) := by
  rw [pow256, ← Nat.pow_add]
  congr 1
  omega

theorem pow256_pos (l : Nat) : 0 < 256 ^ l := Nat.pow_pos (by decide)

/-! ### hash tiles -/

theorem tileOf_eq_roots (B : List Hash) (l n w : Nat) :
    tileOf node emptyHash B l n w = roots node emptyHash B (256 ^ l) (256 * n) w := rfl

theorem tileOf_length (B : List Hash) (l n w : Nat) : (tileOf node emptyHash B l n w).length = w := by
  simp [tileOf]

/-- the store's hash tiles are the log's (record hashes `B`) -/
def HashOK (B : List Hash) (hashT : Nat → Nat → Nat → Option (List Hash)) : Prop :=
  ∀ l n w hs, hashT l n w = some hs → hs = tileOf node emptyHash B l n w ∧ (256 * n + w) * 256 ^ l ≤ B.length

theorem fromBackend_sound (B : List Hash) (hashT : Nat → Nat → Nat → Option (List Hash))
    (hok : HashOK node emptyHash B hashT) (rs h a : Nat) (hal : 2 ^ h ∣ a) (x : Hash)
    (hx : fromBackend node emptyHash hashT rs h a = some x) :
    x = mth node emptyHash (rng B a (a + 2 ^ h)) ∧ a + 2 ^ h ≤ B.length := by
  unfold fromBackend at hx
  simp only [] at hx
  split at hx
  · cases hx
  · rename_i tile ht
    split at hx
    · rename_i hoff
      simp only [Option.some.injEq] at hx
      obtain ⟨htile, hbound⟩ := hok _ _ _ _ ht
      have hlen : tile.length = min (rs / 256 ^ (h / 8) - 256 * (a / 256 ^ (h / 8) / 256)) 256 := by
        rw [htile, tileOf_length]
      rw [hlen] at hoff
      subst htile
      -- names
      generalize hc : 256 ^ (h / 8) = c at *
      generalize hj : a / c = j at *
      generalize hw : min (rs / c - 256 * (j / 256)) 256 = w at *
      have hcpos : 0 < c := by rw [← hc]; exact pow256_pos _
      have hdvd : c ∣ a := by
        have : c ∣ 2 ^ h := by rw [pow_split h, hc]; exact Nat.dvd_mul_right _ _
        exact Nat.dvd_trans this hal
      have haj : a = j * c := by rw [← hj]; exact (Nat.div_mul_cancel hdvd).symm
      have hjs : 256 * (j / 256) + j % 256 = j := Nat.div_add_mod j 256
      rw [tileOf_eq_roots, hc, roots_rng node emptyHash B c (256 * (j / 256)) hoff, hjs] at hx
      have h2h : 2 ^ h = 2 ^ (h % 8) * c := by rw [pow_split h, hc, Nat.mul_comm]
      have hc2 : c = 2 ^ (8 * (h / 8)) := by rw [← hc, pow256]
      have hbnd : (j + 2 ^ (h % 8)) * c ≤ B.length := by
        have : (j + 2 ^ (h % 8)) * c ≤ (256 * (j / 256) + w) * c := Nat.mul_le_mul_right _ (by omega)
        omega
      have hend : a + 2 ^ h = (j + 2 ^ (h % 8)) * c := by rw [haj, h2h, Nat.add_mul]
      refine ⟨?_, by rw [hend]; exact hbnd⟩
      rw [← hx, hend, haj, hc2]
      exact mth_roots_pow2 node emptyHash B (8 * (h / 8)) (h % 8) j (by rw [← hc2]; exact hbnd)
    · cases hx

theorem hyb_backend (hashT : Nat → Nat → Nat → Option (List Hash)) (rs : Nat) (ov : List Hash) (h a : Nat)
    (h1 : a + 2 ^ h ≤ rs) : hyb node emptyHash hashT rs ov h a = fromBackend node emptyHash hashT rs h a := by
  cases h <;> (unfold hyb; rw [if_pos h1])

theorem hyb_overlay (hashT : Nat → Nat → Nat → Option (List Hash)) (rs : Nat) (ov : List Hash) (h a : Nat)
    (h1 : ¬ a + 2 ^ h ≤ rs) (h2 : rs ≤ a) :
    hyb node emptyHash hashT rs ov h a =
      if a - rs + 2 ^ h ≤ ov.length then some (mth node emptyHash (rng ov (a - rs) (a - rs + 2 ^ h))) else none := by
  cases h <;> (unfold hyb; rw [if_neg h1, if_pos h2])

theorem hyb_zero_straddle (hashT : Nat → Nat → Nat → Option (List Hash)) (rs : Nat) (ov : List Hash) (a : Nat)
    (h1 : ¬ a + 2 ^ 0 ≤ rs) (h2 : ¬ rs ≤ a) : hyb node emptyHash hashT rs ov 0 a = none := by
  unfold hyb; rw [if_neg h1, if_neg h2]

theorem hyb_succ_straddle (hashT : Nat → Nat → Nat → Option (List Hash)) (rs : Nat) (ov : List Hash) (h a : Nat)
    (h1 : ¬ a + 2 ^ (h + 1) ≤ rs) (h2 : ¬ rs ≤ a) :
    hyb node emptyHash hashT rs ov (h + 1) a =
      match hyb node emptyHash hashT rs ov h a, hyb node emptyHash hashT rs ov h (a + 2 ^ h) with
      | some x, some y => some (node x y)
      | _, _ => none := by
  rw [hyb, if_neg h1, if_neg h2]
  cases hyb node emptyHash hashT rs ov h a <;> cases hyb node emptyHash hashT rs ov h (a + 2 ^ h) <;> rfl

theorem overlay_sound (B : List Hash) (rs : Nat) (ov : List Hash)
    (hov : ov = rng B rs (rs + ov.length)) (hovb : rs + ov.length ≤ B.length) (p a : Nat)
    (h2 : rs ≤ a) (h3 : a - rs + p ≤ ov.length) :
    mth node emptyHash (rng ov (a - rs) (a - rs + p)) = mth node emptyHash (rng B a (a + p)) ∧ a + p ≤ B.length := by
  refine ⟨?_, by omega⟩
  have : rng ov (a - rs) (a - rs + p) = rng B a (a + p) := by
    rw [hov, rng_rng B (by omega)]
    congr 1 <;> omega
  rw [this]

/-- soundness of the overlay reader: whatever it returns for an aligned complete subtree is the
log's hash of that subtree -/
theorem hyb_sound (B : List Hash) (hashT : Nat → Nat → Nat → Option (List Hash))
    (hok : HashOK node emptyHash B hashT) (rs : Nat) (ov : List Hash)
    (hov : ov = rng B rs (rs + ov.length)) (hovb : rs + ov.length ≤ B.length) :
    ∀ (h a : Nat) (x : Hash), 2 ^ h ∣ a → hyb node emptyHash hashT rs ov h a = some x →
      x = mth node emptyHash (rng B a (a + 2 ^ h)) ∧ a + 2 ^ h ≤ B.length := by
  intro h
  induction h with
  | zero =>
    intro a x hal hx
    by_cases h1 : a + 2 ^ 0 ≤ rs
    · rw [hyb_backend node emptyHash hashT rs ov 0 a h1] at hx
      exact fromBackend_sound node emptyHash B hashT hok rs 0 a hal x hx
    · by_cases h2 : rs ≤ a
      · rw [hyb_overlay node emptyHash hashT rs ov 0 a h1 h2] at hx
        split at hx
        · rename_i h3
          simp only [Option.some.injEq] at hx
          obtain ⟨r1, r2⟩ := overlay_sound node emptyHash B rs ov hov hovb _ a h2 h3
          exact ⟨by rw [← hx, r1], r2⟩
        · cases hx
      · rw [hyb_zero_straddle node emptyHash hashT rs ov a h1 h2] at hx
        cases hx
  | succ h ih =>
    intro a x hal hx
    by_cases h1 : a + 2 ^ (h + 1) ≤ rs
    · rw [hyb_backend node emptyHash hashT rs ov (h + 1) a h1] at hx
      exact fromBackend_sound node emptyHash B hashT hok rs (h + 1) a hal x hx
    · by_cases h2 : rs ≤ a
      · rw [hyb_overlay node emptyHash hashT rs ov (h + 1) a h1 h2] at hx
        split at hx
        · rename_i h3
          simp only [Option.some.injEq] at hx
          obtain ⟨r1, r2⟩ := overlay_sound node emptyHash B rs ov hov hovb _ a h2 h3
          exact ⟨by rw [← hx, r1], r2⟩
        · cases hx
      · rw [hyb_succ_straddle node emptyHash hashT rs ov h a h1 h2] at hx
        have hd : 2 ^ h ∣ a := Nat.dvd_trans (by rw [Nat.pow_succ]; exact Nat.dvd_mul_right _ _) hal
        have hd2 : 2 ^ h ∣ a + 2 ^ h := Nat.dvd_add hd (Nat.dvd_refl _)
        cases e1 : hyb node emptyHash hashT rs ov h a with
        | none => rw [e1] at hx; cases hx
        | some x1 =>
          cases e2 : hyb node emptyHash hashT rs ov h (a + 2 ^ h) with
          | none => rw [e1, e2] at hx; cases hx
          | some x2 =>
            rw [e1, e2] at hx
            simp only [Option.some.injEq] at hx
            obtain ⟨r1, _⟩ := ih a x1 hd e1
            obtain ⟨r2, b2⟩ := ih (a + 2 ^ h) x2 hd2 e2
            have hs : 2 ^ (h + 1) = 2 ^ h + 2 ^ h := by rw [Nat.pow_succ]; omega
            have hb : a + 2 ^ (h + 1) ≤ B.length := by omega
            refine ⟨?_, hb⟩
            rw [← hx, r1, r2, mth_rng_pow2 node emptyHash B hb]
            congr 3
            omega

theorem allSome_map {α β : Type} (f : α → Option β) (g : α → β) :
    ∀ (xs : List α) (ys : List β), (∀ x ∈ xs, ∀ y, f x = some y → y = g x) → allSome (xs.map f) = some ys →
      ys = xs.map g := by
  intro xs
  induction xs with
  | nil => intro ys _ h; simp [allSome] at h; simp [h]
  | cons x rest ih =>
    intro ys hf h
    simp only [List.map_cons] at h
    cases hx : f x with
    | none => rw [hx] at h; simp [allSome] at h
    | some y =>
      rw [hx] at h
      simp only [allSome] at h
      cases hr : allSome (rest.map f) with
      | none => rw [hr] at h; cases h
      | some zs =>
        rw [hr] at h
        simp only [Option.some.injEq] at h
        have := ih zs (fun x' hx' => hf x' (List.mem_cons_of_mem _ hx')) hr
        rw [← h, this, hf x (List.mem_cons_self) y hx]
        rfl

/-- `tlog.ReadTileData` over the overlay gives the log's tile -/
theorem tileData_sound (B : List Hash) (hashT : Nat → Nat → Nat → Option (List Hash))
    (hok : HashOK node emptyHash B hashT) (rs : Nat) (ov : List Hash)
    (hov : ov = rng B rs (rs + ov.length)) (hovb : rs + ov.length ≤ B.length)
    (l n w : Nat) (hs : List Hash) (h : tileData node emptyHash hashT rs ov l n w = some hs) :
    hs = tileOf node emptyHash B l n w ∧ (w ≠ 0 → (256 * n + w) * 256 ^ l ≤ B.length) := by
  unfold tileData at h
  have hal : ∀ i, 2 ^ (8 * l) ∣ (256 * n + i) * 256 ^ l := by
    intro i; rw [pow256]; exact Nat.dvd_mul_left _ _
  have hpt : ∀ i ∈ List.range w, ∀ y,
      hyb node emptyHash hashT rs ov (8 * l) ((256 * n + i) * 256 ^ l) = some y →
      y = mth node emptyHash (rng B ((256 * n + i) * 256 ^ l) ((256 * n + i + 1) * 256 ^ l)) := by
    intro i _ y hy
    obtain ⟨r, _⟩ := hyb_sound node emptyHash B hashT hok rs ov hov hovb (8 * l) _ y (hal i) hy
    rw [r]
    congr 2
    rw [← pow256, Nat.add_mul (256 * n + i) 1, Nat.one_mul]
  refine ⟨allSome_map _ _ _ _ hpt h, ?_⟩
  intro hw
  -- the last element exists and is in range
  have hlast : w - 1 ∈ List.range w := by simp; omega
  have hlen : hs.length = w := by rw [allSome_map _ _ _ _ hpt h]; simp
  -- recover the `some` for the last index from `allSome`
  have hall : ∀ (xs : List (Option Hash)) (ys : List Hash), allSome xs = some ys → ∀ o ∈ xs, ∃ y, o = some y := by
    intro xs
    induction xs with
    | nil => intro _ _ o ho; cases ho
    | cons x rest ih =>
      intro ys hys o ho
      cases x with
      | none => simp [allSome] at hys
      | some y =>
        simp only [allSome] at hys
        cases hr : allSome rest with
        | none => rw [hr] at hys; cases hys
        | some zs =>
          rcases List.mem_cons.1 ho with rfl | hin
          · exact ⟨y, rfl⟩
          · exact ih zs hr o hin
  obtain ⟨y, hy⟩ := hall _ _ h _ (List.mem_map.2 ⟨w - 1, hlast, rfl⟩)
  obtain ⟨_, hb⟩ := hyb_sound node emptyHash B hashT hok rs ov hov hovb (8 * l) _ y (hal (w - 1)) hy
  have e : (256 * n + (w - 1)) * 256 ^ l + 2 ^ (8 * l) = (256 * n + w) * 256 ^ l := by
    rw [← pow256]
    have : 256 * n + w = 256 * n + (w - 1) + 1 := by omega
    rw [this, Nat.add_mul (256 * n + (w - 1)) 1, Nat.one_mul]
  omega

/-! ### level-0 tiles are the record hashes -/

theorem tileOf_zero (leaf : Entry → Hash) (E : List Entry) (n w : Nat) (h : 256 * n + w ≤ E.length) :
    tileOf node emptyHash (E.map leaf) 0 n w = (bundleOf E n w).map leaf := by
  apply List.ext_getElem
  · simp [tileOf, bundleOf, List.length_take, List.length_drop]; omega
  · intro i h1 h2
    simp only [tileOf, List.length_map, List.length_range] at h1
    simp only [tileOf, List.getElem_map, List.getElem_range, Nat.pow_zero, Nat.mul_one, bundleOf,
      List.getElem_take, List.getElem_drop]
    have hp : 256 * n + i < (E.map leaf).length := by simp; omega
    rw [rng_singleton (E.map leaf) hp, mth_singleton]
    simp

/-! ### arithmetic of tiles -/

theorem lvl_succ (N l : Nat) : lvl N (l + 1) = lvl N l / 256 := by
  unfold lvl
  rw [Nat.pow_succ, Nat.div_div_eq_div_mul]

theorem lvl_zero (N : Nat) : lvl N 0 = N := by simp [lvl]

theorem lvl_succ' (N l : Nat) : lvl N (l + 1) = lvl (N / 256) l := by
  unfold lvl
  rw [Nat.pow_succ, Nat.mul_comm, Nat.div_div_eq_div_mul]

/-- adding one node at some level adds at most one node at every level above -/
theorem lvl_step (x : Nat) : ∀ l, lvl (x + 1) l = lvl x l ∨ lvl (x + 1) l = lvl x l + 1 := by
  intro l
  induction l with
  | zero => right; simp [lvl]
  | succ l ih =>
    rw [lvl_succ, lvl_succ]
    rcases ih with h | h <;> rw [h] <;> omega

/-- same number of full tiles ⇒ same levels above -/
theorem lvl_same_tile {N M : Nat} (h : N / 256 = M / 256) : ∀ l, lvl N (l + 1) = lvl M (l + 1) := by
  intro l; rw [lvl_succ', lvl_succ', h]

/-- the tiles of a tree whose size is cut down to a multiple of 256 -/
theorem isTile_floor {N l n w : Nat} (h : IsTile N (l + 1) n w) : IsTile (N - N % 256) (l + 1) n w := by
  unfold IsTile at *
  have : (N - N % 256) / 256 = N / 256 := by omega
  rw [lvl_same_tile this l]
  exact h

theorem isTile_floor_zero {N n w : Nat} (h : IsTile N 0 n w) :
    IsTile (N - N % 256) 0 n w ∨ (n = N / 256 ∧ w = N % 256 ∧ N % 256 ≠ 0) := by
  unfold IsTile at *
  rw [lvl_zero] at *
  omega

/-! ### `tlog.NewTiles` -/

theorem mem_tilesAtLevel {level o m n w : Nat} :
    (level, n, w) ∈ tilesAtLevel level o m ↔
      ((w = 256 ∧ o / 256 ≤ n ∧ n < m / 256) ∨ (w = m % 256 ∧ m % 256 > 0 ∧ n = m / 256)) := by
  unfold tilesAtLevel
  simp only [List.mem_append, List.mem_map, List.mem_range, Prod.mk.injEq, true_and]
  constructor
  · rintro (⟨k, hk, rfl, rfl⟩ | h)
    · left; omega
    · split at h
      · simp only [List.mem_singleton, Prod.mk.injEq, true_and] at h
        right; omega
      · cases h
  · rintro (⟨rfl, h1, h2⟩ | ⟨rfl, h1, rfl⟩)
    · left; exact ⟨n - o / 256, by omega, by omega, rfl⟩
    · right; simp [h1]

theorem lt_pow256 (d : Nat) : d < 256 ^ d := Nat.lt_pow_self (by decide)

theorem mem_newTilesFrom : ∀ (fuel level o m d n w : Nat), d < fuel → m / 256 ^ d ≠ 0 →
    o / 256 ^ d ≠ m / 256 ^ d → (level + d, n, w) ∈ tilesAtLevel (level + d) (o / 256 ^ d) (m / 256 ^ d) →
    (level + d, n, w) ∈ newTilesFrom fuel level o m := by
  intro fuel
  induction fuel with
  | zero => intro _ _ _ _ _ _ hd; omega
  | succ fuel ih =>
    intro level o m d n w hd hm hne hmem
    have hm0 : m ≠ 0 := by
      intro h; subst h; simp at hm
    unfold newTilesFrom
    rw [if_neg hm0]
    cases d with
    | zero =>
      simp only [Nat.pow_zero, Nat.div_one, Nat.add_zero] at hne hmem
      rw [if_neg hne]
      exact List.mem_append_left _ hmem
    | succ d =>
      apply List.mem_append_right
      have e : level + (d + 1) = level + 1 + d := by omega
      have eo : o / 256 ^ (d + 1) = o / 256 / 256 ^ d := by
        rw [Nat.pow_succ, Nat.mul_comm, Nat.div_div_eq_div_mul]
      have em : m / 256 ^ (d + 1) = m / 256 / 256 ^ d := by
        rw [Nat.pow_succ, Nat.mul_comm, Nat.div_div_eq_div_mul]
      rw [e, eo, em] at hmem
      rw [eo, em] at hne
      rw [em] at hm
      rw [e]
      exact ih (level + 1) (o / 256) (m / 256) d n w (by omega) hm hne hmem

theorem mem_newTiles {o m d n w : Nat} (hm : lvl m d ≠ 0) (hne : lvl o d ≠ lvl m d)
    (hmem : (d, n, w) ∈ tilesAtLevel d (lvl o d) (lvl m d)) : (d, n, w) ∈ newTiles o m := by
  unfold newTiles
  have hd : d < m + 1 := by
    have h1 : 256 ^ d ≤ m := by
      unfold lvl at hm
      have hp := pow256_pos d
      have : ¬ m < 256 ^ d := fun hlt => hm (Nat.div_eq_of_lt hlt)
      omega
    have := lt_pow256 d
    omega
  have := mem_newTilesFrom (m + 1) 0 o m d n w hd hm hne (by simpa [lvl] using hmem)
  simpa using this

/-- every tile of the tree of size `ts + 256` is a tile of the tree of size `ts` or one of
`tlog.NewTiles(8, ts, ts + 256)` (`ts` a multiple of 256) -/
theorem newTiles_cover {ts l n w : Nat} (hts : ts % 256 = 0) (h : IsTile (ts + 256) l n w) :
    IsTile ts l n w ∨ (l, n, w) ∈ newTiles ts (ts + 256) := by
  cases l with
  | zero =>
    unfold IsTile at h ⊢
    rw [lvl_zero] at h ⊢
    by_cases hn : 256 * n + w ≤ ts
    · left; omega
    · right
      apply mem_newTiles
      · rw [lvl_zero]; omega
      · rw [lvl_zero, lvl_zero]; omega
      · rw [lvl_zero, lvl_zero, mem_tilesAtLevel]; left; omega
  | succ l =>
    have hq : (ts + 256) / 256 = ts / 256 + 1 := by omega
    unfold IsTile at h ⊢
    rw [lvl_succ', hq] at h
    rw [lvl_succ']
    rcases lvl_step (ts / 256) l with hs | hs
    · left; rw [hs] at h; exact h
    · rw [hs] at h
      by_cases hn : 256 * n + w ≤ lvl (ts / 256) l
      · left; omega
      · right
        apply mem_newTiles
        · rw [lvl_succ', hq, hs]; omega
        · rw [lvl_succ', lvl_succ', hq, hs]; omega
        · rw [lvl_succ', lvl_succ', hq, hs, mem_tilesAtLevel]
          by_cases hw : w = 256
          · left; omega
          · right; omega

/-- a partial package `[ts, e)` (`e < ts + 256`) uploads exactly the partial level-0 tile -/
theorem newTiles_partial {ts e : Nat} (hts : ts % 256 = 0) (h1 : ts < e) (h2 : e < ts + 256) :
    (0, ts / 256, e - ts) ∈ newTiles ts e := by
  apply mem_newTiles
  · rw [lvl_zero]; omega
  · rw [lvl_zero, lvl_zero]; omega
  · rw [lvl_zero, lvl_zero, mem_tilesAtLevel]; right; omega

end Mirror
