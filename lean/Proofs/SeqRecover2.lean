import Proofs.SeqRecover
/-! The recovery run of the sequencer model: from a reachable untampered state in which log creation
has completed, a fault-free `LoadLog` of a stopped instance is accepted event by event and ends
`loaded` on the lock checkpoint with every required tile present — provided the checkpoint object
already has the lock checkpoint's leaves or the lock tree's bundle is still staged
(`recover_run_partial`). Without that proviso the statement is false (publication regression followed
by a discard, see `Seq.Cex`). Core Lean only. -/
namespace Seq

/-! ### frames -/

/-- instance `i` moves to phase `p`, nothing else changes -/
def setPhase (s : Sys) (i : Nat) (p : Phase) : Sys := s.setInst i { s.insts i with phase := p }

/-- what a recovery of instance `i` leaves untouched: locks, histories, the other instances, every
    object that is not a tile, and every immutable tile -/
structure Fr (i : Nat) (s s' : Sys) : Prop where
  lock : s'.lock = s.lock
  lockHist : s'.lockHist = s.lockHist
  pubHist : s'.pubHist = s.pubHist
  tampered : s'.tampered = s.tampered
  others : ∀ j, j ≠ i → s'.insts j = s.insts j
  cfg : (s'.insts i).cfgBad = (s.insts i).cfgBad
  ev : (s.insts i).evictPending = false → (s'.insts i).evictPending = false
  keys : ∀ k, (∀ t, k ≠ .tile t) → s'.store k = s.store k
  tileLe : TileLe s.store s'.store

theorem Fr.refl (i : Nat) (s : Sys) : Fr i s s :=
  ⟨rfl, rfl, rfl, rfl, fun _ _ => rfl, rfl, fun h => h, fun _ _ => rfl, TileLe.refl _⟩

theorem Fr.trans {i : Nat} {s1 s2 s3 : Sys} (a : Fr i s1 s2) (b : Fr i s2 s3) : Fr i s1 s3 where
  lock := b.lock.trans a.lock
  lockHist := b.lockHist.trans a.lockHist
  pubHist := b.pubHist.trans a.pubHist
  tampered := b.tampered.trans a.tampered
  others := fun j hj => (b.others j hj).trans (a.others j hj)
  cfg := b.cfg.trans a.cfg
  ev := fun h => b.ev (a.ev h)
  keys := fun k hk => (b.keys k hk).trans (a.keys k hk)
  tileLe := fun t o h => b.tileLe t o (a.tileLe t o h)

theorem setPhase_phase (s : Sys) (i : Nat) (p : Phase) : ((setPhase s i p).insts i).phase = p := by
  simp [setPhase, Sys.setInst, upd]

theorem setPhase_tree (s : Sys) (i : Nat) (p : Phase) : ((setPhase s i p).insts i).tree = (s.insts i).tree := by
  simp [setPhase, Sys.setInst, upd]

theorem fr_setPhase (s : Sys) (i : Nat) (p : Phase) : Fr i s (setPhase s i p) := by
  refine ⟨rfl, rfl, rfl, rfl, ?_, ?_, ?_, fun _ _ => rfl, TileLe.refl _⟩
  · intro j hj; simp [setPhase, Sys.setInst, upd, hj]
  · simp [setPhase, Sys.setInst, upd]
  · intro h; simpa [setPhase, Sys.setInst, upd] using h

/-! ### the single steps of a fault-free load -/

theorem load_launch {s : Sys} {i : Nat} (hdown : (s.insts i).phase = .down) :
    ∃ s1, step s (.launchLoad i) = some s1 ∧ Fr i s s1 ∧ (s1.insts i).phase = .loading .lockFetch ∧
      (s1.insts i).evictPending = false := by
  have hs : step s (.launchLoad i) = some (s.setInst i { s.insts i with phase := .loading .lockFetch, pool := [], poolEvicted := [], issuersSeen := [], issuerFailed := false, evictPending := false, evictedEver := [] }) := by
    simp only [step, hdown]
  refine ⟨_, hs, ?_, by simp [Sys.setInst, upd], by simp [Sys.setInst, upd]⟩
  refine ⟨rfl, rfl, rfl, rfl, ?_, ?_, ?_, fun _ _ => rfl, TileLe.refl _⟩
  · intro j hj; simp [Sys.setInst, upd, hj]
  · simp [Sys.setInst, upd]
  · intro _; simp [Sys.setInst, upd]

theorem load_lockFetch {s : Sys} {i : Nat} {c : Ck} (hph : (s.insts i).phase = .loading .lockFetch)
    (hl : s.lock = some c) (hcfg : (s.insts i).cfgBad = false) :
    step s (.lockFetch i (.ok c)) = some (setPhase s i (.loading (.clock1 c))) := by
  simp [step, hph, hl, hcfg, setPhase]

theorem load_clock1 {s : Sys} {i v : Nat} {c : Ck} (hph : (s.insts i).phase = .loading (.clock1 c))
    (hv : c.time ≤ v) :
    step s (.clock i v) = some (setPhase s i (.loading (.ckptFetch c))) := by
  have : ¬ v < c.time := by omega
  simp [step, hph, this, setPhase]

theorem load_ckptFetch {s : Sys} {i : Nat} {c c1 : Ck} {imm : Bool} (hph : (s.insts i).phase = .loading (.ckptFetch c))
    (hst : s.store .ckpt = some (.ck c1, imm)) :
    step s (.fetch i .ckpt (.ok (.ck c1))) = some (setPhase s i (.loading (.clock2 c c1))) := by
  simp [step, hph, hst, setPhase]

theorem load_clock2_eq {s : Sys} {i v : Nat} {c c1 : Ck} (hph : (s.insts i).phase = .loading (.clock2 c c1))
    (hv : c1.time ≤ v) (heq : c1.leaves = c.leaves) :
    step s (.clock i v) = some (setPhase s i (.loading (.edge c false))) := by
  have : ¬ v < c1.time := by omega
  simp [step, hph, this, heq, setPhase]

theorem load_clock2_lt {s : Sys} {i v : Nat} {c c1 : Ck} (hph : (s.insts i).phase = .loading (.clock2 c c1))
    (hv : c1.time ≤ v) (hpre : c1.leaves <+: c.leaves) (hne : c1.leaves ≠ c.leaves) :
    step s (.clock i v) = some (setPhase s i (.loading (.legacy c))) := by
  have h1 : ¬ v < c1.time := by omega
  have hle := hpre.length_le
  have h2 : ¬ c1.leaves.length = c.leaves.length := by
    intro hlen
    exact hne (hpre.eq_of_length hlen)
  have h3 : ¬ c1.leaves.length > c.leaves.length := by omega
  simp [step, hph, h1, h2, h3, setPhase]

theorem load_legacy {s : Sys} {i : Nat} {c : Ck} (hph : (s.insts i).phase = .loading (.legacy c))
    (hst : s.store (.legacyStaging c.leaves) = none) :
    step s (.fetch i (.legacyStaging c.leaves) .nf) = some (setPhase s i (.loading (.stagingFetch c))) := by
  simp [step, hph, hst, setPhase]

theorem load_stagingFetch {s : Sys} {i : Nat} {c : Ck} {items : List (TileId × Tree)} {imm : Bool}
    (hph : (s.insts i).phase = .loading (.stagingFetch c))
    (hst : s.store (.staging c.leaves) = some (.bundle items, imm)) :
    step s (.fetch i (.staging c.leaves) (.ok (.bundle items))) =
      some (setPhase s i (.loading (.apply c items false))) := by
  simp [step, hph, hst, setPhase]

theorem load_edgeFetch {s : Sys} {i : Nat} {c : Ck} {t : TileId} (hph : (s.insts i).phase = .loading (.edge c false))
    (hst : s.store (.tile t) = some (.slice (t.slice c.leaves), true)) (hreq : Req c.leaves.length t = true) :
    step s (.fetch i (.tile t) (.ok (.slice (t.slice c.leaves)))) = some (setPhase s i (.loading (.edge c false))) := by
  simp [step, hph, hst, hreq, setPhase]

theorem load_loaded {s : Sys} {i : Nat} {c : Ck} (hph : (s.insts i).phase = .loading (.edge c false)) :
    step s (.loaded i c) = some (s.setInst i { s.insts i with phase := .idle, tree := c }) := by
  simp [step, hph]

theorem storeUpload_ok {st : Store} {k : Key} {o : Obj} (h : ∀ old, st k = some (old, true) → old = o) :
    storeUpload st k true o .ok = some (updK st k (some (o, true))) := by
  unfold storeUpload
  split
  · rename_i old heq
    have := h old heq
    simp [this]
  · rfl

/-- re-applying the first remaining tile of the fetched bundle -/
theorem load_apply {s : Sys} {i : Nat} {c : Ck} {t : TileId} {xs : Tree} {rest : List (TileId × Tree)}
    (hph : (s.insts i).phase = .loading (.apply c ((t, xs) :: rest) false))
    (hst : ∀ old, s.store (.tile t) = some (old, true) → old = .slice xs) :
    ∃ s1, step s (.upload i (.tile t) true (.slice xs) .ok) = some s1 ∧ Fr i s s1 ∧
      (s1.insts i).phase = (if (rest.filter (fun p => p.1 != t)).isEmpty then .loading (.edge c false)
        else .loading (.apply c (rest.filter (fun p => p.1 != t)) false)) := by
  have hup := storeUpload_ok hst
  have hfr : ∀ p, Fr i s ({ s with store := updK s.store (.tile t) (some (.slice xs, true)) }.setInst i
      { s.insts i with phase := p }) := by
    intro p
    refine ⟨rfl, rfl, rfl, rfl, ?_, ?_, ?_, ?_, ?_⟩
    · intro j hj; simp [Sys.setInst, upd, hj]
    · simp [Sys.setInst, upd]
    · intro h; simpa [Sys.setInst, upd] using h
    · intro k hk
      have : k ≠ .tile t := hk t
      simp [Sys.setInst, updK, this]
    · intro t' o ho
      by_cases ht : t' = t
      · subst ht
        have := hst o ho
        simp [Sys.setInst, updK, this]
      · simp [Sys.setInst, updK, ht, ho]
  by_cases hemp : (rest.filter (fun p => p.1 != t)).isEmpty
  · refine ⟨_, ?_, hfr (.loading (.edge c false)), ?_⟩
    · simp [step, hph, hup, hemp]
    · simp [Sys.setInst, upd, hemp]
  · refine ⟨_, ?_, hfr (.loading (.apply c (rest.filter (fun p => p.1 != t)) false)), ?_⟩
    · simp [step, hph, hup, hemp]
    · simp [Sys.setInst, upd, hemp]

end Seq

namespace Seq

/-! ### the recovery script -/

/-- one upload per remaining bundle item; the model drops every entry with that tile id afterwards
    (`n` is fuel: the length of the list suffices) -/
def applyEvs (i : Nat) : Nat → List (TileId × Tree) → List Ev
  | 0, _ => []
  | _ + 1, [] => []
  | n + 1, (t, xs) :: rest =>
    .upload i (.tile t) true (.slice xs) .ok :: applyEvs i n (rest.filter (fun p => p.1 != t))

/-- right-edge fetches, each answered with the prescribed content -/
def edgeEvs (i : Nat) (c : Ck) (ts : List TileId) : List Ev :=
  ts.map fun t => .fetch i (.tile t) (.ok (.slice (t.slice c.leaves)))

/-- a fault-free load of instance `i`: lock checkpoint `c`, checkpoint object `c1`, clock value `v`,
    the staged bundle to re-apply (if the checkpoint object is behind), right-edge tiles `ts` -/
def recoverScript (i : Nat) (c c1 : Ck) (v : Nat) (items : Option (List (TileId × Tree))) (ts : List TileId) :
    List Ev :=
  [.launchLoad i, .lockFetch i (.ok c), .clock i v, .fetch i .ckpt (.ok (.ck c1)), .clock i v] ++
  (match items with
   | none => []
   | some items =>
     [.fetch i (.legacyStaging c.leaves) .nf, .fetch i (.staging c.leaves) (.ok (.bundle items))] ++
       applyEvs i items.length items) ++
  edgeEvs i c ts ++ [.loaded i c]

/-- the script for state `s`: what the checkpoint and staging objects hold decides the branch -/
def recoverEvs (s : Sys) (i : Nat) (c : Ck) (v : Nat) (ts : List TileId) : List Ev :=
  match s.store .ckpt with
  | some (.ck c1, _) =>
    if c1.leaves = c.leaves then recoverScript i c c1 v none ts
    else (match s.store (.staging c.leaves) with
      | some (.bundle items, _) => recoverScript i c c1 v (some items) ts
      | _ => [])
  | _ => []

theorem applyEvs_nil (i n : Nat) : applyEvs i n [] = [] := by cases n <;> rfl

theorem recoverScript_head (i : Nat) (c c1 : Ck) (v : Nat) (items : Option (List (TileId × Tree))) (ts : List TileId) :
    (recoverScript i c c1 v items ts).head? = some (.launchLoad i) := rfl

theorem recoverScript_last (i : Nat) (c c1 : Ck) (v : Nat) (items : Option (List (TileId × Tree))) (ts : List TileId) :
    (recoverScript i c c1 v items ts).getLast? = some (.loaded i c) := by
  unfold recoverScript
  exact List.getLast?_concat

theorem recoverScript_edge (i : Nat) (c c1 : Ck) (v : Nat) (items : Option (List (TileId × Tree))) (ts : List TileId) :
    ∀ t ∈ ts, Ev.fetch i (.tile t) (.ok (.slice (t.slice c.leaves))) ∈ recoverScript i c c1 v items ts := by
  intro t ht
  simp only [recoverScript, List.mem_append, edgeEvs, List.mem_map]
  exact Or.inl (Or.inr ⟨t, ht, rfl⟩)

/-! ### the loops -/

/-- re-applying the fetched bundle: every upload is accepted (tiles already present are renderings of
    prefixes of the lock tree, hence identical) and the load reaches the right-edge check -/
theorem apply_run {s0 : Sys} {i : Nat} {c : Ck} (ht0 : s0.tampered = false) (hl0 : s0.lock = some c) :
    ∀ (n : Nat) (rem : List (TileId × Tree)) (s : Sys), rem.length ≤ n → rem ≠ [] → Reachable s → Fr i s0 s →
      (s.insts i).phase = .loading (.apply c rem false) →
      ∃ s', run s (applyEvs i n rem) = some s' ∧ Fr i s s' ∧ (s'.insts i).phase = .loading (.edge c false) := by
  intro n
  induction n with
  | zero =>
    intro rem s hlen hne
    cases rem with
    | nil => exact absurd rfl hne
    | cons _ _ => simp at hlen
  | succ n ih =>
    intro rem s hlen hne r fr hph
    cases rem with
    | nil => exact absurd rfl hne
    | cons p rest =>
      obtain ⟨t, xs⟩ := p
      have ht : s.tampered = false := by rw [fr.tampered]; exact ht0
      have hl : s.lock = some c := by rw [fr.lock]; exact hl0
      have h1 := inv_reachable r
      have h3 := inv3_reachable r ht
      have h4 := inv4_reachable r ht
      have hxs : xs = t.slice c.leaves := by
        have := h3.inst i
        simp only [SOK, hph] at this
        obtain ⟨old, items, hb, _, _, hsub, _⟩ := this
        exact bundle_slice hb (hsub _ List.mem_cons_self)
      have hst : ∀ old, s.store (.tile t) = some (old, true) → old = .slice xs := by
        intro old hold
        obtain ⟨_, c', hc', hhi, ho⟩ := h4.tiles t old true hold
        have hpre := (lock_extends_hist h1 hl c' hc').1
        rw [ho, hxs, slice_prefix hpre hhi]
      obtain ⟨s1, hs1, fr1, hph1⟩ := load_apply hph hst
      by_cases hemp : (rest.filter (fun p => p.1 != t)).isEmpty
      · have hnil : rest.filter (fun p => p.1 != t) = [] := by simpa using hemp
        simp only [hemp, if_true] at hph1
        refine ⟨s1, ?_, fr1, hph1⟩
        simp only [applyEvs, hnil, applyEvs_nil]
        exact run_single hs1
      · simp only [hemp] at hph1
        have hlen' : (rest.filter (fun p => p.1 != t)).length ≤ n := by
          have := List.length_filter_le (fun p : TileId × Tree => p.1 != t) rest
          simp at hlen; omega
        have hne' : rest.filter (fun p => p.1 != t) ≠ [] := by simpa using hemp
        obtain ⟨s', hrun, fr', hph'⟩ := ih _ s1 hlen' hne' (r.step hs1) (fr.trans fr1) hph1
        exact ⟨s', run_cons_some hs1 hrun, fr1.trans fr', hph'⟩

/-- the right-edge fetches: every requested required tile is found with the prescribed content -/
theorem edge_run {i : Nat} {c : Ck} :
    ∀ (ts : List TileId) (s : Sys), (∀ t ∈ ts, Req c.leaves.length t = true ∧ t.kind.level < 8) →
      Complete s.store c.leaves → (s.insts i).phase = .loading (.edge c false) →
      ∃ s', run s (edgeEvs i c ts) = some s' ∧ Fr i s s' ∧ (s'.insts i).phase = .loading (.edge c false) := by
  intro ts
  induction ts with
  | nil => intro s _ _ hph; exact ⟨s, rfl, Fr.refl i s, hph⟩
  | cons t ts ih =>
    intro s hts hc hph
    obtain ⟨hreq, hlv⟩ := hts t List.mem_cons_self
    have hs1 := load_edgeFetch hph (hc t hreq hlv) hreq
    have fr1 := fr_setPhase s i (.loading (.edge c false))
    obtain ⟨s', hrun, fr', hph'⟩ := ih (setPhase s i (.loading (.edge c false)))
      (fun t' ht' => hts t' (List.mem_cons_of_mem _ ht')) (hc.mono fr1.tileLe) (setPhase_phase _ _ _)
    exact ⟨s', run_cons_some hs1 hrun, fr1.trans fr', hph'⟩

end Seq

namespace Seq

/-! ### assembling the run -/

theorem fr_setIdle (s : Sys) (i : Nat) (c : Ck) :
    Fr i s (s.setInst i { s.insts i with phase := .idle, tree := c }) := by
  refine ⟨rfl, rfl, rfl, rfl, ?_, ?_, ?_, fun _ _ => rfl, TileLe.refl _⟩
  · intro j hj; simp [Sys.setInst, upd, hj]
  · simp [Sys.setInst, upd]
  · intro h; simpa [Sys.setInst, upd] using h

/-- launch, lock fetch, clock, checkpoint fetch -/
theorem prefix_run {s : Sys} {i v : Nat} {c c1 : Ck} {imm : Bool} (hl : s.lock = some c)
    (hdown : (s.insts i).phase = .down) (hcfg : (s.insts i).cfgBad = false) (hv : c.time ≤ v)
    (hck : s.store .ckpt = some (.ck c1, imm)) :
    ∃ s4, run s [.launchLoad i, .lockFetch i (.ok c), .clock i v, .fetch i .ckpt (.ok (.ck c1))] = some s4 ∧
      Fr i s s4 ∧ (s4.insts i).phase = .loading (.clock2 c c1) ∧ (s4.insts i).evictPending = false := by
  obtain ⟨s1, hs1, fr1, hph1, hev1⟩ := load_launch hdown
  have hs2 := load_lockFetch hph1 (fr1.lock.trans hl) (fr1.cfg.trans hcfg)
  have fr2 := fr1.trans (fr_setPhase s1 i (.loading (.clock1 c)))
  have hs3 := load_clock1 (setPhase_phase s1 i (.loading (.clock1 c))) hv
  have fr3 := fr2.trans (fr_setPhase _ i (.loading (.ckptFetch c)))
  have hs4 := load_ckptFetch (setPhase_phase _ i (.loading (.ckptFetch c))) ((fr3.keys .ckpt (by simp)).trans hck)
  have fr4 := fr3.trans (fr_setPhase _ i (.loading (.clock2 c c1)))
  refine ⟨_, run_cons_some hs1 (run_cons_some hs2 (run_cons_some hs3 (run_single hs4))), fr4,
    setPhase_phase _ _ _, ?_⟩
  have e2 := (fr_setPhase s1 i (.loading (.clock1 c))).ev hev1
  have e3 := (fr_setPhase _ i (.loading (.ckptFetch c))).ev e2
  exact (fr_setPhase _ i (.loading (.clock2 c c1))).ev e3

/-- right-edge fetches and the `loaded` event -/
theorem finish_run {s : Sys} {i : Nat} {c : Ck} (hph : (s.insts i).phase = .loading (.edge c false))
    (hc : Complete s.store c.leaves) (ts : List TileId)
    (hts : ∀ t ∈ ts, Req c.leaves.length t = true ∧ t.kind.level < 8) :
    ∃ s', run s (edgeEvs i c ts ++ [.loaded i c]) = some s' ∧ Fr i s s' ∧ (s'.insts i).phase = .idle ∧
      (s'.insts i).tree = c ∧ Complete s'.store c.leaves := by
  obtain ⟨s1, hrun, fr1, hph1⟩ := edge_run ts s hts hc hph
  have hs2 := load_loaded hph1
  have fr2 := fr1.trans (fr_setIdle s1 i c)
  refine ⟨_, run_append_some hrun (run_single hs2), fr2, by simp [Sys.setInst, upd], by simp [Sys.setInst, upd],
    hc.mono fr2.tileLe⟩

/-- **Recovery (partial).** From every reachable untampered state in which log creation has completed
    and instance `i` is down with the log's own configuration, the fault-free load script is accepted
    event by event and ends `loaded` on the lock checkpoint with its tree completely rendered —
    provided the checkpoint object has the lock checkpoint's leaves or the lock tree's bundle is
    still staged (`hcs`). Missing for the unconditional statement: `hcs` itself, which fails after a
    publication regression followed by a discard (`Seq.Cex`). -/
theorem recover_run_partial {s : Sys} (r : Reachable s) (ht : s.tampered = false) (i : Nat) (c : Ck) (v : Nat)
    (hl : s.lock = some c) (hpub : s.pubHist ≠ [])
    (hdown : (s.insts i).phase = .down) (hcfg : (s.insts i).cfgBad = false) (hv : c.time ≤ v)
    (hcs : ∀ c1 imm, s.store .ckpt = some (.ck c1, imm) → c1.leaves = c.leaves ∨ Staged s.store c.leaves)
    (ts : List TileId) (hts : ∀ t ∈ ts, Req c.leaves.length t = true ∧ t.kind.level < 8) :
    ∃ s' c1 items, recoverEvs s i c v ts = recoverScript i c c1 v items ts ∧
      run s (recoverEvs s i c v ts) = some s' ∧ (s'.insts i).phase = .idle ∧ (s'.insts i).tree = c ∧
      (s'.insts i).evictPending = false ∧ Complete s'.store c.leaves ∧ Fr i s s' := by
  have h1 := inv_reachable r
  have h3 := inv3_reachable r ht
  have h4 := inv4_reachable r ht
  obtain ⟨c1, imm, hck⟩ := h4.ckSome hpub
  have hc1p : c1 ∈ s.pubHist := h3.ckpt c1 imm hck
  obtain ⟨hpre, htime⟩ := lock_extends_hist h1 hl c1 (h1.pub c1 hc1p)
  have hv1 : c1.time ≤ v := Nat.le_trans htime hv
  obtain ⟨s4, hrun4, fr4, hph4, hev4⟩ := prefix_run (v := v) hl hdown hcfg hv hck
  by_cases heq : c1.leaves = c.leaves
  · -- the checkpoint object is up to date: straight to the right-edge check
    have hscript : recoverEvs s i c v ts = recoverScript i c c1 v none ts := by
      simp [recoverEvs, hck, heq]
    have hs5 := load_clock2_eq hph4 hv1 heq
    have fr5 := fr4.trans (fr_setPhase s4 i (.loading (.edge c false)))
    have hc5 : Complete (setPhase s4 i (.loading (.edge c false))).store c.leaves := by
      have := h3.pub c1 hc1p
      rw [heq] at this
      exact this.mono fr5.tileLe
    obtain ⟨s', hrun', fr', hph', htree', hcomp'⟩ := finish_run (setPhase_phase s4 i _) hc5 ts hts
    refine ⟨s', c1, none, hscript, ?_, hph', htree', ?_, hcomp', fr5.trans fr'⟩
    · rw [hscript]
      unfold recoverScript
      have h5 : run s [.launchLoad i, .lockFetch i (.ok c), .clock i v, .fetch i .ckpt (.ok (.ck c1)), .clock i v] =
          some (setPhase s4 i (.loading (.edge c false))) :=
        run_append_some (b := [.clock i v]) hrun4 (run_single hs5)
      simp only [List.append_nil, List.append_assoc]
      exact run_append_some h5 hrun'
    · exact fr'.ev ((fr_setPhase s4 i _).ev hev4)
  · -- the checkpoint object is behind: re-apply the staged bundle
    obtain ⟨items, imm', hstg⟩ := (hcs c1 imm hck).resolve_left heq
    have hscript : recoverEvs s i c v ts = recoverScript i c c1 v (some items) ts := by
      simp [recoverEvs, hck, heq, hstg]
    have hne : items ≠ [] := by
      obtain ⟨_, items', hb, hn⟩ := h4.stagedNe _ _ _ hstg
      injection hb with hb; subst hb; exact hn
    have hs5 := load_clock2_lt hph4 hv1 hpre heq
    have fr5 := fr4.trans (fr_setPhase s4 i (.loading (.legacy c)))
    have hs6 := load_legacy (setPhase_phase s4 i (.loading (.legacy c)))
      ((fr5.keys (.legacyStaging c.leaves) (by simp)).trans (h4.legacy _))
    have fr6 := fr5.trans (fr_setPhase _ i (.loading (.stagingFetch c)))
    have hs7 := load_stagingFetch (setPhase_phase _ i (.loading (.stagingFetch c)))
      ((fr6.keys (.staging c.leaves) (by simp)).trans hstg)
    have fr7 := fr6.trans (fr_setPhase _ i (.loading (.apply c items false)))
    have h7 : run s ([.launchLoad i, .lockFetch i (.ok c), .clock i v, .fetch i .ckpt (.ok (.ck c1)), .clock i v] ++
        [.fetch i (.legacyStaging c.leaves) .nf, .fetch i (.staging c.leaves) (.ok (.bundle items))]) = some
          (setPhase (setPhase (setPhase s4 i (.loading (.legacy c))) i (.loading (.stagingFetch c))) i
            (.loading (.apply c items false))) :=
      run_append_some (b := [.clock i v, .fetch i (.legacyStaging c.leaves) .nf,
        .fetch i (.staging c.leaves) (.ok (.bundle items))]) hrun4
        (run_cons_some hs5 (run_cons_some hs6 (run_single hs7)))
    have r7 := r.run h7
    obtain ⟨s8, hrun8, fr8, hph8⟩ := apply_run ht hl items.length items _ (Nat.le_refl _) hne r7 fr7
      (setPhase_phase _ i _)
    have h8 := run_append_some h7 hrun8
    have r8 := r.run h8
    have fr08 := fr7.trans fr8
    have ht8 : s8.tampered = false := by rw [fr08.tampered]; exact ht
    have hc8 : Complete s8.store c.leaves := by
      have := (inv3_reachable r8 ht8).inst i
      simpa [SOK, hph8] using this
    obtain ⟨s', hrun', fr', hph', htree', hcomp'⟩ := finish_run hph8 hc8 ts hts
    refine ⟨s', c1, some items, hscript, ?_, hph', htree', ?_, hcomp', fr08.trans fr'⟩
    · rw [hscript]
      unfold recoverScript
      have := run_append_some h8 hrun'
      simpa only [List.append_assoc] using this
    · have e5 := (fr_setPhase s4 i (.loading (.legacy c))).ev hev4
      have e6 := (fr_setPhase _ i (.loading (.stagingFetch c))).ev e5
      have e7 := (fr_setPhase _ i (.loading (.apply c items false))).ev e6
      exact fr'.ev (fr8.ev e7)

end Seq

namespace Seq

/-- an idle instance with no eviction report outstanding can start a sequencing round -/
theorem can_launch_round {s : Sys} {i : Nat} (hph : (s.insts i).phase = .idle)
    (hev : (s.insts i).evictPending = false) : ∃ s'', step s (.launchRound i) = some s'' := by
  simp [step, hph, hev]

/-- `recover_run_partial` in event-list form: an accepted fault-free run that starts with
    `launchLoad i`, ends with `loaded i c`, contains every requested right-edge fetch answered with the
    prescribed content, leaves locks, histories and the other instances untouched, and after which
    the instance can sequence again -/
theorem recover_run_of_ckpt_or_staged {s : Sys} (r : Reachable s) (ht : s.tampered = false) (i : Nat) (c : Ck)
    (v : Nat) (hl : s.lock = some c) (hpub : s.pubHist ≠ [])
    (hdown : (s.insts i).phase = .down) (hcfg : (s.insts i).cfgBad = false) (hv : c.time ≤ v)
    (hcs : ∀ c1 imm, s.store .ckpt = some (.ck c1, imm) → c1.leaves = c.leaves ∨ Staged s.store c.leaves)
    (ts : List TileId) (hts : ∀ t ∈ ts, Req c.leaves.length t = true ∧ t.kind.level < 8) :
    ∃ es s', run s es = some s' ∧ (s'.insts i).phase = .idle ∧ (s'.insts i).tree = c ∧
      Complete s'.store c.leaves ∧ s'.lock = some c ∧ s'.lockHist = s.lockHist ∧ s'.pubHist = s.pubHist ∧
      s'.tampered = false ∧ (∀ j, j ≠ i → s'.insts j = s.insts j) ∧
      es.head? = some (.launchLoad i) ∧ es.getLast? = some (.loaded i c) ∧
      (∀ t ∈ ts, Ev.fetch i (.tile t) (.ok (.slice (t.slice c.leaves))) ∈ es) ∧
      (∃ s'', step s' (.launchRound i) = some s'') := by
  obtain ⟨s', c1, items, hscript, hrun, hph, htree, hev, hcomp, fr⟩ :=
    recover_run_partial r ht i c v hl hpub hdown hcfg hv hcs ts hts
  refine ⟨recoverEvs s i c v ts, s', hrun, hph, htree, hcomp, fr.lock.trans hl, fr.lockHist, fr.pubHist,
    fr.tampered.trans ht, fr.others, ?_, ?_, ?_, can_launch_round hph hev⟩
  · rw [hscript]; exact recoverScript_head _ _ _ _ _ _
  · rw [hscript]; exact recoverScript_last _ _ _ _ _ _
  · rw [hscript]; exact recoverScript_edge _ _ _ _ _ _

/-- no publication regression: the checkpoint object is a longest published checkpoint. Then the
    proviso of `recover_run_partial` holds. -/
theorem ckpt_or_staged_of_no_regression {s : Sys} (r : Reachable s) (ht : s.tampered = false) {c : Ck}
    (hl : s.lock = some c)
    (hnr : ∀ c1 imm, s.store .ckpt = some (.ck c1, imm) → ∀ p ∈ s.pubHist, p.leaves.length ≤ c1.leaves.length) :
    ∀ c1 imm, s.store .ckpt = some (.ck c1, imm) → c1.leaves = c.leaves ∨ Staged s.store c.leaves := by
  intro c1 imm hck
  have h1 := inv_reachable r
  have h3 := inv3_reachable r ht
  have h4 := inv4_reachable r ht
  obtain ⟨hpre, _⟩ := lock_extends_hist h1 hl c1 (h1.pub c1 (h3.ckpt c1 imm hck))
  rcases h4.hist c (lock_mem_hist h1 hl) with h0 | ⟨p, hp, hpl⟩ | hst
  · left
    rw [h0] at hpre ⊢
    exact List.prefix_nil.1 hpre
  · left
    have := hnr c1 imm hck p hp
    rw [hpl] at this
    exact hpre.eq_of_length (Nat.le_antisymm hpre.length_le this)
  · exact Or.inr hst

end Seq
