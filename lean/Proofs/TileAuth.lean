import Model.TileAuth
import Proofs.MerkleMore
/-! Soundness of hash-tile authentication (Model/TileAuth.lean), for all tree sizes and all tile levels.

* `mth_items`: for a block size that is a power of two, the RFC 6962 hash of a leaf list is the RFC 6962 hash of the
  list of its block hashes (full blocks, then the shorter last block) — tiles compose.
* `edgeFold_sound`: if the entries claimed for the right-edge tiles (with the widths the tree size prescribes)
  recombine to the root of `B`, they are the authentic entries, level by level (needs only `NodeInj`).
* `child_sound`: a full tile that hashes to its (authentic) parent entry is authentic.

Core Lean only. -/
namespace TileAuth
open Merkle
variable {H : Type} (node : H → H → H) (empty : H)

/-! ### arithmetic of `split` -/

theorem split_unique {m a : Nat} (h1 : 2 ^ a < m) (h2 : m ≤ 2 ^ (a + 1)) : split m = 2 ^ a := by
  unfold split
  congr 1
  have hm : m - 1 ≠ 0 := by
    have : 0 < 2 ^ a := Nat.pow_pos (by decide)
    omega
  exact (Nat.log2_eq_iff hm).2 ⟨by omega, by omega⟩

/-- for a power of two `s` below `n`, the RFC 6962 split point of `n` is a multiple of `s`, and dividing by `s`
    gives the split point of the number of blocks -/
theorem split_blocks {k n : Nat} (h : 2 ^ k < n) :
    ∃ j, k ≤ j ∧ split n = 2 ^ k * 2 ^ (j - k) ∧ split ((n + 2 ^ k - 1) / 2 ^ k) = 2 ^ (j - k) := by
  have hs : 0 < 2 ^ k := Nat.pow_pos (by decide)
  have hn1 : n - 1 ≠ 0 := by omega
  refine ⟨(n - 1).log2, ?_, ?_, ?_⟩
  · -- k ≤ log2 (n-1)
    have hlt : n - 1 < 2 ^ ((n - 1).log2 + 1) := Nat.lt_log2_self
    apply Classical.byContradiction
    intro hk
    have hk' : (n - 1).log2 + 1 ≤ k := by omega
    have : 2 ^ ((n - 1).log2 + 1) ≤ 2 ^ k := Nat.pow_le_pow_right (by decide) hk'
    omega
  · unfold split
    have hk : k ≤ (n - 1).log2 := by
      have hlt : n - 1 < 2 ^ ((n - 1).log2 + 1) := Nat.lt_log2_self
      apply Classical.byContradiction
      intro hk
      have hk' : (n - 1).log2 + 1 ≤ k := by omega
      have : 2 ^ ((n - 1).log2 + 1) ≤ 2 ^ k := Nat.pow_le_pow_right (by decide) hk'
      omega
    rw [← Nat.pow_add]
    congr 1
    omega
  · have hk : k ≤ (n - 1).log2 := by
      have hlt : n - 1 < 2 ^ ((n - 1).log2 + 1) := Nat.lt_log2_self
      apply Classical.byContradiction
      intro hk
      have hk' : (n - 1).log2 + 1 ≤ k := by omega
      have : 2 ^ ((n - 1).log2 + 1) ≤ 2 ^ k := Nat.pow_le_pow_right (by decide) hk'
      omega
    have hlo : 2 ^ (n - 1).log2 ≤ n - 1 := Nat.log2_self_le hn1
    have hhi : n - 1 < 2 ^ ((n - 1).log2 + 1) := Nat.lt_log2_self
    have e1 : 2 ^ (n - 1).log2 = 2 ^ ((n - 1).log2 - k) * 2 ^ k := by
      rw [← Nat.pow_add]; congr 1; omega
    have e2 : 2 ^ ((n - 1).log2 + 1) = 2 ^ ((n - 1).log2 - k + 1) * 2 ^ k := by
      rw [← Nat.pow_add]; congr 1; omega
    apply split_unique
    · -- 2^(j-k) < (n + s - 1)/s
      rw [Nat.lt_div_iff_mul_lt hs]
      have : 2 ^ ((n - 1).log2 - k) * 2 ^ k ≤ n - 1 := by rw [← e1]; exact hlo
      omega
    · -- (n + s - 1)/s ≤ 2^(j-k+1)
      apply Nat.le_of_lt_succ
      rw [Nat.div_lt_iff_lt_mul hs]
      have : n - 1 < 2 ^ ((n - 1).log2 - k + 1) * 2 ^ k := by rw [← e2]; exact hhi
      have e3 : (2 ^ ((n - 1).log2 - k + 1)).succ * 2 ^ k = 2 ^ ((n - 1).log2 - k + 1) * 2 ^ k + 2 ^ k := by
        rw [Nat.succ_mul]
      omega

/-! ### `items` -/

theorem items_small {s : Nat} {B : List H} (h : s = 0 ∨ B.length ≤ s) :
    items node empty s B = if B = [] then [] else [mth node empty B] := by
  rw [items]; simp [h]

theorem items_big {s : Nat} {B : List H} (h0 : 0 < s) (h : s < B.length) :
    items node empty s B = mth node empty (B.take s) :: items node empty s (B.drop s) := by
  rw [items]
  have : ¬ (s = 0 ∨ B.length ≤ s) := by omega
  simp [this]

theorem items_nil (s : Nat) : items node empty s ([] : List H) = [] := by
  rw [items_small node empty (Or.inr (by simp))]; simp

theorem items_length {s : Nat} (h0 : 0 < s) : ∀ (n : Nat) (B : List H), B.length = n →
    (items node empty s B).length = (n + s - 1) / s := by
  intro n
  induction n using Nat.strongRecOn with
  | _ n ih =>
    intro B hB
    by_cases hle : B.length ≤ s
    · rw [items_small node empty (Or.inr hle)]
      by_cases he : B = []
      · subst he; simp at hB; subst hB
        simp
        exact (Nat.div_eq_of_lt (by omega)).symm
      · simp [he]
        have hpos : 0 < n := by
          rw [← hB]; exact List.length_pos_iff.2 he
        have : (n + s - 1) / s = 1 := by
          apply Nat.div_eq_of_lt_le <;> omega
        omega
    · have hlt : s < B.length := by omega
      rw [items_big node empty h0 hlt]
      simp only [List.length_cons]
      rw [ih (n - s) (by omega) (B.drop s) (by rw [List.length_drop]; omega)]
      have : n + s - 1 = (n - s + s - 1) + s := by omega
      rw [this, Nat.add_div_right _ h0]

/-- a prefix made of full blocks contributes exactly its blocks -/
theorem items_append {s : Nat} (h0 : 0 < s) : ∀ (p : Nat) (A C : List H), A.length = p * s →
    items node empty s (A ++ C) = items node empty s A ++ items node empty s C := by
  intro p
  induction p with
  | zero =>
    intro A C hA
    have : A = [] := List.length_eq_zero_iff.1 (by simpa using hA)
    subst this
    simp [items_nil]
  | succ p ih =>
    intro A C hA
    have hAs : s ≤ A.length := by rw [hA, Nat.succ_mul]; omega
    by_cases hbig : s < (A ++ C).length
    · rw [items_big node empty h0 hbig]
      have ht : (A ++ C).take s = A.take s := by
        rw [List.take_append_of_le_length hAs]
      have hd : (A ++ C).drop s = A.drop s ++ C := by
        rw [List.drop_append_of_le_length hAs]
      rw [ht, hd, ih (A.drop s) C (by rw [List.length_drop, hA, Nat.succ_mul]; omega)]
      by_cases hA1 : s < A.length
      · rw [items_big node empty h0 hA1]; rfl
      · have hAeq : A.length = s := by omega
        rw [items_small node empty (Or.inr (by omega : A.length ≤ s))]
        have hne : A ≠ [] := by
          intro h; subst h; simp at hAeq; omega
        have hdn : A.drop s = [] := by
          apply List.drop_eq_nil_of_le; omega
        have htk : A.take s = A := by
          apply List.take_of_length_le; omega
        simp [hne, hdn, htk, items_nil]
    · -- the whole list is one block: C is empty and A is exactly one block
      have hlen : (A ++ C).length ≤ s := by omega
      have hC : C = [] := by
        rw [List.length_append] at hlen
        apply List.length_eq_zero_iff.1; omega
      subst hC
      simp [items_nil]

/-! ### tiles compose: Lemma A -/

theorem mth_items (k : Nat) : ∀ (n : Nat) (B : List H), B.length = n →
    mth node empty (items node empty (2 ^ k) B) = mth node empty B := by
  have hs : 0 < 2 ^ k := Nat.pow_pos (by decide)
  intro n
  induction n using Nat.strongRecOn with
  | _ n ih =>
    intro B hB
    by_cases hle : B.length ≤ 2 ^ k
    · rw [items_small node empty (Or.inr hle)]
      by_cases he : B = []
      · simp [he]
      · simp [he, mth_singleton]
    · have hlt : 2 ^ k < n := by omega
      obtain ⟨j, hkj, hsplit, hsplitm⟩ := split_blocks hlt
      have h2 : 2 ≤ n := by omega
      have hk0lt := split_lt h2
      -- B = take k0 ++ drop k0, the prefix is made of 2^(j-k) full blocks
      have hdecomp : items node empty (2 ^ k) B =
          items node empty (2 ^ k) (B.take (split n)) ++ items node empty (2 ^ k) (B.drop (split n)) := by
        have := items_append node empty hs (2 ^ (j - k)) (B.take (split n)) (B.drop (split n))
          (by rw [List.length_take, hB, Nat.min_eq_left (by omega), hsplit, Nat.mul_comm])
        rw [List.take_append_drop] at this
        exact this
      have hlenL : (items node empty (2 ^ k) (B.take (split n))).length = 2 ^ (j - k) := by
        rw [items_length node empty hs (split n) _ (by rw [List.length_take, hB]; omega)]
        rw [hsplit]
        have : 2 ^ k * 2 ^ (j - k) + 2 ^ k - 1 = (2 ^ k - 1) + 2 ^ (j - k) * 2 ^ k := by
          rw [Nat.mul_comm]; omega
        rw [this, Nat.add_mul_div_right _ _ hs, Nat.div_eq_of_lt (by omega)]
        omega
      have hlenAll : (items node empty (2 ^ k) B).length = (n + 2 ^ k - 1) / 2 ^ k :=
        items_length node empty hs n B hB
      have hm2 : 2 ≤ (items node empty (2 ^ k) B).length := by
        rw [hlenAll]
        rw [Nat.le_div_iff_mul_le hs]
        omega
      rw [mth_unfold node empty _ hm2, hlenAll, hsplitm]
      rw [hdecomp]
      rw [List.take_append_of_le_length (by omega), List.take_of_length_le (by omega)]
      rw [List.drop_append_of_le_length (by omega), List.drop_of_length_le (by omega), List.nil_append]
      rw [ih (split n) (by omega) (B.take (split n)) (by rw [List.length_take, hB]; omega)]
      rw [ih (n - split n) (by have := split_pos n; omega) (B.drop (split n)) (by rw [List.length_drop, hB])]
      rw [mth_unfold node empty B (by omega), hB]

end TileAuth

namespace TileAuth
open Merkle
variable {H : Type} (node : H → H → H) (empty : H)

/-! ### blocks of a list made of full blocks -/

theorem rng_of_drop (X : List H) (a b c : Nat) : rng (X.drop a) b c = rng X (a + b) (a + c) := by
  unfold rng
  rw [List.drop_drop]
  congr 1
  omega

theorem items_cons {s : Nat} (h0 : 0 < s) {X : List H} (hX : s ≤ X.length) :
    items node empty s X = mth node empty (X.take s) :: items node empty s (X.drop s) := by
  by_cases hbig : s < X.length
  · exact items_big node empty h0 hbig
  · have hl : X.length = s := by omega
    rw [items_small node empty (Or.inr (by omega : X.length ≤ s))]
    have hne : X ≠ [] := by intro h; subst h; simp at hl; omega
    have hdn : X.drop s = [] := List.drop_eq_nil_of_le (by omega)
    have htk : X.take s = X := List.take_of_length_le (by omega)
    simp [hne, hdn, htk, items_nil]

/-- a list of `q` full blocks: its items are the hashes of the blocks -/
theorem items_eq_map {s : Nat} (h0 : 0 < s) : ∀ (q : Nat) (X : List H), X.length = q * s →
    items node empty s X = (List.range q).map (fun j => mth node empty (rng X (j * s) ((j + 1) * s))) := by
  intro q
  induction q with
  | zero =>
    intro X hX
    have : X = [] := List.length_eq_zero_iff.1 (by simpa using hX)
    subst this
    simp [items_nil]
  | succ q ih =>
    intro X hX
    have hs : s ≤ X.length := by rw [hX, Nat.succ_mul]; omega
    rw [items_cons node empty h0 hs, ih (X.drop s) (by rw [List.length_drop, hX, Nat.succ_mul]; omega)]
    rw [List.range_succ_eq_map, List.map_cons, List.map_map]
    congr 1
    · unfold rng; simp
    · apply List.map_congr_left
      intro j _
      simp only [Function.comp]
      rw [rng_of_drop]
      congr 2 <;> (simp only [Nat.succ_eq_add_one, Nat.add_mul]; omega)

theorem level_exact {s : Nat} (h0 : 0 < s) (q : Nat) (X : List H) (hX : X.length = q * s) :
    level node empty s X = items node empty s X := by
  unfold level
  apply List.take_of_length_le
  rw [items_length node empty h0 _ X rfl, hX, Nat.mul_div_cancel _ h0]
  have : q * s + s - 1 = (s - 1) + q * s := by omega
  rw [this, Nat.add_mul_div_right _ _ h0, Nat.div_eq_of_lt (by omega)]
  omega

theorem level_length {s : Nat} (h0 : 0 < s) (q : Nat) (X : List H) (hX : X.length = q * s) :
    (level node empty s X).length = q := by
  rw [level_exact node empty h0 q X hX, items_eq_map node empty h0 q X hX]; simp

theorem level_one (X : List H) : level node empty 1 X = X := by
  rw [level_exact node empty (by decide) X.length X (by simp), items_eq_map node empty (by decide) X.length X (by simp)]
  apply List.ext_getElem?
  intro i
  by_cases hi : i < X.length
  · rw [List.getElem?_map, List.getElem?_range hi]
    simp only [Option.map_some, Nat.mul_one]
    have : rng X i (i + 1) = [X[i]] := by
      unfold rng
      have h1 : i + 1 - i = 1 := by omega
      rw [h1, List.drop_eq_getElem_cons hi]
      rfl
    rw [this, mth_singleton, List.getElem?_eq_getElem hi]
  · rw [List.getElem?_eq_none (by simp; omega), List.getElem?_eq_none (by omega)]

/-! ### windows and tiles -/

/-- the leaves a tile at level `L`, index `N`, width `W` is computed from -/
def win (B : List H) (L N W : Nat) : List H := rng B (N * 256 * 256 ^ L) ((N * 256 + W) * 256 ^ L)

/-- the authentic content of the tile at level `L`, index `N`, width `W`: the hashes of its `W` blocks -/
def tileOf (B : List H) (L N W : Nat) : List H := level node empty (256 ^ L) (win B L N W)

theorem pow256 (L : Nat) : 256 ^ L = 2 ^ (8 * L) := by
  rw [Nat.pow_mul]

theorem pow256_pos (L : Nat) : 0 < 256 ^ L := Nat.pow_pos (by decide)

theorem win_length (B : List H) {L N W : Nat} (h : (N * 256 + W) * 256 ^ L ≤ B.length) :
    (win B L N W).length = W * 256 ^ L := by
  unfold win
  rw [rng_length B h (by apply Nat.mul_le_mul_right; omega)]
  rw [Nat.add_mul]; omega

theorem tileOf_length (B : List H) {L N W : Nat} (h : (N * 256 + W) * 256 ^ L ≤ B.length) :
    (tileOf node empty B L N W).length = W :=
  level_length node empty (pow256_pos L) W _ (win_length B h)

/-- level-0 tiles hold the leaf hashes themselves -/
theorem tileOf_zero (B : List H) (N W : Nat) : tileOf node empty B 0 N W = rng B (N * 256) (N * 256 + W) := by
  unfold tileOf win
  simp only [Nat.pow_zero, Nat.mul_one]
  exact level_one node empty _

/-- entry `j` of an authentic tile at level `L+1` is the hash of the full tile below it -/
theorem tileOf_entry (B : List H) {L N W j : Nat} (h : (N * 256 + W) * 256 ^ (L + 1) ≤ B.length) (hj : j < W) :
    (tileOf node empty B (L + 1) N W)[j]? = some (mth node empty (win B L (N * 256 + j) 256)) := by
  unfold tileOf
  rw [level_exact node empty (pow256_pos (L + 1)) W _ (win_length B h),
    items_eq_map node empty (pow256_pos (L + 1)) W _ (win_length B h)]
  rw [List.getElem?_map, List.getElem?_range hj]
  simp only [Option.map_some]
  congr 2
  -- the j-th block of the parent's window is the child's window
  unfold win rng
  rw [List.drop_take, List.drop_drop, List.take_take]
  have e : 256 ^ (L + 1) = 256 * 256 ^ L := by rw [Nat.pow_succ, Nat.mul_comm]
  have hs := pow256_pos L
  congr 1
  · rw [e]
    have : ((N * 256 + j) * 256 + 256) * 256 ^ L - (N * 256 + j) * 256 * 256 ^ L = 256 * 256 ^ L := by
      rw [Nat.add_mul ((N * 256 + j) * 256)]; omega
    rw [this]
    have h2 : (j + 1) * (256 * 256 ^ L) - j * (256 * 256 ^ L) = 256 * 256 ^ L := by
      rw [Nat.add_mul]; omega
    rw [h2]
    apply Nat.min_eq_left
    -- the block lies inside the parent's window
    have : (j + 1) * (256 * 256 ^ L) ≤ W * (256 * 256 ^ L) := Nat.mul_le_mul_right _ (by omega)
    have h3 : (N * 256 + W) * (256 * 256 ^ L) - N * 256 * (256 * 256 ^ L) = W * (256 * 256 ^ L) := by
      rw [Nat.add_mul]; omega
    rw [h3]
    have h4 : W * (256 * 256 ^ L) - j * (256 * 256 ^ L) ≥ 256 * 256 ^ L := by
      have : (j + 1) * (256 * 256 ^ L) = j * (256 * 256 ^ L) + 256 * 256 ^ L := by rw [Nat.add_mul]; omega
      omega
    exact h4
  · congr 1
    rw [e]
    have a0 : (N * 256 + j) * 256 = N * 256 * 256 + j * 256 := Nat.add_mul _ _ _
    have a1 : (N * 256 * 256 + j * 256) * 256 ^ L = N * 256 * 256 * 256 ^ L + j * 256 * 256 ^ L := Nat.add_mul _ _ _
    have a2 : N * 256 * (256 * 256 ^ L) = N * 256 * 256 * 256 ^ L := (Nat.mul_assoc _ _ _).symm
    have a3 : j * (256 * 256 ^ L) = j * 256 * 256 ^ L := (Nat.mul_assoc _ _ _).symm
    rw [a0, a1, a2, a3]

/-- a full tile that hashes to its authentic parent entry is authentic -/
theorem child_sound (inj : NodeInj node) (B : List H) {L N : Nat} (es : List H)
    (hb : (N * 256 + 256) * 256 ^ L ≤ B.length) (hl : es.length = 256)
    (h : mth node empty es = mth node empty (win B L N 256)) : es = tileOf node empty B L N 256 := by
  have hw := win_length B hb
  have hA := mth_items node empty (8 * L) _ (win B L N 256) rfl
  rw [← pow256] at hA
  rw [← hA] at h
  unfold tileOf
  rw [level_exact node empty (pow256_pos L) 256 _ hw]
  apply mth_inj node empty inj _ _ _ h
  rw [hl, items_eq_map node empty (pow256_pos L) 256 _ hw]; simp

end TileAuth

namespace TileAuth
open Merkle
variable {H : Type} (node : H → H → H) (empty : H)

/-! ### the right edge -/

/-- the tree hash of a possibly empty list, as the recombination carries it from level to level -/
def optMth (X : List H) : Option H := if X = [] then none else some (mth node empty X)

/-- the leaves beyond the last full block of `256^L` leaves -/
def Rr (B : List H) (L : Nat) : List H := remainder (256 ^ L) B

/-- the recombination of the edge tiles of levels `0 … L-1` (level 0 first) -/
def edgeF (e : Nat → List H) : Nat → Option H
  | 0 => none
  | L + 1 => edgeStep node empty (edgeF e L) (e L)

theorem Rr_length (B : List H) (L : Nat) : (Rr B L).length = B.length % 256 ^ L := by
  unfold Rr remainder
  rw [List.length_drop]
  have := Nat.div_add_mod B.length (256 ^ L)
  rw [Nat.mul_comm] at this
  omega

theorem Rr_zero (B : List H) : Rr B 0 = [] := by
  apply List.length_eq_zero_iff.1
  rw [Rr_length, Nat.pow_zero, Nat.mod_one]

theorem drop_split (B : List H) {a b : Nat} (hab : a ≤ b) : B.drop a = rng B a b ++ B.drop b := by
  unfold rng
  have : B.drop b = (B.drop a).drop (b - a) := by rw [List.drop_drop]; congr 1; omega
  rw [this, List.take_append_drop]

theorem edge_coords (n L : Nat) :
    n / 256 ^ (L + 1) = n / 256 ^ L / 256 ∧
    (n / 256 ^ L / 256 * 256 + n / 256 ^ L % 256) * 256 ^ L = n / 256 ^ L * 256 ^ L ∧
    n / 256 ^ (L + 1) * 256 ^ (L + 1) = n / 256 ^ L / 256 * 256 * 256 ^ L := by
  have e : 256 ^ (L + 1) = 256 ^ L * 256 := Nat.pow_succ ..
  have h1 : n / 256 ^ (L + 1) = n / 256 ^ L / 256 := by rw [e, Nat.div_div_eq_div_mul]
  refine ⟨h1, ?_, ?_⟩
  · have := Nat.div_add_mod (n / 256 ^ L) 256
    rw [Nat.mul_comm] at this
    rw [this]
  · rw [h1, e, Nat.mul_assoc, Nat.mul_comm 256 (256 ^ L)]

/-- the leaves beyond the last full level-(L+1) block are this level's edge window followed by the rest -/
theorem Rr_succ (B : List H) (L : Nat) :
    Rr B (L + 1) = win B L (B.length / 256 ^ L / 256) (edgeWidth B.length L) ++ Rr B L := by
  obtain ⟨_, h2, h3⟩ := edge_coords B.length L
  unfold Rr remainder win edgeWidth
  rw [h3, h2]
  apply drop_split
  rw [← h2]
  apply Nat.mul_le_mul_right
  omega

theorem edge_bound (B : List H) (L : Nat) :
    (B.length / 256 ^ L / 256 * 256 + edgeWidth B.length L) * 256 ^ L ≤ B.length := by
  obtain ⟨_, h2, _⟩ := edge_coords B.length L
  unfold edgeWidth
  rw [h2]
  exact Nat.div_mul_le_self _ _

/-- the block hashes of the leaves beyond the last full level-(L+1) block: the authentic edge tile of level `L`,
    then (if any leaves remain) the hash of what lies below -/
theorem items_Rr (B : List H) (L : Nat) :
    items node empty (256 ^ L) (Rr B (L + 1)) =
      tileOf node empty B L (B.length / 256 ^ L / 256) (edgeWidth B.length L) ++ (optMth node empty (Rr B L)).toList := by
  have hs := pow256_pos L
  have hw := win_length B (edge_bound B L)
  rw [Rr_succ, items_append node empty hs _ _ _ hw]
  congr 1
  · unfold tileOf; rw [level_exact node empty hs _ _ hw]
  · have hlen : (Rr B L).length ≤ 256 ^ L := by
      rw [Rr_length]; exact Nat.le_of_lt (Nat.mod_lt _ hs)
    rw [items_small node empty (Or.inr hlen)]
    unfold optMth
    by_cases h : Rr B L = [] <;> simp [h]

theorem edgeF_isSome (B : List H) (e : Nat → List H) :
    ∀ L, (∀ j, j < L → (e j).length = edgeWidth B.length j) →
      ((edgeF node empty e L).isSome = true ↔ B.length % 256 ^ L ≠ 0) := by
  intro L
  induction L with
  | zero => intro _; simp [edgeF, Nat.mod_one]
  | succ L ih =>
    intro hw
    have ihL := ih (fun j hj => hw j (by omega))
    have hwL := hw L (by omega)
    have hmod : B.length % 256 ^ (L + 1) = B.length % 256 ^ L + 256 ^ L * (B.length / 256 ^ L % 256) := by
      rw [Nat.pow_succ, Nat.mod_mul]
    have hs := pow256_pos L
    simp only [edgeF, edgeStep]
    constructor
    · intro hsome
      by_cases hnil : e L ++ (edgeF node empty e L).toList = []
      · simp [hnil] at hsome
      · intro h0
        rw [hmod] at h0
        have hA : B.length % 256 ^ L = 0 := by omega
        have hB : 256 ^ L * (B.length / 256 ^ L % 256) = 0 := by omega
        have hW : edgeWidth B.length L = 0 := by
          unfold edgeWidth
          rcases Nat.mul_eq_zero.1 hB with h | h
          · omega
          · exact h
        have he : e L = [] := List.length_eq_zero_iff.1 (by rw [hwL, hW])
        have hn : edgeF node empty e L = none := by
          cases hF : edgeF node empty e L with
          | none => rfl
          | some v =>
            have := ihL.1 (by rw [hF]; rfl)
            exact absurd hA this
        apply hnil
        rw [he, hn]; rfl
    · intro hne
      by_cases hnil : e L ++ (edgeF node empty e L).toList = []
      · exfalso
        have he : e L = [] := (List.append_eq_nil_iff.1 hnil).1
        have hn : (edgeF node empty e L).toList = [] := (List.append_eq_nil_iff.1 hnil).2
        have hW : edgeWidth B.length L = 0 := by rw [← hwL, he]; rfl
        have hA : B.length % 256 ^ L = 0 := by
          apply Classical.byContradiction
          intro hA
          have := ihL.2 hA
          cases hF : edgeF node empty e L with
          | none => rw [hF] at this; cases this
          | some v => rw [hF] at hn; cases hn
        apply hne
        rw [hmod, hA]
        unfold edgeWidth at hW
        rw [hW]; simp
      · simp [hnil]

theorem optMth_isSome (X : List H) : (optMth node empty X).isSome = true ↔ X ≠ [] := by
  unfold optMth
  by_cases h : X = [] <;> simp [h]

theorem Rr_ne_nil (B : List H) (L : Nat) : Rr B L ≠ [] ↔ B.length % 256 ^ L ≠ 0 := by
  rw [← Rr_length]
  constructor
  · intro h hl; exact h (List.length_eq_zero_iff.1 hl)
  · intro h hn; rw [hn] at h; exact h rfl

/-- **Edge tiles.** If the entries claimed for the right-edge tiles of levels `0 … L-1` have the widths the tree size
    prescribes and recombine to the hash of the leaves beyond the last full level-`L` block, then every one of them is
    the authentic tile. -/
theorem edgeF_sound (inj : NodeInj node) (B : List H) (e : Nat → List H) :
    ∀ L, (∀ j, j < L → (e j).length = edgeWidth B.length j) →
      edgeF node empty e L = optMth node empty (Rr B L) →
      ∀ j, j < L → e j = tileOf node empty B j (B.length / 256 ^ j / 256) (edgeWidth B.length j) := by
  intro L
  induction L with
  | zero => intro _ _ j hj; omega
  | succ L ih =>
    intro hw hF
    have hwL := hw L (by omega)
    have hw' : ∀ j, j < L → (e j).length = edgeWidth B.length j := fun j hj => hw j (by omega)
    have hsomeL := edgeF_isSome node empty B e L hw'
    -- the claimed and the authentic item lists have the same length
    have hlenAcc : (edgeF node empty e L).toList.length = (optMth node empty (Rr B L)).toList.length := by
      have h1 := hsomeL
      have h2 := (optMth_isSome node empty (Rr B L)).trans (Rr_ne_nil B L)
      cases hF1 : edgeF node empty e L <;> cases hF2 : optMth node empty (Rr B L) <;> simp_all
    have hkey : e L = tileOf node empty B L (B.length / 256 ^ L / 256) (edgeWidth B.length L) ∧
        edgeF node empty e L = optMth node empty (Rr B L) := by
      simp only [edgeF, edgeStep] at hF
      by_cases hR : Rr B (L + 1) = []
      · -- nothing beyond the last full block: all widths are zero
        have h0 : B.length % 256 ^ (L + 1) = 0 := by
          apply Classical.byContradiction; intro h; exact (Rr_ne_nil B (L + 1)).2 h hR
        have hmod : B.length % 256 ^ (L + 1) = B.length % 256 ^ L + 256 ^ L * (B.length / 256 ^ L % 256) := by
          rw [Nat.pow_succ, Nat.mod_mul]
        have hs := pow256_pos L
        have hA : B.length % 256 ^ L = 0 := by omega
        have hB : 256 ^ L * (B.length / 256 ^ L % 256) = 0 := by omega
        have hW : edgeWidth B.length L = 0 := by
          unfold edgeWidth
          rcases Nat.mul_eq_zero.1 hB with h | h
          · omega
          · exact h
        have he : e L = [] := List.length_eq_zero_iff.1 (by rw [hwL, hW])
        have ht : tileOf node empty B L (B.length / 256 ^ L / 256) (edgeWidth B.length L) = [] :=
          List.length_eq_zero_iff.1 (by rw [tileOf_length node empty B (edge_bound B L), hW])
        have hRL : Rr B L = [] := by
          apply Classical.byContradiction; intro h; exact (Rr_ne_nil B L).1 h hA
        refine ⟨by rw [he, ht], ?_⟩
        cases hF1 : edgeF node empty e L with
        | none => unfold optMth; simp [hRL]
        | some v =>
          have := hsomeL.1 (by rw [hF1]; rfl)
          exact absurd hA this
      · -- the recombined hash is the hash of the leaves beyond the last full block
        have hopt : optMth node empty (Rr B (L + 1)) = some (mth node empty (Rr B (L + 1))) := by
          unfold optMth; simp [hR]
        rw [hopt] at hF
        by_cases hnil : e L ++ (edgeF node empty e L).toList = []
        · simp [hnil] at hF
        · simp only [hnil, if_false, Option.some.injEq] at hF
          have hA := mth_items node empty (8 * L) _ (Rr B (L + 1)) rfl
          rw [← pow256] at hA
          rw [← hA, items_Rr] at hF
          have hl : (e L ++ (edgeF node empty e L).toList).length =
              (tileOf node empty B L (B.length / 256 ^ L / 256) (edgeWidth B.length L) ++
                (optMth node empty (Rr B L)).toList).length := by
            rw [List.length_append, List.length_append, hwL, tileOf_length node empty B (edge_bound B L), hlenAcc]
          have heq := mth_inj node empty inj _ _ hl hF
          have h1 := List.append_inj heq (by rw [hwL, tileOf_length node empty B (edge_bound B L)])
          refine ⟨h1.1, ?_⟩
          have h2 := h1.2
          cases hF1 : edgeF node empty e L <;> cases hF2 : optMth node empty (Rr B L) <;> simp_all
    intro j hj
    by_cases hjl : j = L
    · subst hjl; exact hkey.1
    · exact ih hw' hkey.2 j (by omega)

/-- the whole tree: when `256^L` exceeds the size, the leaves beyond the last full level-`L` block are all of them -/
theorem Rr_top (B : List H) {L : Nat} (h : B.length < 256 ^ L) : Rr B L = B := by
  unfold Rr remainder
  rw [Nat.div_eq_of_lt h]; simp

/-- **Right edge against the root.** Edge tiles of the prescribed widths that recombine to the root of a non-empty
    tree are the authentic edge tiles. -/
theorem edge_sound (inj : NodeInj node) (B : List H) (e : Nat → List H) (T : Nat)
    (hn : B ≠ []) (hT : B.length < 256 ^ T)
    (hw : ∀ j, j < T → (e j).length = edgeWidth B.length j)
    (hroot : edgeF node empty e T = some (mth node empty B)) :
    ∀ j, j < T → e j = tileOf node empty B j (B.length / 256 ^ j / 256) (edgeWidth B.length j) := by
  apply edgeF_sound node empty inj B e T hw
  rw [hroot, Rr_top B hT]
  unfold optMth; simp [hn]

end TileAuth

namespace TileAuth
open Merkle
variable {H : Type} (node : H → H → H) (empty : H)

/-! ### what a successful `ReadHashes` has established -/

/-- The tiles `tlog.TileHashReader.ReadHashes` returns hashes from: a right-edge tile (authenticated by the
    recombination to the root), or a full tile that hashes to its entry in a tile established before it
    ("authenticate full tiles against their parents", walking up until a tile already requested). -/
inductive Verified (n : Nat) (e : Nat → List H) : Nat → Nat → List H → Prop
  | edge (L : Nat) : Verified n e L (n / 256 ^ L / 256) (e L)
  | child (L N : Nat) (es pes : List H) : Verified n e (L + 1) (N / 256) pes → es.length = 256 →
      pes[N % 256]? = some (tileHash node empty es) → Verified n e L N es

/-- **Soundness of tile authentication** (`tlog.TileHashReader`), for every tree size and tile level: if the edge
    tiles have the prescribed widths and recombine to the root of `B`, every verified tile is the authentic tile —
    the hashes of its blocks of `256^L` leaves of `B` — and lies inside the tree. -/
theorem verified_sound (inj : NodeInj node) (B : List H) (e : Nat → List H) (T : Nat)
    (hn : B ≠ []) (hT : B.length < 256 ^ T)
    (hw : ∀ j, (e j).length = edgeWidth B.length j)
    (hroot : edgeF node empty e T = some (mth node empty B))
    {L N : Nat} {es : List H} (hv : Verified node empty B.length e L N es) :
    es = tileOf node empty B L N es.length ∧ (N * 256 + es.length) * 256 ^ L ≤ B.length := by
  induction hv with
  | edge L =>
    by_cases hL : L < T
    · have := edge_sound node empty inj B e T hn hT (fun j _ => hw j) hroot L hL
      rw [hw L]
      exact ⟨this, edge_bound B L⟩
    · -- above the top level the edge tile is empty
      have hpow : 256 ^ T ≤ 256 ^ L := Nat.pow_le_pow_right (by decide) (by omega)
      have hW : edgeWidth B.length L = 0 := by
        unfold edgeWidth
        rw [Nat.div_eq_of_lt (by omega)]
      have he : e L = [] := List.length_eq_zero_iff.1 (by rw [hw L, hW])
      rw [he]
      refine ⟨?_, ?_⟩
      · symm; apply List.length_eq_zero_iff.1
        simp only [List.length_nil]
        unfold tileOf
        rw [level_length node empty (pow256_pos L) 0 _ (by unfold win rng; simp)]
      · simp only [List.length_nil, Nat.add_zero]
        rw [Nat.div_eq_of_lt (by omega : B.length < 256 ^ L)]
        simp
  | child L N es pes _ hl hp ih =>
    obtain ⟨hpes, hbound⟩ := ih
    -- the parent entry exists, so N % 256 is inside the parent's width
    have hidx : N % 256 < pes.length := by
      apply Classical.byContradiction
      intro h
      rw [List.getElem?_eq_none (by omega)] at hp
      cases hp
    rw [hpes, tileOf_entry node empty B hbound hidx] at hp
    have hN : N / 256 * 256 + N % 256 = N := by
      have := Nat.div_add_mod N 256
      rw [Nat.mul_comm] at this; exact this
    rw [hN] at hp
    injection hp with hp
    have hb : (N * 256 + 256) * 256 ^ L ≤ B.length := by
      have e1 : 256 ^ (L + 1) = 256 * 256 ^ L := by rw [Nat.pow_succ, Nat.mul_comm]
      have h1 : (N + 1) * 256 ^ (L + 1) ≤ (N / 256 * 256 + pes.length) * 256 ^ (L + 1) := by
        apply Nat.mul_le_mul_right; omega
      have h2 : (N * 256 + 256) * 256 ^ L = (N + 1) * 256 ^ (L + 1) := by
        rw [e1]
        generalize 256 ^ L = s
        have a1 : (N * 256 + 256) * s = N * 256 * s + 256 * s := Nat.add_mul _ _ _
        have a2 : (N + 1) * (256 * s) = N * (256 * s) + 256 * s := by rw [Nat.add_mul, Nat.one_mul]
        have a3 : N * (256 * s) = N * 256 * s := (Nat.mul_assoc _ _ _).symm
        rw [a1, a2, a3]
      rw [h2]
      exact Nat.le_trans h1 hbound
    rw [hl]
    exact ⟨child_sound node empty inj B es hb hl hp.symm, hb⟩

/-- … in particular every hash of a verified level-0 tile is the record hash of the leaf at that position: the
    contract of `TileHashReader` that the client (C12) and `LoadLog` (C08) build on. -/
theorem verified_leaf_hashes (inj : NodeInj node) (B : List H) (e : Nat → List H) (T : Nat)
    (hn : B ≠ []) (hT : B.length < 256 ^ T)
    (hw : ∀ j, (e j).length = edgeWidth B.length j)
    (hroot : edgeF node empty e T = some (mth node empty B))
    {N : Nat} {es : List H} (hv : Verified node empty B.length e 0 N es) :
    ∀ k h, es[k]? = some h → B[N * 256 + k]? = some h := by
  obtain ⟨h1, h2⟩ := verified_sound node empty inj B e T hn hT hw hroot hv
  rw [tileOf_zero] at h1
  intro k h hk
  have hkl : k < es.length := by
    apply Classical.byContradiction
    intro hh
    rw [List.getElem?_eq_none (by omega)] at hk; cases hk
  rw [h1] at hk
  unfold rng at hk
  rw [List.getElem?_take_of_lt (by omega), List.getElem?_drop] at hk
  exact hk

end TileAuth

namespace TileAuth
open Merkle
variable {H : Type} (node : H → H → H) (empty : H)

/-! ### completeness: the authentic tiles pass every check (non-vacuity, for all sizes) -/

theorem items_ne_nil {s : Nat} {X : List H} (h : X ≠ []) : items node empty s X ≠ [] := by
  by_cases hc : s = 0 ∨ X.length ≤ s
  · rw [items_small node empty hc]; simp [h]
  · have h0 : 0 < s := by omega
    rw [items_big node empty h0 (by omega)]; simp

/-- the authentic edge tiles recombine, level by level, to the hash of the leaves beyond the last full block -/
theorem edgeF_complete (B : List H) :
    ∀ L, edgeF node empty (fun j => tileOf node empty B j (B.length / 256 ^ j / 256) (edgeWidth B.length j)) L =
      optMth node empty (Rr B L) := by
  intro L
  induction L with
  | zero => simp [edgeF, optMth, Rr_zero]
  | succ L ih =>
    simp only [edgeF, edgeStep, ih]
    rw [← items_Rr]
    have hA := mth_items node empty (8 * L) _ (Rr B (L + 1)) rfl
    rw [← pow256] at hA
    by_cases hR : Rr B (L + 1) = []
    · rw [hR, items_nil]; simp [optMth]
    · have := items_ne_nil node empty (s := 256 ^ L) hR
      simp [this, hA, optMth, hR]

/-- … hence to the root: the hypotheses of `verified_sound` are satisfiable for every non-empty tree -/
theorem edge_complete (B : List H) (T : Nat) (hn : B ≠ []) (hT : B.length < 256 ^ T) :
    edgeF node empty (fun j => tileOf node empty B j (B.length / 256 ^ j / 256) (edgeWidth B.length j)) T =
      some (mth node empty B) := by
  rw [edgeF_complete, Rr_top B hT]; simp [optMth, hn]

/-- an authentic full tile hashes to its entry in the authentic parent tile -/
theorem child_complete (B : List H) {L N W : Nat} (hb : (N / 256 * 256 + W) * 256 ^ (L + 1) ≤ B.length) (hN : N % 256 < W) :
    (tileOf node empty B (L + 1) (N / 256) W)[N % 256]? = some (tileHash node empty (tileOf node empty B L N 256)) := by
  rw [tileOf_entry node empty B hb hN]
  have hN' : N / 256 * 256 + N % 256 = N := by
    have := Nat.div_add_mod N 256
    rw [Nat.mul_comm] at this; exact this
  rw [hN']
  congr 1
  unfold tileHash tileOf
  have hb2 : (N * 256 + 256) * 256 ^ L ≤ B.length := by
    have e1 : 256 ^ (L + 1) = 256 * 256 ^ L := by rw [Nat.pow_succ, Nat.mul_comm]
    have h1 : (N + 1) * 256 ^ (L + 1) ≤ (N / 256 * 256 + W) * 256 ^ (L + 1) := by
      apply Nat.mul_le_mul_right; omega
    have h2 : (N * 256 + 256) * 256 ^ L = (N + 1) * 256 ^ (L + 1) := by
      rw [e1]
      generalize 256 ^ L = s
      have a1 : (N * 256 + 256) * s = N * 256 * s + 256 * s := Nat.add_mul _ _ _
      have a2 : (N + 1) * (256 * s) = N * (256 * s) + 256 * s := by rw [Nat.add_mul, Nat.one_mul]
      have a3 : N * (256 * s) = N * 256 * s := (Nat.mul_assoc _ _ _).symm
      rw [a1, a2, a3]
    rw [h2]
    exact Nat.le_trans h1 hb
  rw [level_exact node empty (pow256_pos L) 256 _ (win_length B hb2)]
  have hA := mth_items node empty (8 * L) _ (win B L N 256) rfl
  rw [← pow256] at hA
  exact hA.symm

end TileAuth

namespace TileAuth
open Merkle
variable {H : Type} (node : H → H → H) (empty : H)

/-! ### the executable reader establishes `Verified` -/

theorem edgeFx_eq (e : Nat → List H) (L : Nat) : edgeFx node empty e L = edgeF node empty e L := by
  induction L with
  | zero => rfl
  | succ L ih => simp only [edgeFx, edgeF, ih]

theorem findTile_length {tiles : List (TileData H)} {L N W : Nat} {es : List H}
    (h : findTile tiles L N W = some es) : es.length = W := by
  unfold findTile at h
  cases hf : tiles.find? (fun t => t.L == L && t.N == N && t.es.length == W) with
  | none => rw [hf] at h; cases h
  | some t =>
    rw [hf] at h
    simp only [Option.map_some, Option.some.injEq] at h
    subst h
    have := List.find?_some hf
    simp only [Bool.and_eq_true, beq_iff_eq] at this
    exact this.2

theorem edgeAt_length {n : Nat} {tiles : List (TileData H)} {L : Nat} {es : List H}
    (h : edgeAt n tiles L = some es) : es.length = edgeWidth n L := by
  unfold edgeAt at h
  split at h
  · rename_i h0; injection h with h; subst h; simp [h0]
  · exact findTile_length h

theorem chainUp_verified [DecidableEq H] (n : Nat) (tiles : List (TileData H)) :
    ∀ (fuel L N : Nat) (es : List H), (∀ j, (edgeAt n tiles j).isSome) →
      chainUp node empty fuel n tiles L N = some es → Verified node empty n (edgesFn n tiles) L N es := by
  intro fuel
  induction fuel with
  | zero => intro L N es _ h; simp [chainUp] at h
  | succ fuel ih =>
    intro L N es hall h
    simp only [chainUp] at h
    split at h
    · rename_i hN
      subst hN
      have : edgesFn n tiles L = es := by unfold edgesFn; rw [h]; rfl
      rw [← this]
      exact Verified.edge L
    · split at h
      · rename_i es' pes hf hc
        split at h
        · rename_i hp
          injection h with h; subst h
          exact Verified.child L N es' pes (ih (L + 1) (N / 256) pes hall hc) (findTile_length hf) hp
        · cases h
      · cases h

theorem numLevels_le (n : Nat) : numLevels n ≤ 9 := by
  unfold numLevels
  cases h : (List.range 9).find? (fun T => decide (n < 256 ^ T)) with
  | none => simp
  | some T =>
    simp only [Option.getD_some]
    have := List.mem_of_find?_eq_some h
    simp at this; omega

/-- **The executable reader is sound**: whatever tiles were served, a hash it returns for leaf `i` of a tree head
    `(n, root)` is the record hash of leaf `i` of every leaf list that tree head commits to. -/
theorem readLeafHash_sound [DecidableEq H] (inj : NodeInj node) (B : List H) (tiles : List (TileData H)) (i : Nat) (h : H)
    (hr : readLeafHash node empty B.length (mth node empty B) tiles i = some h) : B[i]? = some h := by
  unfold readLeafHash at hr
  simp only at hr
  split at hr
  · cases hr
  · rename_i hg
    simp only [not_or, Decidable.not_not] at hg
    obtain ⟨hn0, hi, hT⟩ := hg
    split at hr
    · cases hr
    · rename_i hall
      split at hr
      · cases hr
      · rename_i hroot
        simp only [ne_eq, Decidable.not_not] at hroot
        have hne : B ≠ [] := by intro hb; subst hb; simp at hn0
        -- every level has its edge tile (levels at and above the top prescribe none)
        have hallj : ∀ j, (edgeAt B.length tiles j).isSome := by
          intro j
          by_cases hj : j < numLevels B.length
          · have h1 : ((List.range (numLevels B.length)).all fun L => (edgeAt B.length tiles L).isSome) = true := by
              cases hb : ((List.range (numLevels B.length)).all fun L => (edgeAt B.length tiles L).isSome) with
              | true => rfl
              | false => rw [hb] at hall; simp at hall
            exact List.all_eq_true.1 h1 j (List.mem_range.2 hj)
          · have hpow : 256 ^ numLevels B.length ≤ 256 ^ j := Nat.pow_le_pow_right (by decide) (by omega)
            have hW : edgeWidth B.length j = 0 := by
              unfold edgeWidth; rw [Nat.div_eq_of_lt (by omega)]
            unfold edgeAt; simp [hW]
        have hw : ∀ j, (edgesFn B.length tiles j).length = edgeWidth B.length j := by
          intro j
          have := hallj j
          cases he : edgeAt B.length tiles j with
          | none => rw [he] at this; cases this
          | some es => unfold edgesFn; rw [he]; exact edgeAt_length he
        rw [edgeFx_eq] at hroot
        cases hc : chainUp node empty (numLevels B.length + 1) B.length tiles 0 (i / 256) with
        | none => rw [hc] at hr; cases hr
        | some es =>
          rw [hc] at hr
          have hv := chainUp_verified node empty B.length tiles _ 0 (i / 256) es hallj hc
          have := verified_leaf_hashes node empty inj B (edgesFn B.length tiles) (numLevels B.length) hne hT hw hroot hv
            (i % 256) h hr
          have hidx : i / 256 * 256 + i % 256 = i := by
            have := Nat.div_add_mod i 256
            rw [Nat.mul_comm] at this; exact this
          rw [hidx] at this
          exact this

end TileAuth

namespace TileAuth
open Merkle
variable {H : Type} (node : H → H → H) (empty : H)

/-! ### the pinned reader versus the sound one (finding F10) -/

theorem chainUpChk_all [DecidableEq H] (chk : Nat → Bool) (hall : ∀ L, chk L = true) :
    ∀ (fuel n : Nat) (tiles : List (TileData H)) (L N : Nat),
      chainUpChk node empty chk fuel n tiles L N = chainUp node empty fuel n tiles L N := by
  intro fuel
  induction fuel with
  | zero => intros; rfl
  | succ fuel ih =>
    intro n tiles L N
    simp only [chainUpChk, chainUp, ih, hall]
    rfl

/-- with every comparison performed, the parametrised reader IS the sound reader -/
theorem readLeafHashWith_all [DecidableEq H] (chk : Nat → Bool) (hall : ∀ L, chk L = true)
    (n : Nat) (root : H) (tiles : List (TileData H)) (i : Nat) :
    readLeafHashWith node empty chk n root tiles i = readLeafHash node empty n root tiles i := by
  unfold readLeafHashWith readLeafHash
  simp only [chainUpChk_all node empty chk hall]

/-- whenever the tree has no more peaks than non-empty edge tiles (no two peaks share a tile), the pinned reader skips
    nothing and is sound -/
theorem readLeafHashTlog_sound_of_no_skip [DecidableEq H] (inj : NodeInj node) (B : List H) (tiles : List (TileData H))
    (i : Nat) (h : H) (hs : tlogSkipped B.length = 0)
    (hr : readLeafHashTlog node empty B.length (mth node empty B) tiles i = some h) : B[i]? = some h := by
  unfold readLeafHashTlog at hr
  rw [readLeafHashWith_all node empty _ (by intro L; simp [hs])] at hr
  exact readLeafHash_sound node empty inj B tiles i h hr

/-- e.g. 257 = 256 + 1: two peaks, two edge tiles, nothing skipped; 259 = 256 + 2 + 1: three peaks, two edge tiles,
    the level-0 tile of a one-tile chain is not compared with its parent -/
example : tlogSkipped 257 = 0 ∧ tlogSkipped 259 = 1 ∧ tlogSkipped 300 = 2 ∧ chainLen 9 300 0 0 = 1 := by decide

end TileAuth
