import Proofs.SeqRecover2
/-! Concrete runs for the recovery theorems: a crash right after the compare-and-swap of a round
(non-vacuity witness of `recover_run_partial`), and the counterexample to the unconditional
statement — a publication regression followed by a discard leaves a state from which no load
succeeds. Both are evaluated by the kernel. -/
namespace Seq

/-- instances that do not act in a run keep their state -/
theorem run_insts_other {s s' : Sys} {es : List Ev} (h : run s es = some s') (j : Nat)
    (hj : ∀ e ∈ es, e.inst ≠ some j) : s'.insts j = s.insts j := by
  induction es generalizing s with
  | nil => simp [run] at h; subst h; rfl
  | cons e es ih =>
    simp only [run] at h
    split at h
    · rename_i s1 hs1
      rw [ih h (fun e' he' => hj e' (List.mem_cons_of_mem _ he')),
        step_insts_other s s1 e hs1 j (hj e List.mem_cons_self)]
    · cases h

/-- every event of `es` belongs to an instance below `n` -/
def instsBelow (n : Nat) (es : List Ev) : Bool := es.all fun e => match e.inst with | some i => i < n | none => false

theorem instsBelow_other {n : Nat} {es : List Ev} (h : instsBelow n es = true) {j : Nat} (hj : n ≤ j) :
    ∀ e ∈ es, e.inst ≠ some j := by
  intro e he heq
  have := List.all_eq_true.1 h e he
  rw [heq] at this
  simp at this
  omega

end Seq

namespace Seq.RecDemo
open Seq

def l7 : Leaf := ⟨7, 7, 105⟩
def l8 : Leaf := ⟨8, 8, 110⟩
def c0 : Ck := ⟨[], 100⟩
def c1 : Ck := ⟨[l7], 105⟩
def c2 : Ck := ⟨[l7, l8], 110⟩
def b1 : List (TileId × Tree) := [(⟨.data,0,1⟩, c1.leaves), (⟨.names,0,1⟩, c1.leaves), (⟨.hash 0,0,1⟩, c1.leaves)]
def b2 : List (TileId × Tree) := [(⟨.data,0,2⟩, c2.leaves), (⟨.names,0,2⟩, c2.leaves), (⟨.hash 0,0,2⟩, c2.leaves)]

/-- create, load, one submission, a round up to and including its compare-and-swap and one of its three
    tile uploads, then the process dies -/
def crashAfterCas : List Ev := [
  .launchCreate 0, .lockFetch 0 .nf, .fetch 0 .ckpt .nf, .clock 0 100, .lockCreate 0 c0 .ok,
  .upload 0 .ckpt false (.ck c0) .ok, .upload 0 .roots false (.blob 0) .ok, .created 0,
  .launchLoad 0, .lockFetch 0 (.ok c0), .clock 0 101, .fetch 0 .ckpt (.ok (.ck c0)), .clock 0 101,
  .loaded 0 c0,
  .launchSubmit 0, .submitted 0 7 7 false [] .sequencer,
  .launchRound 0, .clock 0 105,
  .upload 0 (.staging c1.leaves) true (.bundle b1) .ok,
  .lockReplace 0 c0 c1 .ok,
  .upload 0 (.tile ⟨.data,0,1⟩) true (.slice c1.leaves) .ok,
  .crash 0]

theorem crashAfterCas_runs : ∃ s, run (init 0) crashAfterCas = some s ∧ s.tampered = false ∧ s.lock = some c1 ∧
    s.pubHist = [c0] ∧ s.store .ckpt = some (.ck c0, false) ∧
    s.store (.staging c1.leaves) = some (.bundle b1, true) ∧
    (s.insts 0).phase = .down ∧ (s.insts 0).cfgBad = false ∧ s.store (.tile ⟨.names, 0, 1⟩) = none :=
  ⟨_, rfl, rfl, rfl, rfl, rfl, rfl, rfl, rfl, rfl⟩

/-- the recovery script evaluated on that state: accepted, ends idle on the lock checkpoint -/
theorem crashAfterCas_recovers :
    (match run (init 0) crashAfterCas with
     | some s => (match run s (recoverEvs s 0 c1 120 [⟨.data, 0, 1⟩, ⟨.hash 0, 0, 1⟩]) with
        | some s' => (match (s'.insts 0).phase with | .idle => true | _ => false) && (s'.insts 0).tree == c1
        | none => false)
     | none => false) = true := by decide

/-- only instance 0 acts in that run -/
theorem crashAfterCas_inst : ∀ e ∈ crashAfterCas, e.inst = some 0 := by
  have h : crashAfterCas.all (fun e => e.inst == some 0) = true := by decide
  intro e he
  have := List.all_eq_true.1 h e he
  simpa using this

end Seq.RecDemo

namespace Seq.Cex
open Seq Seq.RecDemo

/-- Publication regression followed by a discard. Instance 0 stalls after the tile uploads of its round
    to `c1`; instance 1 is started, recovers `c1` from the staged bundle, sequences `c2`, publishes it
    and discards its bundle; then instance 0's delayed checkpoint upload lands (`c1` over `c2`), it
    discards its own bundle and finishes; both processes stop. -/
def cex : List Ev := [
  .launchCreate 0, .lockFetch 0 .nf, .fetch 0 .ckpt .nf, .clock 0 100, .lockCreate 0 c0 .ok,
  .upload 0 .ckpt false (.ck c0) .ok, .upload 0 .roots false (.blob 0) .ok, .created 0,
  .launchLoad 0, .lockFetch 0 (.ok c0), .clock 0 101, .fetch 0 .ckpt (.ok (.ck c0)), .clock 0 101,
  .loaded 0 c0,
  .launchSubmit 0, .submitted 0 7 7 false [] .sequencer,
  .launchRound 0, .clock 0 105,
  .upload 0 (.staging c1.leaves) true (.bundle b1) .ok,
  .lockReplace 0 c0 c1 .ok,
  .upload 0 (.tile ⟨.data,0,1⟩) true (.slice c1.leaves) .ok,
  .upload 0 (.tile ⟨.names,0,1⟩) true (.slice c1.leaves) .ok,
  .upload 0 (.tile ⟨.hash 0,0,1⟩) true (.slice c1.leaves) .ok,
  -- instance 0 is slow from here on; instance 1 starts
  .launchLoad 1, .lockFetch 1 (.ok c1), .clock 1 106, .fetch 1 .ckpt (.ok (.ck c0)), .clock 1 106,
  .fetch 1 (.legacyStaging c1.leaves) .nf, .fetch 1 (.staging c1.leaves) (.ok (.bundle b1)),
  .upload 1 (.tile ⟨.data,0,1⟩) true (.slice c1.leaves) .ok,
  .upload 1 (.tile ⟨.names,0,1⟩) true (.slice c1.leaves) .ok,
  .upload 1 (.tile ⟨.hash 0,0,1⟩) true (.slice c1.leaves) .ok,
  .loaded 1 c1,
  .launchSubmit 1, .submitted 1 8 8 false [] .sequencer,
  .launchRound 1, .clock 1 110,
  .upload 1 (.staging c2.leaves) true (.bundle b2) .ok,
  .lockReplace 1 c1 c2 .ok,
  .upload 1 (.tile ⟨.data,0,2⟩) true (.slice c2.leaves) .ok,
  .upload 1 (.tile ⟨.names,0,2⟩) true (.slice c2.leaves) .ok,
  .upload 1 (.tile ⟨.hash 0,0,2⟩) true (.slice c2.leaves) .ok,
  .upload 1 .ckpt false (.ck c2) .ok,
  .discard 1 (.staging c2.leaves) .ok,
  .roundEnd 1 .ok,
  -- instance 0's delayed checkpoint upload lands
  .upload 0 .ckpt false (.ck c1) .ok,
  .discard 0 (.staging c1.leaves) .ok,
  .roundEnd 0 .ok,
  .crash 0, .crash 1]

/-- a fault-free load attempt on the resulting state, up to the staging fetch -/
def loadAttempt (i : Nat) : List Ev :=
  [.launchLoad i, .lockFetch i (.ok c2), .clock i 120, .fetch i .ckpt (.ok (.ck c1)), .clock i 120,
   .fetch i (.legacyStaging c2.leaves) .nf]

theorem cex_runs : ∃ s, run (init 0) cex = some s ∧ s.tampered = false ∧ s.lock = some c2 ∧
    s.lockHist = [c2, c1, c0] ∧ s.pubHist = [c1, c2, c0] ∧
    s.store .ckpt = some (.ck c1, false) ∧ s.store (.staging c2.leaves) = none ∧
    (s.insts 0).phase = .down ∧ (s.insts 1).phase = .down ∧ (s.insts 0).cfgBad = false ∧ (s.insts 1).cfgBad = false :=
  ⟨_, rfl, rfl, rfl, rfl, rfl, rfl, rfl, rfl, rfl, rfl, rfl⟩

theorem cex_all_down {s : Sys} (h : run (init 0) cex = some s) : ∀ j, (s.insts j).phase = .down ∧ (s.insts j).cfgBad = false := by
  obtain ⟨s0, h0, _, _, _, _, _, _, d0, d1, g0, g1⟩ := cex_runs
  rw [h0] at h; injection h with h; subst h
  intro j
  by_cases hj : 2 ≤ j
  · rw [run_insts_other h0 j (instsBelow_other (n := 2) (by decide) hj)]
    exact ⟨rfl, rfl⟩
  · have : j = 0 ∨ j = 1 := by omega
    rcases this with rfl | rfl
    · exact ⟨d0, g0⟩
    · exact ⟨d1, g1⟩

/-- in the staging-fetch state of a load, with the lock tree's bundle gone, every accepted event of the
    loading instance other than a crash or a reconfiguration is a fetch that ends the load in failure -/
theorem stagingFetch_fails {s s' : Sys} {i : Nat} {c : Ck} (hph : (s.insts i).phase = .loading (.stagingFetch c))
    (hst : s.store (.staging c.leaves) = none) (k : Key) (r : FRes Obj)
    (h : step s (.fetch i k r) = some s') :
    k = .staging c.leaves ∧ (s'.insts i).phase = .loading .failing := by
  simp only [step, hph] at h
  repeat' split at h
  all_goals (first | cases h | skip)
  all_goals (try (injection h with h; subst h))
  all_goals simp_all [Sys.setInst, upd, isUp]

/-- on the counterexample state every instance's fault-free load is accepted up to the staging fetch,
    where the only consistent fetch results end the load in failure -/
theorem cex_load_fails {s : Sys} (h : run (init 0) cex = some s) (i : Nat) :
    ∃ sL, run s (loadAttempt i) = some sL ∧ (sL.insts i).phase = .loading (.stagingFetch c2) ∧
      ∀ k r s', step sL (.fetch i k r) = some s' → k = .staging c2.leaves ∧ (s'.insts i).phase = .loading .failing := by
  obtain ⟨hd, hg⟩ := cex_all_down h i
  obtain ⟨s0, h0, ht0, hl, _, _, hck, hstg, _⟩ := cex_runs
  rw [h0] at h; injection h with h; subst h
  have hleg := (inv4_reachable ⟨0, cex, h0⟩ ht0).legacy c2.leaves
  obtain ⟨s4, hrun4, fr4, hph4, _⟩ := prefix_run (v := 120) (c1 := c1) hl hd hg (by decide) hck
  have hs5 := load_clock2_lt (v := 120) hph4 (by decide) (by decide) (by decide)
  have fr5 := fr4.trans (fr_setPhase s4 i (.loading (.legacy c2)))
  have hs6 := load_legacy (setPhase_phase s4 i (.loading (.legacy c2)))
    ((fr5.keys (.legacyStaging c2.leaves) (by simp)).trans hleg)
  have fr6 := fr5.trans (fr_setPhase _ i (.loading (.stagingFetch c2)))
  refine ⟨_, run_append_some (b := [.clock i 120, .fetch i (.legacyStaging c2.leaves) .nf]) hrun4
    (run_cons_some hs5 (run_single hs6)), setPhase_phase _ _ _, ?_⟩
  intro k r s' hstep
  exact stagingFetch_fails (setPhase_phase _ _ _) ((fr6.keys (.staging c2.leaves) (by simp)).trans hstg) k r hstep

end Seq.Cex
