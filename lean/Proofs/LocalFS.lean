import Model.LocalFS
/-! # Lemmas about the local filesystem model (C13). Core Lean only. -/
set_option linter.unusedSimpArgs false
namespace LocalFS

/-! ## compareFile -/
theorem prefixDiffers_eq : ∀ (n : Nat) (a b : Bytes), prefixDiffers n a b = (a.take n != b.take n)
  | 0, _, _ => by simp [prefixDiffers]
  | _ + 1, [], [] => by simp [prefixDiffers]
  | n + 1, x :: a, y :: b => by
    simp only [prefixDiffers, List.take_succ_cons, prefixDiffers_eq n a b]
    by_cases h : x = y <;> simp [h, bne]
  | _ + 1, [], _ :: _ => by simp [prefixDiffers, bne]
  | _ + 1, _ :: _, [] => by simp [prefixDiffers, bne]

theorem minLen_eq : ∀ (c : Nat) (l : Bytes), minLen c l = Nat.min c l.length
  | 0, _ => by simp [minLen]
  | _ + 1, [] => by simp [minLen]
  | c + 1, _ :: l => by
    simp only [minLen, minLen_eq c l, List.length_cons]
    exact (Nat.succ_min_succ c l.length).symm

theorem compareLoop_zero_cap (fuel : Nat) (file data : Bytes) :
    compareLoop 0 fuel file data = ([], none) := by
  induction fuel with
  | zero => rfl
  | succ n ih => simp [compareLoop, ih]

theorem compareLoop_sound (cap : Nat) : ∀ (fuel : Nat) (file data : Bytes) (rd : List (Nat × Nat)),
    compareLoop cap fuel file data = (rd, some true) → file = data := by
  intro fuel
  induction fuel with
  | zero => intro file data rd h; simp [compareLoop] at h
  | succ n ih =>
    intro file data rd h
    by_cases hc : cap = 0
    · subst hc; simp [compareLoop_zero_cap] at h
    · cases file with
      | nil =>
        simp [compareLoop, hc] at h
        exact h.2.symm
      | cons a l =>
        simp only [compareLoop, hc, if_false, List.isEmpty_cons, Bool.false_eq_true, prefixDiffers_eq, minLen_eq] at h
        split at h
        · simp at h
        · rename_i hcond
          simp only [gt_iff_lt, Bool.or_eq_true, decide_eq_true_eq, bne_iff_ne, ne_eq, not_or, Nat.not_lt, Decidable.not_not] at hcond
          obtain ⟨_, htake⟩ := hcond
          have h2 := (Prod.mk.inj h).2
          have := ih _ _ _ (Prod.ext rfl h2 : compareLoop cap n _ _ = (_, some true))
          rw [← List.take_append_drop (Nat.min cap (a :: l).length) (a :: l), ← List.take_append_drop (Nat.min cap (a :: l).length) data, htake, this]

/-- With a non-empty buffer and enough fuel the loop decides equality. -/
theorem compareLoop_complete (cap : Nat) (hc : 0 < cap) : ∀ (fuel : Nat) (file data : Bytes),
    file.length + 1 < fuel + 1 → (compareLoop cap fuel file data).2 = some (decide (file = data)) := by
  intro fuel
  induction fuel with
  | zero => intro file data h; omega
  | succ n ih =>
    intro file data h
    have hc0 : cap ≠ 0 := by omega
    cases file with
    | nil =>
      cases data <;> simp [compareLoop, hc0]
    | cons a l =>
      simp only [compareLoop, hc0, if_false, List.isEmpty_cons, Bool.false_eq_true, prefixDiffers_eq, minLen_eq]
      split
      · rename_i hcond
        simp only [gt_iff_lt, Bool.or_eq_true, decide_eq_true_eq, bne_iff_ne, ne_eq] at hcond
        have : (a :: l) ≠ data := by
          intro heq
          subst heq
          rcases hcond with h1 | h1
          · exact absurd h1 (Nat.not_lt.2 (Nat.min_le_right cap (a :: l).length))
          · exact h1 rfl
        simp [this]
      · rename_i hcond
        simp only [gt_iff_lt, Bool.or_eq_true, decide_eq_true_eq, bne_iff_ne, ne_eq, not_or, Nat.not_lt, Decidable.not_not] at hcond
        obtain ⟨hle, htake⟩ := hcond
        have hpos : 0 < Nat.min cap (a :: l).length := Nat.lt_min.2 ⟨hc, by simp⟩
        have hmle : Nat.min cap (a :: l).length ≤ (a :: l).length := Nat.min_le_right _ _
        have hlen : ((a :: l).drop (Nat.min cap (a :: l).length)).length + 1 < n + 1 := by
          simp only [List.length_drop]
          generalize Nat.min cap (a :: l).length = m at hpos hmle
          omega
        rw [ih _ _ hlen]
        congr 1
        apply decide_eq_decide.2
        constructor
        · intro hd
          rw [← List.take_append_drop (Nat.min cap (a :: l).length) (a :: l), ← List.take_append_drop (Nat.min cap (a :: l).length) data, htake, hd]
        · intro hd; rw [hd]


/-- With a buffer that is never empty, `compareFile` terminates within its fuel and decides equality. -/
theorem compareFile_decides (P : Program) (hP : P.Progress) (file data : Bytes) :
    (compareFile P file data).2 = some (decide (file = data)) := by
  unfold compareFile compareFuel
  exact compareLoop_complete _ (hP _) _ _ _ (by omega)

theorem compareFile_sound (P : Program) (file data : Bytes) (rd : List (Nat × Nat))
    (h : compareFile P file data = (rd, some true)) : file = data :=
  compareLoop_sound _ _ _ _ _ h

theorem BufExpr.pos_sound : ∀ (e : BufExpr), e.pos = true → ∀ l, 0 < e.eval l
  | .lit n, h, _ => by simpa [BufExpr.pos, BufExpr.eval] using h
  | .len, h, _ => by simp [BufExpr.pos] at h
  | .min a b, h, l => by
    simp only [BufExpr.pos, Bool.and_eq_true] at h
    exact Nat.lt_min.2 ⟨pos_sound a h.1 l, pos_sound b h.2 l⟩
  | .max a b, h, l => by
    simp only [BufExpr.pos, Bool.or_eq_true] at h
    rcases h with h | h
    · exact Nat.lt_of_lt_of_le (pos_sound a h l) (Nat.le_max_left _ _)
    · exact Nat.lt_of_lt_of_le (pos_sound b h l) (Nat.le_max_right _ _)

theorem Program.progress_of_pos (P : Program) (h : P.buf.pos = true) : P.Progress :=
  fun l => BufExpr.pos_sound P.buf h l

theorem programGuarded_progress : programGuarded.Progress := Program.progress_of_pos _ (by decide)

theorem program_no_progress : ¬ program.Progress := fun h => by
  have := h 0
  simp [Program.bufLen, program, BufExpr.eval] at this


/-! ## Paths -/

@[simp] theorem parentOf_concat (a : Path) (n : Name) : parentOf (a ++ [n]) = a := by
  simp [parentOf]

@[simp] theorem baseOf_concat (a : Path) (n : Name) : baseOf (a ++ [n]) = n := by
  simp [baseOf]

theorem path_split (p : Path) (h : p ≠ []) : p = parentOf p ++ [baseOf p] := by
  rcases List.eq_nil_or_concat p with h0 | ⟨a, n, rfl⟩
  · exact absurd h0 h
  · simp

/-! ## Views and walking -/

@[simp] theorem vol_nil_pending (m : Name → Option Node) : Dir.vol { durable := m, pending := [] } = m := rfl

/-- Candidates: the values a crash (or the volatile view) can give to name `n` in directory `d`. -/
def cands (d : Dir) (n : Name) : List (Option Node) :=
  d.durable n :: (d.pending.filter (fun c => c.1 = n)).map (·.2)

theorem applyMask_mem (n : Name) : ∀ (ps : List Change) (bs : List Bool) (m : Name → Option Node),
    applyMask ps bs m n ∈ m n :: (ps.filter (fun c => c.1 = n)).map (·.2) := by
  intro ps
  induction ps with
  | nil => intro bs m; cases bs <;> simp [applyMask]
  | cons c cs ih =>
    intro bs m
    cases bs with
    | nil => simp [applyMask]
    | cons b bs =>
      simp only [applyMask]
      have := ih bs (if b then upd m c.1 c.2 else m)
      by_cases hc : c.1 = n
      · simp only [List.filter_cons, hc, decide_true, if_true, List.map_cons, List.mem_cons] at this ⊢
        rcases this with h | h
        · cases b
          · simp at h; exact Or.inl h
          · simp [upd, hc] at h; exact Or.inr (Or.inl h)
        · exact Or.inr (Or.inr h)
      · simp only [List.filter_cons, hc, decide_false, List.mem_cons] at this ⊢
        rcases this with h | h
        · cases b
          · simp at h; exact Or.inl h
          · have hn : ¬ n = c.1 := fun e => hc e.symm
            simp [upd, hn] at h; exact Or.inl h
        · exact Or.inr h

theorem vol_eq_applyMask (d : Dir) : d.vol = applyMask d.pending (List.replicate d.pending.length true) d.durable := by
  cases d with
  | mk dur pend =>
    simp only [Dir.vol]
    induction pend generalizing dur with
    | nil => rfl
    | cons c cs ih => simp [List.replicate, applyMask, ih]

theorem vol_mem_cands (d : Dir) (n : Name) : d.vol n ∈ cands d n := by
  rw [vol_eq_applyMask]; exact applyMask_mem n _ _ _

/-- The directories of a crashed state. -/
theorem crash_dirs (c : CrashChoice) (t : FS) (p : Path) :
    (crash c t).dirs p = (t.dirs p).map (crashDir (c.keep p)) := rfl

theorem crashDir_vol (mask : List Bool) (d : Dir) : (crashDir mask d).vol = applyMask d.pending mask d.durable := rfl

theorem crashDir_vol_mem (mask : List Bool) (d : Dir) (n : Name) : (crashDir mask d).vol n ∈ cands d n := by
  rw [crashDir_vol]; exact applyMask_mem n _ _ _

/-- Walking through directories all of whose entries on the way are `dir`. -/
theorem walk_through (t : FS) (v : Dir → Name → Option Node) :
    ∀ (rest : Path) (cur : Path) (base : Name),
    (∀ a n b, rest ++ [base] = a ++ n :: b → b ≠ [] → ∃ d, t.dirs (cur ++ a) = some d ∧ v d n = some .dir) →
    t.walk v cur (rest ++ [base]) = (t.dirs (cur ++ rest)).bind (fun d => v d base) := by
  intro rest
  induction rest with
  | nil =>
    intro cur base _
    simp only [List.nil_append, FS.walk, List.append_nil]
    cases h : t.dirs cur with
    | none => rfl
    | some d =>
      simp only [Option.bind_some]
      cases hv : v d base with
      | none => rfl
      | some nd => cases nd <;> simp [FS.walk]
  | cons n rest ih =>
    intro cur base H
    obtain ⟨d, hd, hv⟩ := H [] n (rest ++ [base]) (by simp) (by simp)
    simp only [List.append_nil] at hd
    simp only [List.cons_append, FS.walk, hd, hv]
    rw [ih (cur ++ [n]) base]
    · simp
    · intro a m b hab hb
      obtain ⟨d', hd', hv'⟩ := H (n :: a) m b (by simp [hab]) hb
      exact ⟨d', by simpa using hd', hv'⟩


/-- Every proper ancestor of `path` is a directory whose entry is on disk and has no pending change. -/
def Solid (t : FS) (path : Path) : Prop :=
  ∀ a n b, path = a ++ n :: b → b ≠ [] →
    ∃ d, t.dirs a = some d ∧ d.durable n = some .dir ∧ ∀ c ∈ d.pending, c.1 ≠ n

theorem cands_no_pending (d : Dir) (n : Name) (h : ∀ c ∈ d.pending, c.1 ≠ n) : cands d n = [d.durable n] := by
  simp only [cands, List.cons.injEq, true_and, List.map_eq_nil_iff, List.filter_eq_nil_iff]
  intro c hc; simpa using h c hc

theorem lookup_last (t : FS) (par : Path) (base : Name) (hS : Solid t (par ++ [base])) :
    t.lookup (par ++ [base]) = (t.dirs par).bind (fun d => d.vol base) := by
  have := walk_through t Dir.vol par [] base (by
    intro a n b hab hb
    obtain ⟨d, hd, hdur, hp⟩ := hS a n b hab hb
    refine ⟨d, by simpa using hd, ?_⟩
    have := vol_mem_cands d n
    rw [cands_no_pending d n hp] at this
    simpa [hdur] using this)
  simpa [FS.lookup] using this

theorem crash_lookup_last (c : CrashChoice) (t : FS) (par : Path) (base : Name) (hS : Solid t (par ++ [base])) :
    (crash c t).lookup (par ++ [base]) =
      (t.dirs par).bind (fun d => applyMask d.pending (c.keep par) d.durable base) := by
  have := walk_through (crash c t) Dir.vol par [] base (by
    intro a n b hab hb
    obtain ⟨d, hd, hdur, hp⟩ := hS a n b hab hb
    refine ⟨crashDir (c.keep a) d, by simp [crash_dirs, hd], ?_⟩
    have := crashDir_vol_mem (c.keep a) d n
    rw [cands_no_pending d n hp] at this
    simpa [hdur] using this)
  simp only [FS.lookup, this, List.nil_append, crash_dirs]
  cases t.dirs par <;> simp [crashDir_vol]

/-- Some level of `path` can only resolve to "no such entry", whatever reaches the disk. -/
def Blocked (t : FS) (path : Path) : Prop :=
  ∃ a n b, path = a ++ n :: b ∧ ∀ d, t.dirs a = some d → ∀ x ∈ cands d n, x = none

theorem walk_blocked_aux (t : FS) (v : Dir → Name → Option Node) (hv : ∀ d n, v d n ∈ cands d n) :
    ∀ (a cur : Path) (n : Name) (b : Path),
    (∀ d, t.dirs (cur ++ a) = some d → ∀ x ∈ cands d n, x = none) →
    t.walk v cur (a ++ n :: b) = none := by
  intro a
  induction a with
  | nil =>
    intro cur n b H
    simp only [List.nil_append, FS.walk]
    cases hd : t.dirs cur with
    | none => rfl
    | some d =>
      have := H d (by simpa using hd) _ (hv d n)
      simp [this]
  | cons m a ih =>
    intro cur n b H
    simp only [List.cons_append, FS.walk]
    cases hd : t.dirs cur with
    | none => rfl
    | some d =>
      simp only
      cases hvm : v d m with
      | none => rfl
      | some nd =>
        cases nd with
        | file i => simp
        | dir =>
          simp only
          exact ih (cur ++ [m]) n b (by simpa using H)

theorem lookup_blocked (t : FS) (path : Path) (h : Blocked t path) : t.lookup path = none := by
  obtain ⟨a, n, b, rfl, H⟩ := h
  exact walk_blocked_aux t Dir.vol vol_mem_cands a [] n b (by simpa using H)

theorem blocked_crash (c : CrashChoice) (t : FS) (path : Path) (h : Blocked t path) : Blocked (crash c t) path := by
  obtain ⟨a, n, b, rfl, H⟩ := h
  refine ⟨a, n, b, rfl, ?_⟩
  intro d' hd' x hx
  simp only [crash_dirs] at hd'
  cases hd : t.dirs a with
  | none => simp [hd] at hd'
  | some d =>
    simp only [hd, Option.map_some, Option.some.injEq] at hd'
    subst hd'
    simp only [cands, crashDir, List.filter_nil, List.map_nil, List.mem_singleton] at hx
    subst hx
    exact H d hd _ (applyMask_mem n _ _ _)

theorem crash_lookup_blocked (c : CrashChoice) (t : FS) (path : Path) (h : Blocked t path) :
    (crash c t).lookup path = none := lookup_blocked _ _ (blocked_crash c t path h)

theorem object_of_lookup_none (t : FS) (path : Path) (h : t.lookup path = none) : t.object path = none := by
  simp [FS.object, h]


/-! ## Crash safety: definitions -/

/-- After power loss in state `t`, the object at `path` is the complete old or the complete new one. -/
def OldOrNew (path : Path) (old : Option Bytes) (new : Bytes) (t : FS) : Prop :=
  ∀ c, (crash c t).object path = old ∨ (crash c t).object path = some new

/-- After power loss in state `t`, the object at `path` is the complete new one. -/
def DurablyNew (path : Path) (new : Bytes) (t : FS) : Prop :=
  ∀ c, (crash c t).object path = some new

def SafeAlong (Q : FS → Prop) (s : FS) (tr : List Sys) : Prop := ∀ k, Q (run s (tr.take k))

theorem run_append (s : FS) (a b : List Sys) : run s (a ++ b) = run (run s a) b := by
  simp [run, List.foldl_append]

@[simp] theorem run_nil (s : FS) : run s [] = s := rfl
@[simp] theorem run_cons (s : FS) (e : Sys) (tr : List Sys) : run s (e :: tr) = run (step s e) tr := rfl

theorem safeAlong_nil {Q : FS → Prop} {s : FS} (h : Q s) : SafeAlong Q s [] := by
  intro k; simpa using h

theorem safeAlong_cons {Q : FS → Prop} {s : FS} {e : Sys} {tr : List Sys}
    (h0 : Q s) (h : SafeAlong Q (step s e) tr) : SafeAlong Q s (e :: tr) := by
  intro k
  cases k with
  | zero => simpa using h0
  | succ k => simpa using h k

theorem safeAlong_append {Q : FS → Prop} {s : FS} {a b : List Sys}
    (ha : SafeAlong Q s a) (hb : SafeAlong Q (run s a) b) : SafeAlong Q s (a ++ b) := by
  intro k
  by_cases hk : k ≤ a.length
  · rw [List.take_append_of_le_length hk]; exact ha k
  · have : (a ++ b).take k = a ++ b.take (k - a.length) := by
      rw [List.take_append]; simp [List.take_of_length_le (Nat.le_of_lt (Nat.lt_of_not_le hk))]
    rw [this, run_append]; exact hb _

theorem safeAlong_final {Q : FS → Prop} {s : FS} {tr : List Sys} (h : SafeAlong Q s tr) : Q (run s tr) := by
  simpa using h tr.length

/-- System calls without effect on the model state. -/
def Sys.inert : Sys → Bool
  | .mkdir _ | .fsyncDir _ | .creat _ _ | .fchmod _ _ _ | .write _ _ _ | .fsync _ _ | .rename _ _ _ true
  | .unlink _ | .rmdir _ true | .setImmutable _ _ _ => false
  | _ => true

theorem step_inert (s : FS) (e : Sys) (h : e.inert = true) : step s e = s := by
  cases e <;> simp_all [Sys.inert, step]
  all_goals (rename_i b; cases b <;> simp_all [Sys.inert, step])

theorem run_inert (s : FS) (tr : List Sys) (h : ∀ e ∈ tr, e.inert = true) : run s tr = s := by
  induction tr generalizing s with
  | nil => rfl
  | cons e tr ih =>
    rw [run_cons, step_inert s e (h e (by simp))]
    exact ih s (fun x hx => h x (by simp [hx]))

theorem safeAlong_inert {Q : FS → Prop} {s : FS} {tr : List Sys} (h : ∀ e ∈ tr, e.inert = true) (h0 : Q s) :
    SafeAlong Q s tr := by
  intro k
  rw [run_inert s _ (fun e he => h e (List.mem_of_mem_take he))]; exact h0

/-! ## Crash of a quiescent state changes nothing observable -/

def nodeObj (t : FS) : Option Node → Option Bytes
  | some (.file j) => (t.files j).map (·.data)
  | _ => none

theorem object_eq_nodeObj (t : FS) (path : Path) : t.object path = nodeObj t (t.lookup path) := by
  unfold FS.object nodeObj
  cases t.lookup path with
  | none => rfl
  | some nd => cases nd <;> rfl

theorem crash_file_synced (c : CrashChoice) (t : FS) (j : Nat) (f : File) (hf : t.files j = some f)
    (hs : f.synced = true) : (crash c t).files j = some f := by
  simp [crash, hf, crashFile, hs]

theorem nodeObj_crash_synced (c : CrashChoice) (t : FS) (x : Option Node)
    (h : ∀ j f, x = some (.file j) → t.files j = some f → f.synced = true) :
    nodeObj (crash c t) x = nodeObj t x := by
  cases x with
  | none => rfl
  | some nd =>
    cases nd with
    | dir => rfl
    | file j =>
      simp only [nodeObj]
      cases hf : t.files j with
      | none => simp [crash, hf]
      | some f => rw [crash_file_synced c t j f hf (h j f rfl hf)]


/-! ## The write phase: `durable.WriteFile` from a settled state -/

/-- `t` differs from `t1` only in directory `par` (now `dk`) and inode `i` (now `fi`). -/
structure WState (t1 t : FS) (par : Path) (i : Nat) (dk : Dir) (fi : Option File) : Prop where
  dirs_par : t.dirs par = some dk
  dirs_other : ∀ q, q ≠ par → t.dirs q = t1.dirs q
  files_i : t.files i = fi
  files_other : ∀ j, j ≠ i → t.files j = t1.files j

theorem WState.init (t1 : FS) (par : Path) (i : Nat) (d : Dir) (hd : t1.dirs par = some d) :
    WState t1 t1 par i d (t1.files i) := ⟨hd, fun _ _ => rfl, rfl, fun _ _ => rfl⟩

theorem WState.creat {t1 t : FS} {par : Path} {i : Nat} {dk : Dir} {fi : Option File} (n : Name)
    (h : WState t1 t par i dk fi) :
    WState t1 (step t (.creat (par ++ [n]) i)) par i { dk with pending := dk.pending ++ [(n, some (.file i))] }
      (some { data := [], synced := false, mode := 0o600, immutable := false }) := by
  have hd := h.dirs_par
  refine ⟨?_, ?_, ?_, ?_⟩
  · simp [step, FS.change, FS.setDir, FS.setFile, hd]
  · intro q hq; simp [step, FS.change, FS.setDir, FS.setFile, hd, hq, h.dirs_other q hq]
  · simp [step, FS.change, FS.setDir, FS.setFile, hd]
  · intro j hj; simp [step, FS.change, FS.setDir, FS.setFile, hd, hj, h.files_other j hj]

theorem WState.modFile {t1 t : FS} {par : Path} {i : Nat} {dk : Dir} {f : File} (g : File → File)
    (h : WState t1 t par i dk (some f)) : WState t1 (t.modFile i g) par i dk (some (g f)) := by
  have hf := h.files_i
  refine ⟨?_, ?_, ?_, ?_⟩
  · simp [FS.modFile, hf, FS.setFile, h.dirs_par]
  · intro q hq; simp [FS.modFile, hf, FS.setFile, h.dirs_other q hq]
  · simp [FS.modFile, hf, FS.setFile]
  · intro j hj; simp [FS.modFile, hf, FS.setFile, hj, h.files_other j hj]

theorem WState.change {t1 t : FS} {par : Path} {i : Nat} {dk : Dir} {fi : Option File} (c : Change)
    (h : WState t1 t par i dk fi) :
    WState t1 (t.change par c) par i { dk with pending := dk.pending ++ [c] } fi := by
  have hd := h.dirs_par
  refine ⟨?_, ?_, ?_, ?_⟩
  · simp [FS.change, FS.setDir, hd]
  · intro q hq; simp [FS.change, FS.setDir, hd, hq, h.dirs_other q hq]
  · simp [FS.change, FS.setDir, hd, h.files_i]
  · intro j hj; simp [FS.change, FS.setDir, hd, h.files_other j hj]

theorem WState.fsyncDir {t1 t : FS} {par : Path} {i : Nat} {dk : Dir} {fi : Option File}
    (h : WState t1 t par i dk fi) :
    WState t1 (step t (.fsyncDir par)) par i { durable := dk.vol, pending := [] } fi := by
  have hd := h.dirs_par
  refine ⟨?_, ?_, ?_, ?_⟩
  · simp [step, FS.setDir, hd]
  · intro q hq; simp [step, FS.setDir, hd, hq, h.dirs_other q hq]
  · simp [step, FS.setDir, hd, h.files_i]
  · intro j hj; simp [step, FS.setDir, hd, h.files_other j hj]

/-- Ancestors are untouched by a write phase. -/
theorem WState.solid {t1 t : FS} {par : Path} {i : Nat} {dk : Dir} {fi : Option File} (base : Name)
    (h : WState t1 t par i dk fi) (hS : Solid t1 (par ++ [base])) : Solid t (par ++ [base]) := by
  intro a n b hab hb
  obtain ⟨d, hd, r⟩ := hS a n b hab hb
  have hne : a ≠ par := by
    intro heq
    subst heq
    have := congrArg List.length hab
    cases b with
    | nil => exact hb rfl
    | cons x xs => simp at this
  exact ⟨d, by rw [h.dirs_other a hne]; exact hd, r⟩

/-- The key lemma: in a write-phase state whose candidates for the object's name are the old entry
or the new inode (the latter only once it is synced with the new bytes), every crash yields old or new. -/
theorem WState.oldOrNew {t1 t : FS} {par : Path} {i : Nat} {dk : Dir} {fi : Option File} {d : Dir}
    (base : Name) (new : Bytes)
    (h : WState t1 t par i dk fi) (hS : Solid t1 (par ++ [base])) (hq : Quiescent t1)
    (hd : t1.dirs par = some d) (hfresh : d.durable base ≠ some (.file i))
    (hc : ∀ x ∈ cands dk base, x = d.durable base ∨ x = some (.file i))
    (hnew : some (.file i) ∈ cands dk base → ∃ f, fi = some f ∧ f.synced = true ∧ f.data = new) :
    OldOrNew (par ++ [base]) (t1.object (par ++ [base])) new t := by
  intro c
  have hSt := h.solid base hS
  rw [object_eq_nodeObj, crash_lookup_last c t par base hSt, h.dirs_par, Option.bind_some]
  have hmem := applyMask_mem base dk.pending (c.keep par) dk.durable
  rcases hc _ hmem with hx | hx
  · left
    rw [hx, object_eq_nodeObj, lookup_last t1 par base hS, hd, Option.bind_some]
    have hp : d.pending = [] := hq.1 par d hd
    have hvol : d.vol base = d.durable base := by cases d; simp_all [Dir.vol]
    rw [hvol]
    cases hdb : d.durable base with
    | none => rfl
    | some nd =>
      cases nd with
      | dir => rfl
      | file j =>
        have hji : j ≠ i := fun e => hfresh (by rw [hdb, e])
        simp only [nodeObj]
        rw [show (crash c t).files j = (t.files j).map (crashFile (c.junk j)) from rfl, h.files_other j hji]
        cases hf : t1.files j with
        | none => rfl
        | some f => simp [crashFile, hq.2 j f hf]
  · right
    rw [hx] at hmem ⊢
    obtain ⟨f, hfi, hs, hdat⟩ := hnew hmem
    simp only [nodeObj]
    rw [show (crash c t).files i = (t.files i).map (crashFile (c.junk i)) from rfl, h.files_i, hfi]
    simp [crashFile, hs, hdat]

theorem WState.durablyNew {t1 t : FS} {par : Path} {i : Nat} {dk : Dir} {f : File}
    (base : Name) (new : Bytes)
    (h : WState t1 t par i dk (some f)) (hS : Solid t1 (par ++ [base]))
    (hc : ∀ x ∈ cands dk base, x = some (.file i)) (hs : f.synced = true) (hdat : f.data = new) :
    DurablyNew (par ++ [base]) new t ∧ t.object (par ++ [base]) = some new := by
  have hSt := h.solid base hS
  constructor
  · intro c
    rw [object_eq_nodeObj, crash_lookup_last c t par base hSt, h.dirs_par, Option.bind_some,
      hc _ (applyMask_mem base dk.pending (c.keep par) dk.durable)]
    simp only [nodeObj]
    rw [show (crash c t).files i = (t.files i).map (crashFile (c.junk i)) from rfl, h.files_i]
    simp [crashFile, hs, hdat]
  · rw [object_eq_nodeObj, lookup_last t par base hSt, h.dirs_par, Option.bind_some, hc _ (vol_mem_cands dk base)]
    simp [nodeObj, h.files_i, hdat]


theorem WState.quiescent {t1 t : FS} {par : Path} {i : Nat} {dk : Dir} {f : File}
    (h : WState t1 t par i dk (some f)) (hq : Quiescent t1) (hp : dk.pending = []) (hs : f.synced = true) :
    Quiescent t := by
  constructor
  · intro p d hd
    by_cases hpp : p = par
    · subst hpp; rw [h.dirs_par] at hd; cases hd; exact hp
    · rw [h.dirs_other p hpp] at hd; exact hq.1 p d hd
  · intro j g hg
    by_cases hj : j = i
    · subst hj; rw [h.files_i] at hg; cases hg; exact hs
    · rw [h.files_other j hj] at hg; exact hq.2 j g hg

theorem tmpName_ne_base (base rnd : Name) : tmpName base rnd ≠ base := by
  intro h
  have := congrArg List.length h
  simp [tmpName, dot] at this
  omega

theorem step_rename_concat (t : FS) (par : Path) (a b : Name) (nd : Node) :
    step t (.rename (par ++ [a]) (par ++ [b]) nd true) = (t.change par (b, some nd)).change par (a, none) := by
  simp [step]

theorem step_unlink_concat (t : FS) (par : Path) (a : Name) :
    step t (.unlink (par ++ [a])) = t.change par (a, none) := by
  simp [step]

theorem writeFileTrace_eq (s : FS) (par : Path) (base : Name) (data : Bytes) (perm : Nat) (rnd : Name) :
    writeFileTrace s (par ++ [base]) data perm rnd =
      ([.openDir par, .creat (par ++ [tmpName base rnd]) s.next, .fchmod (par ++ [tmpName base rnd]) s.next perm,
        .write (par ++ [tmpName base rnd]) s.next data, .fsync (par ++ [tmpName base rnd]) s.next,
        .close (par ++ [tmpName base rnd])] ++
        (match renameOutcome s (par ++ [base]) with
          | .renamed existed => [.lstat (par ++ [base]) existed,
              .rename (par ++ [tmpName base rnd]) (par ++ [base]) (.file s.next) true, .fsyncDir par, .closeDir par]
          | .targetIsDir => [.lstat (par ++ [base]) true, .lstat (par ++ [tmpName base rnd]) true,
              .unlink (par ++ [tmpName base rnd]), .closeDir par]
          | .targetImmutable => [.lstat (par ++ [base]) true,
              .rename (par ++ [tmpName base rnd]) (par ++ [base]) (.file s.next) false,
              .unlink (par ++ [tmpName base rnd]), .closeDir par]),
       if (renameOutcome s (par ++ [base])).failed then .error else .ok) := by
  cases h : renameOutcome s (par ++ [base]) <;>
    simp [writeFileTrace, h, execOrder, writeFileProgram, effSys, RenameOutcome.failed]

/-- The tail of an immutable first upload: the best-effort inode flag. -/
def immTail (path : Path) (i : Nat) (imm : Bool) : List Sys :=
  if imm then [.openRd path true, .setImmutable path i true, .closeRd path] else []

/-- `durable.WriteFile` (plus the inode flag) from a settled state: every crash point gives old or
new; if it returns ok, the new object is durable and visible. -/
theorem write_phase (t1 : FS) (par : Path) (base rnd : Name) (data : Bytes) (perm : Nat) (d : Dir) (imm : Bool)
    (hq : Quiescent t1) (hS : Solid t1 (par ++ [base])) (hd : t1.dirs par = some d)
    (hfresh : d.durable base ≠ some (.file t1.next)) :
    SafeAlong (OldOrNew (par ++ [base]) (t1.object (par ++ [base])) data) t1
      ((writeFileTrace t1 (par ++ [base]) data perm rnd).1 ++
        (if (writeFileTrace t1 (par ++ [base]) data perm rnd).2 = .ok then immTail (par ++ [base]) t1.next imm else [])) ∧
    ((writeFileTrace t1 (par ++ [base]) data perm rnd).2 = .ok →
      DurablyNew (par ++ [base]) data (run t1 ((writeFileTrace t1 (par ++ [base]) data perm rnd).1 ++
        immTail (par ++ [base]) t1.next imm)) ∧
      (run t1 ((writeFileTrace t1 (par ++ [base]) data perm rnd).1 ++
        immTail (par ++ [base]) t1.next imm)).object (par ++ [base]) = some data ∧
      Quiescent (run t1 ((writeFileTrace t1 (par ++ [base]) data perm rnd).1 ++
        immTail (par ++ [base]) t1.next imm))) := by
  have hp : d.pending = [] := hq.1 par d hd
  have htmp := tmpName_ne_base base rnd
  have htmp' : ¬ base = tmpName base rnd := fun e => htmp e.symm
  -- the states of the common prefix
  have h0 := WState.init t1 par t1.next d hd
  have h1 := h0.creat (tmpName base rnd)
  have h2 := h1.modFile (fun f => { f with mode := perm })
  have h3 := h2.modFile (fun f => { f with data := f.data ++ data, synced := false })
  have h4 := h3.modFile (fun f => { f with synced := true })
  have c0 : ∀ x ∈ cands d base, x = d.durable base ∨ x = some (.file t1.next) := by
    intro x hx; simp [cands, hp] at hx; exact Or.inl hx
  have n0 : some (.file t1.next) ∈ cands d base → ∃ f, t1.files t1.next = some f ∧ f.synced = true ∧ f.data = data := by
    intro hx; simp [cands, hp] at hx; exact absurd hx.symm hfresh
  have c1 : ∀ x ∈ cands { d with pending := d.pending ++ [(tmpName base rnd, some (.file t1.next))] } base,
      x = d.durable base ∨ x = some (.file t1.next) := by
    intro x hx; simp [cands, hp, htmp] at hx; exact Or.inl hx
  have n1 : ∀ fi : Option File, some (.file t1.next) ∈ cands { d with pending := d.pending ++ [(tmpName base rnd, some (.file t1.next))] } base →
      ∃ f, fi = some f ∧ f.synced = true ∧ f.data = data := by
    intro fi hx; simp [cands, hp, htmp] at hx; exact absurd hx.symm hfresh
  have q0 := h0.oldOrNew base data hS hq hd hfresh c0 n0
  have q1 := h1.oldOrNew base data hS hq hd hfresh c1 (n1 _)
  have q2 := h2.oldOrNew base data hS hq hd hfresh c1 (n1 _)
  have q3 := h3.oldOrNew base data hS hq hd hfresh c1 (n1 _)
  have q4 := h4.oldOrNew base data hS hq hd hfresh c1 (n1 _)
  rw [writeFileTrace_eq]
  cases hout : renameOutcome t1 (par ++ [base]) with
  | renamed existed =>
    have h5 := (h4.change (base, some (.file t1.next))).change (tmpName base rnd, none)
    have h6 := h5.fsyncDir
    have h7 := h6.modFile (fun f => { f with immutable := true })
    have c5 : ∀ x ∈ cands { d with pending := ((d.pending ++ [(tmpName base rnd, some (.file t1.next))]) ++
        [(base, some (.file t1.next))]) ++ [(tmpName base rnd, none)] } base,
        x = d.durable base ∨ x = some (.file t1.next) := by
      intro x hx; simp [cands, hp, htmp] at hx; rcases hx with hx | hx <;> simp [hx]
    have q5 := h5.oldOrNew base data hS hq hd hfresh c5 (fun _ => ⟨_, rfl, rfl, by simp⟩)
    have c6 : ∀ x ∈ cands { durable := Dir.vol { d with pending := ((d.pending ++ [(tmpName base rnd, some (.file t1.next))]) ++
        [(base, some (.file t1.next))]) ++ [(tmpName base rnd, none)] }, pending := [] } base, x = some (.file t1.next) := by
      intro x hx; simp [cands, hp, Dir.vol, upd, htmp'] at hx; exact hx
    have q6 := h6.oldOrNew base data hS hq hd hfresh (fun x hx => Or.inr (c6 x hx)) (fun _ => ⟨_, rfl, rfl, by simp⟩)
    have q7 := h7.oldOrNew base data hS hq hd hfresh (fun x hx => Or.inr (c6 x hx)) (fun _ => ⟨_, rfl, rfl, by simp⟩)
    have d6 := h6.durablyNew base data hS c6 rfl (by simp)
    have d7 := h7.durablyNew base data hS c6 rfl (by simp)
    have hq6 := h6.quiescent hq rfl rfl
    have hq7 := h7.quiescent hq rfl rfl
    simp only [RenameOutcome.failed, Bool.false_eq_true, if_false, if_true, List.cons_append, List.nil_append]
    cases imm with
    | false =>
      simp only [immTail, Bool.false_eq_true, if_false, List.append_nil]
      refine ⟨?_, fun _ => ?_⟩
      · refine safeAlong_cons q0 (safeAlong_cons q0 (safeAlong_cons q1 (safeAlong_cons q2 (safeAlong_cons q3
          (safeAlong_cons q4 (safeAlong_cons q4 (safeAlong_cons q4 ?_)))))))
        rw [show step (step (step (step (step (step (step (step t1 (.openDir par)) (.creat (par ++ [tmpName base rnd]) t1.next))
            (.fchmod (par ++ [tmpName base rnd]) t1.next perm)) (.write (par ++ [tmpName base rnd]) t1.next data))
            (.fsync (par ++ [tmpName base rnd]) t1.next)) (.close (par ++ [tmpName base rnd]))) (.lstat (par ++ [base]) existed))
            (.rename (par ++ [tmpName base rnd]) (par ++ [base]) (.file t1.next) true) = _ from step_rename_concat _ _ _ _ _]
        exact safeAlong_cons q5 (safeAlong_cons q6 (safeAlong_nil q6))
      · simp only [run_cons, run_nil]
        rw [show step (step (step (step (step (step (step (step t1 (.openDir par)) (.creat (par ++ [tmpName base rnd]) t1.next))
            (.fchmod (par ++ [tmpName base rnd]) t1.next perm)) (.write (par ++ [tmpName base rnd]) t1.next data))
            (.fsync (par ++ [tmpName base rnd]) t1.next)) (.close (par ++ [tmpName base rnd]))) (.lstat (par ++ [base]) existed))
            (.rename (par ++ [tmpName base rnd]) (par ++ [base]) (.file t1.next) true) = _ from step_rename_concat _ _ _ _ _]
        exact ⟨d6.1, d6.2, hq6⟩
    | true =>
      simp only [immTail, if_true, List.cons_append, List.nil_append]
      refine ⟨?_, fun _ => ?_⟩
      · refine safeAlong_cons q0 (safeAlong_cons q0 (safeAlong_cons q1 (safeAlong_cons q2 (safeAlong_cons q3
          (safeAlong_cons q4 (safeAlong_cons q4 (safeAlong_cons q4 ?_)))))))
        rw [show step (step (step (step (step (step (step (step t1 (.openDir par)) (.creat (par ++ [tmpName base rnd]) t1.next))
            (.fchmod (par ++ [tmpName base rnd]) t1.next perm)) (.write (par ++ [tmpName base rnd]) t1.next data))
            (.fsync (par ++ [tmpName base rnd]) t1.next)) (.close (par ++ [tmpName base rnd]))) (.lstat (par ++ [base]) existed))
            (.rename (par ++ [tmpName base rnd]) (par ++ [base]) (.file t1.next) true) = _ from step_rename_concat _ _ _ _ _]
        exact safeAlong_cons q5 (safeAlong_cons q6 (safeAlong_cons q6 (safeAlong_cons q6 (safeAlong_cons q7 (safeAlong_nil q7)))))
      · simp only [run_cons, run_nil]
        rw [show step (step (step (step (step (step (step (step t1 (.openDir par)) (.creat (par ++ [tmpName base rnd]) t1.next))
            (.fchmod (par ++ [tmpName base rnd]) t1.next perm)) (.write (par ++ [tmpName base rnd]) t1.next data))
            (.fsync (par ++ [tmpName base rnd]) t1.next)) (.close (par ++ [tmpName base rnd]))) (.lstat (par ++ [base]) existed))
            (.rename (par ++ [tmpName base rnd]) (par ++ [base]) (.file t1.next) true) = _ from step_rename_concat _ _ _ _ _]
        exact ⟨d7.1, d7.2, hq7⟩
  | targetIsDir =>
    have h5 := h4.change (tmpName base rnd, none)
    have c5 : ∀ x ∈ cands { d with pending := (d.pending ++ [(tmpName base rnd, some (.file t1.next))]) ++
        [(tmpName base rnd, none)] } base, x = d.durable base ∨ x = some (.file t1.next) := by
      intro x hx; simp [cands, hp, htmp] at hx; exact Or.inl hx
    have q5 := h5.oldOrNew base data hS hq hd hfresh c5 (by
      intro hx; simp [cands, hp, htmp] at hx; exact absurd hx.symm hfresh)
    simp only [RenameOutcome.failed, if_true, List.cons_append, List.nil_append, List.append_nil]
    refine ⟨?_, fun h => by simp at h⟩
    refine safeAlong_cons q0 (safeAlong_cons q0 (safeAlong_cons q1 (safeAlong_cons q2 (safeAlong_cons q3
      (safeAlong_cons q4 (safeAlong_cons q4 (safeAlong_cons q4 (safeAlong_cons q4 ?_))))))))
    rw [show step (step (step (step (step (step (step (step (step t1 (.openDir par)) (.creat (par ++ [tmpName base rnd]) t1.next))
        (.fchmod (par ++ [tmpName base rnd]) t1.next perm)) (.write (par ++ [tmpName base rnd]) t1.next data))
        (.fsync (par ++ [tmpName base rnd]) t1.next)) (.close (par ++ [tmpName base rnd]))) (.lstat (par ++ [base]) true))
        (.lstat (par ++ [tmpName base rnd]) true)) (.unlink (par ++ [tmpName base rnd])) = _ from step_unlink_concat _ _ _]
    exact safeAlong_cons q5 (safeAlong_nil q5)
  | targetImmutable =>
    have h5 := h4.change (tmpName base rnd, none)
    have c5 : ∀ x ∈ cands { d with pending := (d.pending ++ [(tmpName base rnd, some (.file t1.next))]) ++
        [(tmpName base rnd, none)] } base, x = d.durable base ∨ x = some (.file t1.next) := by
      intro x hx; simp [cands, hp, htmp] at hx; exact Or.inl hx
    have q5 := h5.oldOrNew base data hS hq hd hfresh c5 (by
      intro hx; simp [cands, hp, htmp] at hx; exact absurd hx.symm hfresh)
    simp only [RenameOutcome.failed, if_true, List.cons_append, List.nil_append, List.append_nil]
    refine ⟨?_, fun h => by simp at h⟩
    refine safeAlong_cons q0 (safeAlong_cons q0 (safeAlong_cons q1 (safeAlong_cons q2 (safeAlong_cons q3
      (safeAlong_cons q4 (safeAlong_cons q4 (safeAlong_cons q4 (safeAlong_cons q4 ?_))))))))
    rw [show step (step (step (step (step (step (step (step (step t1 (.openDir par)) (.creat (par ++ [tmpName base rnd]) t1.next))
        (.fchmod (par ++ [tmpName base rnd]) t1.next perm)) (.write (par ++ [tmpName base rnd]) t1.next data))
        (.fsync (par ++ [tmpName base rnd]) t1.next)) (.close (par ++ [tmpName base rnd]))) (.lstat (par ++ [base]) true))
        (.rename (par ++ [tmpName base rnd]) (par ++ [base]) (.file t1.next) false)) (.unlink (par ++ [tmpName base rnd])) = _
        from step_unlink_concat _ _ _]
    exact safeAlong_cons q5 (safeAlong_nil q5)


theorem mkdirTrace_eq (p : Path) : mkdirTrace p =
    [.openDir (parentOf p), .mkdir p, .openDir p, .fsyncDir p, .closeDir p, .fsyncDir (parentOf p), .closeDir (parentOf p)] := by
  simp [mkdirTrace, execOrder, mkdirProgram, effSys, RenameOutcome.failed]

theorem concat_ne_self (q : Path) (n : Name) : q ++ [n] ≠ q := by
  intro h; have := congrArg List.length h; simp at this

theorem self_ne_concat (q : Path) (n : Name) : q ≠ q ++ [n] := fun h => concat_ne_self q n h.symm

/-- The three states `durable.Mkdir(q ++ [n])` goes through. -/
def mk1 (t : FS) (q : Path) (n : Name) : FS := step t (.mkdir (q ++ [n]))
def mk2 (t : FS) (q : Path) (n : Name) : FS := step (mk1 t q n) (.fsyncDir (q ++ [n]))
def mk3 (t : FS) (q : Path) (n : Name) : FS := step (mk2 t q n) (.fsyncDir q)

theorem mk1_dirs (t : FS) (q : Path) (n : Name) (d : Dir) (hd : t.dirs q = some d) :
    (mk1 t q n).dirs = fun x => if x = q then some { d with pending := d.pending ++ [(n, some .dir)] }
      else if x = q ++ [n] then some Dir.empty else t.dirs x := by
  funext x
  by_cases h1 : x = q
  · subst h1; simp [mk1, step, FS.change, FS.setDir, hd, self_ne_concat]
  · by_cases h2 : x = q ++ [n]
    · subst h2; simp [mk1, step, FS.change, FS.setDir, hd, self_ne_concat, concat_ne_self]
    · simp [mk1, step, FS.change, FS.setDir, hd, self_ne_concat, h1, h2]

theorem mk2_dirs (t : FS) (q : Path) (n : Name) (d : Dir) (hd : t.dirs q = some d) :
    (mk2 t q n).dirs = fun x => if x = q then some { d with pending := d.pending ++ [(n, some .dir)] }
      else if x = q ++ [n] then some Dir.empty else t.dirs x := by
  funext x
  have h1 := mk1_dirs t q n d hd
  by_cases hx : x = q ++ [n]
  · subst hx; simp [mk2, step, FS.setDir, h1, concat_ne_self, Dir.empty, Dir.vol]
  · simp [mk2, step, FS.setDir, h1, concat_ne_self, hx]

theorem mk3_dirs (t : FS) (q : Path) (n : Name) (d : Dir) (hd : t.dirs q = some d) :
    (mk3 t q n).dirs = fun x => if x = q then some { durable := Dir.vol { d with pending := d.pending ++ [(n, some .dir)] }, pending := [] }
      else if x = q ++ [n] then some Dir.empty else t.dirs x := by
  funext x
  have h2 := mk2_dirs t q n d hd
  by_cases hx : x = q
  · subst hx; simp [mk3, step, FS.setDir, h2]
  · simp [mk3, step, FS.setDir, h2, hx]

theorem mk_files (t : FS) (q : Path) (n : Name) :
    (mk1 t q n).files = t.files ∧ (mk2 t q n).files = t.files ∧ (mk3 t q n).files = t.files ∧
    (mk1 t q n).next = t.next ∧ (mk2 t q n).next = t.next ∧ (mk3 t q n).next = t.next := by
  have a1 : (mk1 t q n).files = t.files ∧ (mk1 t q n).next = t.next := by
    simp only [mk1, step, FS.change, FS.setDir]
    split <;> simp
  have a2 : (mk2 t q n).files = (mk1 t q n).files ∧ (mk2 t q n).next = (mk1 t q n).next := by
    simp only [mk2, step, FS.setDir]
    split <;> simp
  have a3 : (mk3 t q n).files = (mk2 t q n).files ∧ (mk3 t q n).next = (mk2 t q n).next := by
    simp only [mk3, step, FS.setDir]
    split <;> simp
  refine ⟨a1.1, a2.1.trans a1.1, a3.1.trans (a2.1.trans a1.1), a1.2, a2.2.trans a1.2, a3.2.trans (a2.2.trans a1.2)⟩


theorem solid_transfer (t t' : FS) (path : Path)
    (h : ∀ a n b, path = a ++ n :: b → b ≠ [] → t.dirs a = t'.dirs a) (hS : Solid t' path) : Solid t path := by
  intro a n b hab hb
  obtain ⟨d, hd, r⟩ := hS a n b hab hb
  exact ⟨d, by rw [h a n b hab hb]; exact hd, r⟩

theorem solid_extend (t : FS) (q : Path) (n x : Name) (hS : Solid t (q ++ [n]))
    (he : ∃ d, t.dirs q = some d ∧ d.durable n = some .dir ∧ ∀ c ∈ d.pending, c.1 ≠ n) :
    Solid t (q ++ [n] ++ [x]) := by
  intro a m b hab hb
  rcases List.eq_nil_or_concat b with hb0 | ⟨b', x', rfl⟩
  · exact absurd hb0 hb
  · have h1 : q ++ [n] ++ [x] = (a ++ m :: b') ++ [x'] := by simpa using hab
    have h2 := List.append_inj' h1 rfl
    rcases List.eq_nil_or_concat b' with hb' | ⟨b'', y, rfl⟩
    · subst hb'
      have h3 : q ++ [n] = a ++ [m] := by simpa using h2.1
      have h4 := List.append_inj' h3 rfl
      have hm : n = m := by simpa using h4.2
      rw [← h4.1, ← hm]; exact he
    · exact hS a m (b'' ++ [y]) (by simpa using h2.1) (by simp)

theorem mkdir_run (t : FS) (q : Path) (n : Name) : run t (mkdirTrace (q ++ [n])) = mk3 t q n := by
  rw [mkdirTrace_eq]; simp only [parentOf_concat]; rfl

/-- `durable.Mkdir(q ++ [n])` from a settled state in which `q` is a settled directory without entry `n`. -/
theorem mkdir_step (t : FS) (q : Path) (n : Name) (d : Dir) (hq : Quiescent t) (hS : Solid t (q ++ [n]))
    (hd : t.dirs q = some d) (hn : d.durable n = none) :
    (∀ r rs, SafeAlong (fun s => Blocked s (q ++ [n] ++ r :: rs)) t (mkdirTrace (q ++ [n]))) ∧
    Quiescent (mk3 t q n) ∧ (mk3 t q n).dirs (q ++ [n]) = some Dir.empty ∧
    (∀ x, Solid (mk3 t q n) (q ++ [n] ++ [x])) := by
  have hp : d.pending = [] := hq.1 q d hd
  have b0 : ∀ r rs, Blocked t (q ++ [n] ++ r :: rs) := by
    intro r rs
    refine ⟨q, n, r :: rs, by simp, ?_⟩
    intro d' hd' x hx
    rw [hd] at hd'; cases hd'
    simp [cands, hp, hn] at hx; exact hx
  have bk : ∀ (s : FS), s.dirs (q ++ [n]) = some Dir.empty → ∀ r rs, Blocked s (q ++ [n] ++ r :: rs) := by
    intro s hs r rs
    refine ⟨q ++ [n], r, rs, by simp, ?_⟩
    intro d' hd' x hx
    rw [hs] at hd'; cases hd'
    simp [cands, Dir.empty] at hx; exact hx
  have e1 : (mk1 t q n).dirs (q ++ [n]) = some Dir.empty := by simp [mk1_dirs t q n d hd, concat_ne_self]
  have e2 : (mk2 t q n).dirs (q ++ [n]) = some Dir.empty := by simp [mk2_dirs t q n d hd, concat_ne_self]
  have e3 : (mk3 t q n).dirs (q ++ [n]) = some Dir.empty := by simp [mk3_dirs t q n d hd, concat_ne_self]
  refine ⟨?_, ?_, e3, ?_⟩
  · intro r rs
    rw [mkdirTrace_eq]; simp only [parentOf_concat]
    exact safeAlong_cons (b0 r rs) (safeAlong_cons (b0 r rs) (safeAlong_cons (bk _ e1 r rs) (safeAlong_cons (bk _ e1 r rs)
      (safeAlong_cons (bk _ e2 r rs) (safeAlong_cons (bk _ e2 r rs) (safeAlong_cons (bk _ e3 r rs) (safeAlong_nil (bk _ e3 r rs))))))))
  · constructor
    · intro p d' hd'
      rw [mk3_dirs t q n d hd] at hd'
      simp only at hd'
      split at hd'
      · cases hd'; rfl
      · split at hd'
        · cases hd'; rfl
        · exact hq.1 p d' hd'
    · intro i f hf
      rw [(mk_files t q n).2.2.1] at hf
      exact hq.2 i f hf
  · intro x
    apply solid_extend
    · apply solid_transfer _ t _ _ hS
      intro a m b hab hb
      have hlen := congrArg List.length hab
      have ha1 : a ≠ q := by
        intro e; subst e
        cases b with
        | nil => exact hb rfl
        | cons y ys => simp at hlen
      have ha2 : a ≠ q ++ [n] := by
        intro e; subst e; simp at hlen
      simp [mk3_dirs t q n d hd, ha1, ha2]
    · refine ⟨{ durable := Dir.vol { d with pending := d.pending ++ [(n, some .dir)] }, pending := [] },
        by simp [mk3_dirs t q n d hd], ?_, by simp⟩
      simp [Dir.vol, hp, upd]


/-- Every directory entry that is on disk has a directory record (and the world root exists). -/
def WF (s : FS) : Prop :=
  s.dirs [] ≠ none ∧ ∀ a d n, s.dirs a = some d → d.durable n = some .dir → s.dirs (a ++ [n]) ≠ none

theorem walk_levels (s : FS) (v : Dir → Name → Option Node) : ∀ (rest cur : Path),
    s.walk v cur rest = some .dir →
    ∀ a n b, rest = a ++ n :: b → ∃ d, s.dirs (cur ++ a) = some d ∧ v d n = some .dir := by
  intro rest
  induction rest with
  | nil => intro cur _ a n b h; simp at h
  | cons m rest ih =>
    intro cur hw a n b hab
    simp only [FS.walk] at hw
    cases hd : s.dirs cur with
    | none => simp [hd] at hw
    | some d =>
      simp only [hd] at hw
      cases hv : v d m with
      | none => simp [hv] at hw
      | some nd =>
        cases nd with
        | file i =>
          simp only [hv] at hw
          split at hw <;> simp at hw
        | dir =>
          simp only [hv] at hw
          cases a with
          | nil =>
            simp only [List.nil_append, List.cons.injEq] at hab
            exact ⟨d, by simpa using hd, by rw [← hab.1]; exact hv⟩
          | cons x a' =>
            simp only [List.cons_append, List.cons.injEq] at hab
            obtain ⟨d', hd', hv'⟩ := ih (cur ++ [m]) hw a' n b hab.2
            exact ⟨d', by simpa [hab.1] using hd', hv'⟩

theorem vol_of_no_pending (d : Dir) (h : d.pending = []) : d.vol = d.durable := by
  cases d; simp_all [Dir.vol]

theorem lookup_dir_solid (s : FS) (hq : Quiescent s) (p : Path) (h : s.lookup p = some .dir) (x : Name) :
    Solid s (p ++ [x]) := by
  intro a n b hab hb
  rcases List.eq_nil_or_concat b with hb0 | ⟨b', x', rfl⟩
  · exact absurd hb0 hb
  · have h1 : p ++ [x] = (a ++ n :: b') ++ [x'] := by simpa using hab
    have h2 := (List.append_inj' h1 rfl).1
    obtain ⟨d, hd, hv⟩ := walk_levels s Dir.vol p [] h a n b' h2
    have hp := hq.1 _ d hd
    rw [vol_of_no_pending d hp] at hv
    exact ⟨d, by simpa using hd, hv, by simp [hp]⟩

theorem lookup_dir_record (s : FS) (hq : Quiescent s) (hwf : WF s) (p : Path) (h : s.lookup p = some .dir) :
    ∃ d, s.dirs p = some d := by
  rcases List.eq_nil_or_concat p with hp0 | ⟨q, m, rfl⟩
  · subst hp0
    cases hd : s.dirs [] with
    | none => exact absurd hd hwf.1
    | some d => exact ⟨d, rfl⟩
  · simp only [List.concat_eq_append] at h ⊢
    obtain ⟨d, hd, hv⟩ := walk_levels s Dir.vol (q ++ [m]) [] h q m [] (by simp)
    have hp := hq.1 _ d hd
    rw [vol_of_no_pending d hp] at hv
    cases hr : s.dirs (q ++ [m]) with
    | none => exact absurd hr (hwf.2 q d m (by simpa using hd) hv)
    | some d' => exact ⟨d', rfl⟩

/-- What `durable.MkdirAll(p)` achieves from a settled state (when it succeeds). -/
structure MkdirAllPost (s : FS) (p : Path) (mks : List Sys) : Prop where
  blocked : ∀ r rs, SafeAlong (fun t => Blocked t (p ++ r :: rs)) s mks
  quiescent : Quiescent (run s mks)
  fresh : (run s mks).dirs p = some Dir.empty
  solid : ∀ x, Solid (run s mks) (p ++ [x])
  files : (run s mks).files = s.files
  next : (run s mks).next = s.next
  absent : s.lookup p = none

theorem mkdirAll_spec (s : FS) (hq : Quiescent s) (hwf : WF s) : ∀ (rp : List Name) (st mks : List Sys),
    mkdirAllRev s rp = (st, mks, true) →
    (∀ e ∈ st, e.inert = true) ∧
    ((s.lookup rp.reverse = some .dir ∧ mks = []) ∨ MkdirAllPost s rp.reverse mks) := by
  intro rp
  induction rp with
  | nil =>
    intro st mks h
    simp only [mkdirAllRev, Prod.mk.injEq] at h
    obtain ⟨rfl, rfl, _⟩ := h
    exact ⟨by simp [Sys.inert], Or.inl ⟨rfl, rfl⟩⟩
  | cons n rq ih =>
    intro st mks h
    have hrev : (n :: rq).reverse = rq.reverse ++ [n] := by simp
    rw [hrev]
    simp only [mkdirAllRev, List.reverse_cons] at h
    cases hl : s.lookup (rq.reverse ++ [n]) with
    | some nd =>
      cases nd with
      | dir =>
        simp only [hl, Prod.mk.injEq] at h
        obtain ⟨rfl, rfl, _⟩ := h
        exact ⟨by simp [Sys.inert], Or.inl ⟨rfl, rfl⟩⟩
      | file i => simp [hl] at h
    | none =>
      simp only [hl, Prod.mk.injEq] at h
      obtain ⟨rfl, hm, hok⟩ := h
      obtain ⟨hst, hcase⟩ := ih _ _ (Prod.ext rfl (Prod.ext rfl hok) : mkdirAllRev s rq = ((mkdirAllRev s rq).1, (mkdirAllRev s rq).2.1, true))
      refine ⟨?_, Or.inr ?_⟩
      · intro e he
        simp only [List.mem_cons] at he
        rcases he with rfl | he
        · rfl
        · exact hst e he
      simp only [hok, if_true] at hm
      subst hm
      rcases hcase with ⟨hdir, hnil⟩ | hpost
      · -- the parent exists: one Mkdir
        rw [hnil, List.nil_append]
        obtain ⟨d, hd⟩ := lookup_dir_record s hq hwf _ hdir
        have hS := lookup_dir_solid s hq _ hdir n
        have hp := hq.1 _ d hd
        have hn : d.durable n = none := by
          have := lookup_last s rq.reverse n hS
          rw [hl, hd, Option.bind_some, vol_of_no_pending d hp] at this
          exact this.symm
        obtain ⟨hb, hq', hf, hs'⟩ := mkdir_step s rq.reverse n d hq hS hd hn
        rw [← mkdir_run] at hq' hf hs'
        exact ⟨hb, hq', hf, hs', by rw [mkdir_run]; exact (mk_files s _ n).2.2.1,
          by rw [mkdir_run]; exact (mk_files s _ n).2.2.2.2.2, hl⟩
      · -- the parent was just created
        have hn : (Dir.empty).durable n = none := rfl
        obtain ⟨hb, hq', hf, hs'⟩ := mkdir_step (run s (mkdirAllRev s rq).2.1) rq.reverse n Dir.empty hpost.quiescent
          (hpost.solid n) hpost.fresh hn
        rw [← mkdir_run, ← run_append] at hq' hf hs'
        refine ⟨?_, hq', hf, hs', ?_, ?_, hl⟩
        · intro r rs
          apply safeAlong_append
          · have := hpost.blocked n (r :: rs)
            simpa using this
          · exact hb r rs
        · rw [run_append, mkdir_run, (mk_files _ _ n).2.2.1]; exact hpost.files
        · rw [run_append, mkdir_run, (mk_files _ _ n).2.2.2.2.2]; exact hpost.next


theorem crash_quiescent (c : CrashChoice) (s : FS) (hq : Quiescent s) : crash c s = s := by
  cases s with
  | mk files dirs next =>
    simp only [crash, FS.mk.injEq, and_true]
    constructor
    · funext i
      cases hf : files i with
      | none => rfl
      | some f => simp [crashFile, hq.2 i f hf]
    · funext p
      cases hd : dirs p with
      | none => rfl
      | some d =>
        have hp := hq.1 p d hd
        cases d with
        | mk dur pend => simp_all [crashDir, applyMask]

theorem oldOrNew_quiescent (s : FS) (hq : Quiescent s) (path : Path) (new : Bytes) :
    OldOrNew path (s.object path) new s := by
  intro c; rw [crash_quiescent c s hq]; exact Or.inl rfl

theorem oldOrNew_of_blocked (t : FS) (path : Path) (new : Bytes) (h : Blocked t path) :
    OldOrNew path none new t := by
  intro c
  left
  exact object_of_lookup_none _ _ (crash_lookup_blocked c t path h)

theorem mkdirAllRev_fail (s : FS) : ∀ (rp : List Name), (mkdirAllRev s rp).2.2 = false →
    (mkdirAllRev s rp).2.1 = [] ∧ ∀ e ∈ (mkdirAllRev s rp).1, e.inert = true := by
  intro rp
  induction rp with
  | nil => intro h; simp [mkdirAllRev] at h
  | cons n rq ih =>
    intro h
    simp only [mkdirAllRev, List.reverse_cons] at h ⊢
    cases hl : s.lookup (rq.reverse ++ [n]) with
    | some nd =>
      cases nd with
      | dir => simp [hl] at h
      | file i => simp [hl, Sys.inert]
    | none =>
      simp only [hl] at h ⊢
      obtain ⟨h1, h2⟩ := ih h
      refine ⟨by simp [h, h1], ?_⟩
      intro e he
      simp only [List.mem_cons] at he
      rcases he with rfl | he
      · rfl
      · exact h2 e he

theorem writeFileTrace_congr (s t : FS) (path : Path) (data : Bytes) (perm : Nat) (rnd : Name)
    (hn : s.next = t.next) (ho : renameOutcome s path = renameOutcome t path) :
    writeFileTrace s path data perm rnd = writeFileTrace t path data perm rnd := by
  simp [writeFileTrace, hn, ho]


theorem renameOutcome_congr (s t : FS) (path : Path) (hl : s.lookup path = t.lookup path) (hf : s.files = t.files) :
    renameOutcome s path = renameOutcome t path := by
  simp [renameOutcome, hl, hf]

/-- The branch of `Upload` that writes: `MkdirAll`, (failed `os.Open`), `WriteFile`, (inode flag). -/
theorem write_branch (s : FS) (par : Path) (base rnd : Name) (data : Bytes) (perm : Nat) (imm : Bool)
    (st mks mid : List Sys) (hq : Quiescent s) (hwf : WF s) (hfr : FreshInodes s)
    (hspec : mkdirAllRev s par.reverse = (st, mks, true)) (hmid : ∀ e ∈ mid, e.inert = true) :
    SafeAlong (OldOrNew (par ++ [base]) (s.object (par ++ [base])) data) s
      ((st ++ mks) ++ mid ++ (writeFileTrace s (par ++ [base]) data perm rnd).1 ++
        (if (writeFileTrace s (par ++ [base]) data perm rnd).2 = .ok then immTail (par ++ [base]) s.next imm else [])) ∧
    ((writeFileTrace s (par ++ [base]) data perm rnd).2 = .ok →
      DurablyNew (par ++ [base]) data (run s ((st ++ mks) ++ mid ++ (writeFileTrace s (par ++ [base]) data perm rnd).1 ++
        immTail (par ++ [base]) s.next imm)) ∧
      (run s ((st ++ mks) ++ mid ++ (writeFileTrace s (par ++ [base]) data perm rnd).1 ++
        immTail (par ++ [base]) s.next imm)).object (par ++ [base]) = some data ∧
      Quiescent (run s ((st ++ mks) ++ mid ++ (writeFileTrace s (par ++ [base]) data perm rnd).1 ++
        immTail (par ++ [base]) s.next imm))) := by
  obtain ⟨hst, hcase⟩ := mkdirAll_spec s hq hwf par.reverse st mks hspec
  simp only [List.reverse_reverse] at hcase
  have hrun_st : run s st = s := run_inert s st hst
  -- facts about the state t1 after MkdirAll
  have key : ∃ d, Quiescent (run s mks) ∧ Solid (run s mks) (par ++ [base]) ∧ (run s mks).dirs par = some d ∧
      d.durable base ≠ some (.file (run s mks).next) ∧ (run s mks).next = s.next ∧
      (run s mks).object (par ++ [base]) = s.object (par ++ [base]) ∧
      renameOutcome s (par ++ [base]) = renameOutcome (run s mks) (par ++ [base]) ∧
      SafeAlong (OldOrNew (par ++ [base]) (s.object (par ++ [base])) data) s mks := by
    rcases hcase with ⟨hdir, hnil⟩ | hpost
    · subst hnil
      obtain ⟨d, hd⟩ := lookup_dir_record s hq hwf par hdir
      refine ⟨d, hq, lookup_dir_solid s hq par hdir base, hd, ?_, rfl, rfl, rfl, safeAlong_nil (oldOrNew_quiescent s hq _ _)⟩
      intro h
      exact Nat.lt_irrefl _ (hfr par d base _ hd h)
    · have hS := hpost.solid base
      have hbl : Blocked s (par ++ [base]) := by simpa using hpost.blocked base [] 0
      have hl0 : s.lookup (par ++ [base]) = none := lookup_blocked _ _ hbl
      have hl1 : (run s mks).lookup (par ++ [base]) = none := by
        rw [lookup_last _ par base hS, hpost.fresh]; rfl
      refine ⟨Dir.empty, hpost.quiescent, hS, hpost.fresh, by simp [Dir.empty], hpost.next, ?_, ?_, ?_⟩
      · rw [object_of_lookup_none _ _ hl0, object_of_lookup_none _ _ hl1]
      · exact renameOutcome_congr _ _ _ (by rw [hl0, hl1]) hpost.files.symm
      · rw [object_of_lookup_none _ _ hl0]
        intro k
        exact oldOrNew_of_blocked _ _ _ (hpost.blocked base [] k)
  obtain ⟨d, hq1, hS1, hd1, hfresh1, hnext, hobj, hout, hsafe⟩ := key
  have hw : writeFileTrace s (par ++ [base]) data perm rnd = writeFileTrace (run s mks) (par ++ [base]) data perm rnd :=
    writeFileTrace_congr _ _ _ _ _ _ hnext.symm hout
  have hwp := write_phase (run s mks) par base rnd data perm d imm hq1 hS1 hd1 hfresh1
  rw [hobj, hnext, ← hw] at hwp
  have hpre : run s ((st ++ mks) ++ mid) = run s mks := by
    rw [run_append, run_append, hrun_st, run_inert _ mid hmid]
  constructor
  · rw [List.append_assoc ((st ++ mks) ++ mid)]
    apply safeAlong_append
    · apply safeAlong_append
      · apply safeAlong_append
        · exact safeAlong_inert hst (oldOrNew_quiescent s hq _ _)
        · rw [hrun_st]; exact hsafe
      · rw [run_append, hrun_st]
        exact safeAlong_inert hmid (safeAlong_final hsafe)
    · rw [hpre]; exact hwp.1
  · intro hok
    rw [List.append_assoc ((st ++ mks) ++ mid), run_append, hpre]
    exact hwp.2 hok


theorem compareTrace_inert (P : Program) (s : FS) (path : Path) (data : Bytes) :
    ∀ e ∈ (compareTrace P s path data).1, e.inert = true := by
  intro e he
  unfold compareTrace at he
  cases hf : s.fileAt path with
  | none => simp [hf] at he; subst he; rfl
  | some f =>
    simp only [hf, List.mem_map] at he
    obtain ⟨x, _, rfl⟩ := he
    rfl

theorem compareTrace_ok (P : Program) (s : FS) (path : Path) (data : Bytes)
    (h : (compareTrace P s path data).2 = .ok) : s.object path = some data := by
  unfold compareTrace at h
  cases hf : s.fileAt path with
  | none => simp [hf] at h
  | some f =>
    simp only [hf] at h
    cases hr : (compareFile P f.data data).2 with
    | none => simp [hr] at h
    | some b =>
      cases b with
      | false => simp [hr] at h
      | true =>
        have := compareFile_sound P f.data data _ (Prod.ext rfl hr)
        unfold FS.fileAt at hf
        unfold FS.object
        cases hl : s.lookup path with
        | none => simp [hl] at hf
        | some nd =>
          cases nd with
          | dir => simp [hl] at hf
          | file j => simp only [hl] at hf ⊢; rw [hf]; simp [this]

/-- **Atomicity and durability of `LocalBackend.Upload`** (model level, all inputs). -/
theorem upload_atomic_durable (P : Program) (dir : Path) (key data : Bytes) (o : Opts) (rnd : Name) (s : FS)
    (comps : Path) (hq : Quiescent s) (hwf : WF s) (hfr : FreshInodes s)
    (hloc : localize key = some comps) (hne : dir ++ comps ≠ []) :
    SafeAlong (OldOrNew (dir ++ comps) (s.object (dir ++ comps)) data) s (uploadTrace P dir key data o rnd s).1 ∧
    ((uploadTrace P dir key data o rnd s).2 = .ok →
      DurablyNew (dir ++ comps) data (run s (uploadTrace P dir key data o rnd s).1) ∧
      (run s (uploadTrace P dir key data o rnd s).1).object (dir ++ comps) = some data ∧
      Quiescent (run s (uploadTrace P dir key data o rnd s).1)) := by
  have hsplit := path_split (dir ++ comps) hne
  generalize hpar : parentOf (dir ++ comps) = par at hsplit
  generalize hbase : baseOf (dir ++ comps) = base at hsplit
  unfold uploadTrace
  simp only [hloc, mkdirAllTrace, hpar]
  rw [hsplit]
  have Q0 := oldOrNew_quiescent s hq (par ++ [base]) data
  cases hok : (mkdirAllRev s par.reverse).2.2 with
  | false =>
    obtain ⟨hnil, hin⟩ := mkdirAllRev_fail s par.reverse hok
    simp only [Bool.not_false, if_true, hnil, List.append_nil]
    exact ⟨safeAlong_inert hin Q0, fun h => by simp at h⟩
  | true =>
    have hspec : mkdirAllRev s par.reverse = ((mkdirAllRev s par.reverse).1, (mkdirAllRev s par.reverse).2.1, true) :=
      Prod.ext rfl (Prod.ext rfl hok)
    simp only [Bool.not_true, Bool.false_eq_true, if_false]
    have hst := (mkdirAll_spec s hq hwf par.reverse _ _ hspec).1
    cases himm : o.immutable with
    | false =>
      simp only [Bool.false_eq_true, if_false]
      have := write_branch s par base rnd data modeDefault false _ _ [] hq hwf hfr hspec (by simp)
      simpa [immTail] using this
    | true =>
      simp only [if_true]
      cases hl : s.lookup (par ++ [base]) with
      | some nd =>
        simp only
        -- the compare branch: nothing is written
        have hcase := (mkdirAll_spec s hq hwf par.reverse _ _ hspec).2
        simp only [List.reverse_reverse] at hcase
        have hmks : (mkdirAllRev s par.reverse).2.1 = [] := by
          rcases hcase with ⟨_, h⟩ | hpost
          · exact h
          · have hbl : Blocked s (par ++ [base]) := by simpa using hpost.blocked base [] 0
            rw [lookup_blocked _ _ hbl] at hl; cases hl
        have hin : ∀ e ∈ ((mkdirAllRev s par.reverse).1 ++ (mkdirAllRev s par.reverse).2.1 ++
            Sys.openRd (par ++ [base]) true :: (compareTrace P s (par ++ [base]) data).1) ++
              (if (compareTrace P s (par ++ [base]) data).2 = Result.hang then [] else [Sys.closeRd (par ++ [base])]),
            e.inert = true := by
          intro e he
          simp only [hmks, List.append_nil, List.mem_append, List.mem_cons] at he
          rcases he with (he | rfl | he) | he
          · exact hst e he
          · rfl
          · exact compareTrace_inert P s _ data e he
          · split at he
            · simp at he
            · simp at he; subst he; rfl
        refine ⟨safeAlong_inert hin Q0, fun hres => ?_⟩
        rw [run_inert s _ hin]
        have hobj := compareTrace_ok P s _ data hres
        refine ⟨fun c => ?_, hobj, hq⟩
        rw [crash_quiescent c s hq]; exact hobj
      | none =>
        simp only
        have := write_branch s par base rnd data modeImmutable true _ _ [.openRd (par ++ [base]) false] hq hwf hfr hspec
          (by simp [Sys.inert])
        obtain ⟨h1, h2⟩ := this
        refine ⟨by simpa [immTail] using h1, fun hres => ?_⟩
        have hres' : (writeFileTrace s (par ++ [base]) data modeImmutable rnd).2 = .ok := hres
        have h3 := h2 hres'
        simp only [hres', if_true]
        simpa [immTail] using h3


/-! ## Order of the system calls -/

/-- The block of system calls of one successful `durable.WriteFile`. -/
def writeBlock (par : Path) (base rnd : Name) (i : Nat) (data : Bytes) (perm : Nat) (existed : Bool) : List Sys :=
  [.openDir par, .creat (par ++ [tmpName base rnd]) i, .fchmod (par ++ [tmpName base rnd]) i perm,
   .write (par ++ [tmpName base rnd]) i data, .fsync (par ++ [tmpName base rnd]) i, .close (par ++ [tmpName base rnd]),
   .lstat (par ++ [base]) existed, .rename (par ++ [tmpName base rnd]) (par ++ [base]) (.file i) true,
   .fsyncDir par, .closeDir par]

theorem writeFileTrace_ok (s : FS) (par : Path) (base : Name) (data : Bytes) (perm : Nat) (rnd : Name)
    (h : (writeFileTrace s (par ++ [base]) data perm rnd).2 = .ok) :
    ∃ existed, (writeFileTrace s (par ++ [base]) data perm rnd).1 = writeBlock par base rnd s.next data perm existed := by
  rw [writeFileTrace_eq] at h ⊢
  cases ho : renameOutcome s (par ++ [base]) with
  | renamed e => exact ⟨e, by simp [writeBlock]⟩
  | targetIsDir => simp [ho, RenameOutcome.failed] at h
  | targetImmutable => simp [ho, RenameOutcome.failed] at h

theorem mem_mkdirTrace_mkdir (p q : Path) (h : Sys.mkdir p ∈ mkdirTrace q) : p = q := by
  rw [mkdirTrace_eq] at h; simpa using h

theorem mkdirAllRev_stats_no_mkdir (s : FS) (p : Path) : ∀ rp, Sys.mkdir p ∉ (mkdirAllRev s rp).1 := by
  intro rp
  induction rp with
  | nil => simp [mkdirAllRev]
  | cons n rq ih =>
    simp only [mkdirAllRev]
    split <;> simp [ih]

/-- Every `mkdir` of `MkdirAll` sits in a complete `Mkdir` block. -/
theorem mkdirAllRev_blocks (s : FS) (p : Path) : ∀ rp, Sys.mkdir p ∈ (mkdirAllRev s rp).2.1 →
    ∃ A D, (mkdirAllRev s rp).2.1 = A ++ mkdirTrace p ++ D := by
  intro rp
  induction rp with
  | nil => simp [mkdirAllRev]
  | cons n rq ih =>
    simp only [mkdirAllRev]
    split
    · simp
    · simp
    · simp only
      split
      · intro h
        rcases List.mem_append.1 h with h | h
        · obtain ⟨A, D, e⟩ := ih h
          exact ⟨A, D ++ mkdirTrace (n :: rq).reverse, by rw [e]; simp⟩
        · have := mem_mkdirTrace_mkdir _ _ h
          subst this
          exact ⟨(mkdirAllRev s rq).2.1, [], by simp⟩
      · exact ih


theorem mkdir_not_mem_writeFileTrace (s : FS) (path p : Path) (data : Bytes) (perm : Nat) (rnd : Name) :
    Sys.mkdir p ∉ (writeFileTrace s path data perm rnd).1 := by
  simp only [writeFileTrace, execOrder, writeFileProgram]
  cases renameOutcome s path <;> simp [effSys, RenameOutcome.failed]

theorem mkdir_not_mem_compareTrace (P : Program) (s : FS) (path p : Path) (data : Bytes) :
    Sys.mkdir p ∉ (compareTrace P s path data).1 := by
  unfold compareTrace
  cases s.fileAt path <;> simp

/-- What `Upload` issues after `MkdirAll` (whose success is `ok`). -/
def uploadRest (P : Program) (path : Path) (data : Bytes) (o : Opts) (rnd : Name) (s : FS) (ok : Bool) : List Sys :=
  if !ok then []
  else if o.immutable then
    match s.lookup path with
    | some _ =>
      .openRd path true :: (compareTrace P s path data).1 ++
        (if (compareTrace P s path data).2 = .hang then [] else [.closeRd path])
    | none =>
      .openRd path false :: (writeFileTrace s path data modeImmutable rnd).1 ++
        (if (writeFileTrace s path data modeImmutable rnd).2 = .ok then
          [.openRd path true, .setImmutable path s.next true, .closeRd path] else [])
  else (writeFileTrace s path data modeDefault rnd).1

theorem uploadTrace_fst (P : Program) (dir : Path) (key data : Bytes) (o : Opts) (rnd : Name) (s : FS) (comps : Path)
    (hloc : localize key = some comps) :
    (uploadTrace P dir key data o rnd s).1 =
      ((mkdirAllRev s (parentOf (dir ++ comps)).reverse).1 ++ (mkdirAllRev s (parentOf (dir ++ comps)).reverse).2.1) ++
        uploadRest P (dir ++ comps) data o rnd s (mkdirAllRev s (parentOf (dir ++ comps)).reverse).2.2 := by
  unfold uploadTrace uploadRest
  simp only [hloc, mkdirAllTrace]
  by_cases hok : (mkdirAllRev s (parentOf (dir ++ comps)).reverse).2.2 = true
  · by_cases himm : o.immutable = true
    · cases hl : s.lookup (dir ++ comps) <;> simp [hok, himm, hl]
    · simp [hok, himm]
  · simp [hok]

theorem mem_uploadRest (P : Program) (path : Path) (data : Bytes) (o : Opts) (rnd : Name) (s : FS) (ok : Bool) (e : Sys)
    (h : e ∈ uploadRest P path data o rnd s ok) :
    (∃ b, e = .openRd path b) ∨ e = .closeRd path ∨ e = .setImmutable path s.next true ∨
      e ∈ (compareTrace P s path data).1 ∨ (∃ perm, e ∈ (writeFileTrace s path data perm rnd).1) := by
  unfold uploadRest at h
  by_cases hok : ok = true
  · by_cases himm : o.immutable = true
    · cases hl : s.lookup path with
      | none =>
        simp only [hok, himm, hl, Bool.not_true, Bool.false_eq_true, if_false, if_true, List.mem_cons, List.mem_append] at h
        rcases h with (h | h) | h
        · exact Or.inl ⟨_, h⟩
        · exact Or.inr (Or.inr (Or.inr (Or.inr ⟨_, h⟩)))
        · split at h
          · simp only [List.mem_cons, List.mem_nil_iff, or_false] at h
            rcases h with h | h | h
            · exact Or.inl ⟨_, h⟩
            · exact Or.inr (Or.inr (Or.inl h))
            · exact Or.inr (Or.inl h)
          · simp at h
      | some nd =>
        simp only [hok, himm, hl, Bool.not_true, Bool.false_eq_true, if_false, if_true, List.mem_cons, List.mem_append] at h
        rcases h with (h | h) | h
        · exact Or.inl ⟨_, h⟩
        · exact Or.inr (Or.inr (Or.inr (Or.inl h)))
        · split at h
          · simp at h
          · simp only [List.mem_cons, List.mem_nil_iff, or_false] at h
            exact Or.inr (Or.inl h)
    · simp only [hok, himm, Bool.not_true, Bool.false_eq_true, if_false] at h
      exact Or.inr (Or.inr (Or.inr (Or.inr ⟨_, h⟩)))
  · simp [hok] at h

theorem mkdir_not_mem_uploadRest (P : Program) (path p : Path) (data : Bytes) (o : Opts) (rnd : Name) (s : FS) (ok : Bool) :
    Sys.mkdir p ∉ uploadRest P path data o rnd s ok := by
  intro h
  rcases mem_uploadRest P path data o rnd s ok _ h with ⟨b, h⟩ | h | h | h | ⟨perm, h⟩
  · cases h
  · cases h
  · cases h
  · exact mkdir_not_mem_compareTrace P s path p data h
  · exact mkdir_not_mem_writeFileTrace s path p data perm rnd h

/-- Every `mkdir` issued by `Upload` is followed by the fsync of the new directory and then of its parent. -/
theorem upload_mkdir_order (P : Program) (dir : Path) (key data : Bytes) (o : Opts) (rnd : Name) (s : FS) (p : Path)
    (h : Sys.mkdir p ∈ (uploadTrace P dir key data o rnd s).1) :
    ∃ A D, (uploadTrace P dir key data o rnd s).1 = A ++ mkdirTrace p ++ D := by
  cases hloc : localize key with
  | none => simp [uploadTrace, hloc] at h
  | some comps =>
    rw [uploadTrace_fst P dir key data o rnd s comps hloc] at h ⊢
    rcases List.mem_append.1 h with hm | hm
    · rcases List.mem_append.1 hm with hm | hm
      · exact absurd hm (mkdirAllRev_stats_no_mkdir s p _)
      · obtain ⟨A, D, e⟩ := mkdirAllRev_blocks s p _ hm
        exact ⟨(mkdirAllRev s (parentOf (dir ++ comps)).reverse).1 ++ A,
          D ++ uploadRest P (dir ++ comps) data o rnd s (mkdirAllRev s (parentOf (dir ++ comps)).reverse).2.2,
          by rw [e]; simp only [List.append_assoc]⟩
    · exact absurd hm (mkdir_not_mem_uploadRest P _ p data o rnd s _)

theorem uploadTrace_snd (P : Program) (dir : Path) (key data : Bytes) (o : Opts) (rnd : Name) (s : FS) (comps : Path)
    (hloc : localize key = some comps) :
    (uploadTrace P dir key data o rnd s).2 =
      if !(mkdirAllRev s (parentOf (dir ++ comps)).reverse).2.2 then .error
      else if o.immutable then
        match s.lookup (dir ++ comps) with
        | some _ => (compareTrace P s (dir ++ comps) data).2
        | none => (writeFileTrace s (dir ++ comps) data modeImmutable rnd).2
      else (writeFileTrace s (dir ++ comps) data modeDefault rnd).2 := by
  unfold uploadTrace
  simp only [hloc, mkdirAllTrace]
  by_cases hok : (mkdirAllRev s (parentOf (dir ++ comps)).reverse).2.2 = true
  · by_cases himm : o.immutable = true
    · cases hl : s.lookup (dir ++ comps) <;> simp [hok, himm, hl]
    · simp [hok, himm]
  · simp [hok]

/-- An `Upload` that writes and returns ok contains a complete `WriteFile` block: data written, file
synced and closed, then renamed over the object, then the parent directory synced. -/
theorem upload_write_order (P : Program) (dir : Path) (key data : Bytes) (o : Opts) (rnd : Name) (s : FS)
    (comps par : Path) (base : Name) (hloc : localize key = some comps) (hpath : dir ++ comps = par ++ [base])
    (hres : (uploadTrace P dir key data o rnd s).2 = .ok)
    (hw : o.immutable = false ∨ s.lookup (par ++ [base]) = none) :
    ∃ A D existed, (uploadTrace P dir key data o rnd s).1 =
        A ++ writeBlock par base rnd s.next data (if o.immutable then modeImmutable else modeDefault) existed ++ D := by
  rw [uploadTrace_fst P dir key data o rnd s comps hloc]
  rw [uploadTrace_snd P dir key data o rnd s comps hloc] at hres
  rw [hpath] at hres ⊢
  simp only [parentOf_concat] at hres ⊢
  by_cases hok : (mkdirAllRev s par.reverse).2.2 = true
  · simp only [hok, Bool.not_true, Bool.false_eq_true, if_false] at hres
    unfold uploadRest
    by_cases himm : o.immutable = true
    · have hl : s.lookup (par ++ [base]) = none := by
        rcases hw with h | h
        · rw [himm] at h; cases h
        · exact h
      simp only [himm, hl, if_true] at hres ⊢
      obtain ⟨existed, hb⟩ := writeFileTrace_ok s par base data modeImmutable rnd hres
      refine ⟨((mkdirAllRev s par.reverse).1 ++ (mkdirAllRev s par.reverse).2.1) ++
        [.openRd (par ++ [base]) false], [.openRd (par ++ [base]) true, .setImmutable (par ++ [base]) s.next true,
        .closeRd (par ++ [base])], existed, ?_⟩
      simp [hok, hres, hb]
    · simp only [himm, Bool.false_eq_true, if_false] at hres ⊢
      obtain ⟨existed, hb⟩ := writeFileTrace_ok s par base data modeDefault rnd hres
      exact ⟨(mkdirAllRev s par.reverse).1 ++ (mkdirAllRev s par.reverse).2.1,
        [], existed, by simp [hok, hb]⟩
  · simp [hok] at hres


/-! ## Immutable objects -/

theorem walk_parent_dir (s : FS) (v : Dir → Name → Option Node) (base : Name) : ∀ (rest cur : Path) (x : Node),
    s.walk v cur (rest ++ [base]) = some x → s.walk v cur rest = some .dir := by
  intro rest
  induction rest with
  | nil => intro cur x _; rfl
  | cons m rest ih =>
    intro cur x h
    simp only [List.cons_append, FS.walk] at h ⊢
    cases hd : s.dirs cur with
    | none => simp [hd] at h
    | some d =>
      simp only [hd] at h ⊢
      cases hv : v d m with
      | none => simp [hv] at h
      | some nd =>
        cases nd with
        | file i => simp [hv] at h
        | dir => simp only [hv] at h ⊢; exact ih _ x h

theorem lookup_parent_dir (s : FS) (par : Path) (base : Name) (x : Node) (h : s.lookup (par ++ [base]) = some x) :
    s.lookup par = some .dir := walk_parent_dir s Dir.vol base par [] x h

theorem mkdirAllRev_existing (s : FS) (p : Path) (h : s.lookup p = some .dir) :
    mkdirAllRev s p.reverse = ([.stat p true], [], true) := by
  rcases List.eq_nil_or_concat p with h0 | ⟨q, n, rfl⟩
  · subst h0; rfl
  · simp only [List.concat_eq_append] at h ⊢
    simp [mkdirAllRev, h]

theorem object_some (s : FS) (path : Path) (d : Bytes) (h : s.object path = some d) :
    ∃ j f, s.lookup path = some (.file j) ∧ s.files j = some f ∧ f.data = d ∧ s.fileAt path = some f := by
  unfold FS.object at h
  cases hl : s.lookup path with
  | none => simp [hl] at h
  | some nd =>
    cases nd with
    | dir => simp [hl] at h
    | file j =>
      simp only [hl] at h
      cases hf : s.files j with
      | none => simp [hf] at h
      | some f =>
        simp only [hf, Option.map_some, Option.some.injEq] at h
        exact ⟨j, f, rfl, hf, h, by simp [FS.fileAt, hl, hf]⟩

/-- Immutable upload over an existing object: it only reads; the verdict is `compareFile`'s. -/
theorem upload_immutable_existing_shape (P : Program) (dir : Path) (key data d : Bytes) (rnd : Name) (s : FS)
    (comps : Path) (hloc : localize key = some comps) (hne : dir ++ comps ≠ [])
    (hobj : s.object (dir ++ comps) = some d) :
    (uploadTrace P dir key data { immutable := true } rnd s).2 =
      (match (compareFile P d data).2 with | some true => .ok | some false => .mismatch | none => .hang) ∧
    run s (uploadTrace P dir key data { immutable := true } rnd s).1 = s := by
  obtain ⟨j, f, hl, hf, hfd, hfa⟩ := object_some s _ d hobj
  have hsplit := path_split (dir ++ comps) hne
  have hpar : s.lookup (parentOf (dir ++ comps)) = some .dir := by
    rw [hsplit] at hl; exact lookup_parent_dir s _ _ _ hl
  have hmk := mkdirAllRev_existing s _ hpar
  constructor
  · rw [uploadTrace_snd P dir key data _ rnd s comps hloc]
    simp only [hmk, hl, compareTrace, hfa, hfd, Bool.not_true, Bool.false_eq_true, if_false, if_true]
    cases (compareFile P d data).2 with
    | none => rfl
    | some b => cases b <;> rfl
  · apply run_inert
    intro e he
    rw [uploadTrace_fst P dir key data _ rnd s comps hloc, hmk] at he
    simp only [List.append_nil, List.mem_append, List.mem_singleton] at he
    rcases he with rfl | he
    · rfl
    · unfold uploadRest at he
      simp only [Bool.not_true, Bool.false_eq_true, if_false, if_true, hl, List.mem_cons, List.mem_append] at he
      rcases he with (rfl | he) | he
      · rfl
      · exact compareTrace_inert P s _ data e he
      · split at he
        · simp at he
        · simp at he; subst he; rfl

/-- **Immutable semantics**, given a read buffer that is never empty: identical bytes succeed,
different bytes fail, and in both cases nothing at all is changed. -/
theorem upload_immutable_existing (P : Program) (hP : P.Progress) (dir : Path) (key data d : Bytes) (rnd : Name) (s : FS)
    (comps : Path) (hloc : localize key = some comps) (hne : dir ++ comps ≠ [])
    (hobj : s.object (dir ++ comps) = some d) :
    (uploadTrace P dir key data { immutable := true } rnd s).2 = (if d = data then .ok else .mismatch) ∧
    run s (uploadTrace P dir key data { immutable := true } rnd s).1 = s := by
  obtain ⟨h1, h2⟩ := upload_immutable_existing_shape P dir key data d rnd s comps hloc hne hobj
  refine ⟨?_, h2⟩
  rw [h1, compareFile_decides P hP]
  by_cases h : d = data <;> simp [h]

/-- **F1**: with the buffer expression as found, `compareFile` never returns for empty data —
whatever the fuel — so an immutable upload of empty bytes over an existing object hangs. -/
theorem compareLoop_empty_data_diverges (file : Bytes) (fuel : Nat) :
    compareLoop (program.bufLen 0) fuel file [] = ([], none) := by
  have : program.bufLen 0 = 0 := by
    simp [Program.bufLen, program, BufExpr.eval]
  rw [this]; exact compareLoop_zero_cap fuel file []

theorem upload_immutable_empty_hangs (dir : Path) (key d : Bytes) (rnd : Name) (s : FS)
    (comps : Path) (hloc : localize key = some comps) (hne : dir ++ comps ≠ [])
    (hobj : s.object (dir ++ comps) = some d) :
    (uploadTrace program dir key [] { immutable := true } rnd s).2 = .hang := by
  rw [(upload_immutable_existing_shape program dir key [] d rnd s comps hloc hne hobj).1]
  simp [compareFile, compareLoop_empty_data_diverges]


/-! ## Keys and confinement -/

theorem splitSlash_ne_nil (k : Bytes) : splitSlash k ≠ [] := by
  induction k with
  | nil => simp [splitSlash]
  | cons b rest ih =>
    simp only [splitSlash]
    split
    · simp
    · split <;> simp

theorem splitSlash_no_slash (k : Bytes) : ∀ c ∈ splitSlash k, slash ∉ c := by
  induction k with
  | nil => simp [splitSlash]
  | cons b rest ih =>
    intro c hc
    simp only [splitSlash] at hc
    split at hc
    · simp only [List.mem_cons] at hc
      rcases hc with rfl | hc
      · simp
      · exact ih c hc
    · rename_i hb
      split at hc
      · rename_i heq; exact absurd heq (splitSlash_ne_nil rest)
      · rename_i e es heq
        simp only [List.mem_cons] at hc
        rcases hc with rfl | hc
        · intro hm
          simp only [List.mem_cons] at hm
          rcases hm with hm | hm
          · exact hb hm.symm
          · exact ih e (by rw [heq]; simp) hm
        · exact ih c (by rw [heq]; simp [hc])

theorem splitSlash_subset (k : Bytes) : ∀ c ∈ splitSlash k, ∀ b ∈ c, b ∈ k := by
  induction k with
  | nil => simp [splitSlash]
  | cons x rest ih =>
    intro c hc b hb
    simp only [splitSlash] at hc
    split at hc
    · simp only [List.mem_cons] at hc
      rcases hc with rfl | hc
      · simp at hb
      · exact List.mem_cons_of_mem _ (ih c hc b hb)
    · split at hc
      · rename_i heq; exact absurd heq (splitSlash_ne_nil rest)
      · rename_i e es heq
        simp only [List.mem_cons] at hc
        rcases hc with rfl | hc
        · simp only [List.mem_cons] at hb
          rcases hb with rfl | hb
          · simp
          · exact List.mem_cons_of_mem _ (ih e (by rw [heq]; simp) b hb)
        · exact List.mem_cons_of_mem _ (ih c (by rw [heq]; simp [hc]) b hb)

/-- What `filepath.Localize` guarantees of an accepted key: every component is a plain name. -/
theorem stdLocalize_components (key : Bytes) (comps : Path) (h : stdLocalize key = some comps) :
    ∀ c ∈ comps, c ≠ [] ∧ c ≠ dot ∧ c ≠ dotdot ∧ slash ∉ c ∧ (0 : UInt8) ∉ c := by
  unfold stdLocalize at h
  split at h
  · rename_i hv
    simp only [Bool.and_eq_true, Bool.not_eq_true', validPath, Bool.or_eq_true, beq_iff_eq] at hv
    obtain ⟨⟨_, hel⟩, hnul⟩ := hv
    simp only [Option.some.injEq] at h
    by_cases hd : key = dot
    · simp [hd] at h; subst h; simp
    · simp only [beq_iff_eq, hd, if_false] at h
      subst h
      have hall : (splitSlash key).all goodElem = true := by
        rcases hel with h | h
        · exact absurd h hd
        · exact h
      intro c hc
      have hg := List.all_eq_true.1 hall c hc
      simp only [goodElem, Bool.and_eq_true, bne_iff_ne, ne_eq] at hg
      refine ⟨hg.1.1, hg.1.2, hg.2, splitSlash_no_slash key c hc, ?_⟩
      intro h0
      have := splitSlash_subset key c hc 0 h0
      have hc0 : key.contains 0 = true := by simpa using this
      rw [hc0] at hnul; cases hnul
  · cases h

theorem stdLocalize_rejects_nul (key : Bytes) (h : (0 : UInt8) ∈ key) : stdLocalize key = none := by
  have : key.contains 0 = true := by simpa using h
  unfold stdLocalize
  rw [this]; simp

theorem stdLocalize_rejects_dotdot (key : Bytes) (h : dotdot ∈ splitSlash key) : stdLocalize key = none := by
  unfold stdLocalize validPath
  have hd : key ≠ dot := by
    intro e; subst e; revert h; decide
  have : (splitSlash key).all goodElem = false := by
    rw [List.all_eq_false]
    exact ⟨dotdot, h, by decide⟩
  simp [hd, this]

theorem stdLocalize_rejects_absolute (rest : Bytes) : stdLocalize (slash :: rest) = none := by
  unfold stdLocalize validPath
  have hd : (slash :: rest) ≠ dot := by
    intro e; simp [dot, slash] at e
  have : (splitSlash (slash :: rest)).all goodElem = false := by
    simp [splitSlash, goodElem]
  simp [hd, this]

theorem stdLocalize_rejects_empty : stdLocalize [] = none := by decide

/-- The helper accepts what `filepath.Localize` accepts, except `"."`: at least one component. -/
theorem localize_some (key : Bytes) (comps : Path) (h : localize key = some comps) :
    stdLocalize key = some comps ∧ comps ≠ [] := by
  unfold localize at h
  cases hs : stdLocalize key with
  | none => simp [hs] at h
  | some c =>
    cases c with
    | nil => simp [hs] at h
    | cons x xs =>
      simp only [hs, Option.some.injEq] at h
      subst h
      exact ⟨rfl, by simp⟩

theorem localize_none_of_std (key : Bytes) (h : stdLocalize key = none) : localize key = none := by
  simp [localize, h]

theorem localize_ne_nil (dir : Path) (key : Bytes) (comps : Path) (h : localize key = some comps) :
    dir ++ comps ≠ [] := by
  have := (localize_some key comps h).2
  intro e
  exact this (List.append_eq_nil_iff.1 e).2

theorem localize_components (key : Bytes) (comps : Path) (h : localize key = some comps) :
    ∀ c ∈ comps, c ≠ [] ∧ c ≠ dot ∧ c ≠ dotdot ∧ slash ∉ c ∧ (0 : UInt8) ∉ c :=
  stdLocalize_components key comps (localize_some key comps h).1

theorem localize_rejects_nul (key : Bytes) (h : (0 : UInt8) ∈ key) : localize key = none :=
  localize_none_of_std key (stdLocalize_rejects_nul key h)

theorem localize_rejects_dotdot (key : Bytes) (h : dotdot ∈ splitSlash key) : localize key = none :=
  localize_none_of_std key (stdLocalize_rejects_dotdot key h)

theorem localize_rejects_absolute (rest : Bytes) : localize (slash :: rest) = none :=
  localize_none_of_std _ (stdLocalize_rejects_absolute rest)

theorem localize_rejects_empty : localize [] = none := by decide

/-- The key `"."` (which `filepath.Localize` alone accepts, as the directory itself) is refused. -/
theorem localize_rejects_dot : stdLocalize dot = some [] ∧ localize dot = none := by decide

theorem upload_rejected (P : Program) (dir : Path) (key data : Bytes) (o : Opts) (rnd : Name) (s : FS)
    (h : localize key = none) : uploadTrace P dir key data o rnd s = ([], .invalidKey) := by
  simp [uploadTrace, h]

theorem fetch_rejected (dir : Path) (key : Bytes) (s : FS) (h : localize key = none) :
    fetchTrace dir key s = ([], .invalidKey, none) := by
  simp [fetchTrace, h]

theorem discard_rejected (dir : Path) (key : Bytes) (s : FS) (h : localize key = none) :
    discardTrace dir key s = ([], .invalidKey) := by
  simp [discardTrace, h]


theorem within_refl (dir : Path) : Within dir dir := List.prefix_refl dir
theorem within_append (dir q : Path) : Within dir (dir ++ q) := List.prefix_append dir q
theorem within_append2 (dir q r : Path) : Within dir (dir ++ q ++ r) := by
  rw [List.append_assoc]; exact List.prefix_append dir _

theorem mkdirTrace_paths (p : Path) : ∀ e ∈ mkdirTrace p, ∀ x ∈ e.paths, x = p ∨ x = parentOf p := by
  rw [mkdirTrace_eq]
  intro e he x hx
  simp only [List.mem_cons, List.mem_nil_iff, or_false] at he
  rcases he with rfl | rfl | rfl | rfl | rfl | rfl | rfl <;> simp [Sys.paths] at hx <;> simp [hx]

/-- `MkdirAll` of a directory below `dir` names only paths at or below `dir`, provided `dir` exists. -/
theorem mkdirAllRev_within (s : FS) (dir : Path) (hdir : s.lookup dir = some .dir) : ∀ (rq : List Name),
    ∀ e ∈ (mkdirAllRev s (rq ++ dir.reverse)).1 ++ (mkdirAllRev s (rq ++ dir.reverse)).2.1,
    ∀ x ∈ e.paths, Within dir x := by
  intro rq
  induction rq with
  | nil =>
    have := mkdirAllRev_existing s dir hdir
    simp only [List.nil_append, this]
    intro e he x hx
    simp at he; subst he
    simp [Sys.paths] at hx; rw [hx]
    exact within_refl dir
  | cons n rq ih =>
    intro e he x hx
    have hp : (n :: (rq ++ dir.reverse)).reverse = dir ++ rq.reverse ++ [n] := by simp
    simp only [List.cons_append, mkdirAllRev, hp] at he
    cases hl : s.lookup (dir ++ rq.reverse ++ [n]) with
    | some nd =>
      cases nd <;> (simp only [hl, List.append_nil, List.mem_singleton] at he; subst he;
                    simp [Sys.paths] at hx; rw [hx]; exact within_append dir _)
    | none =>
      simp only [hl, List.mem_append, List.mem_cons] at he
      rcases he with (rfl | he) | he
      · simp [Sys.paths] at hx; rw [hx]; exact within_append dir _
      · exact ih e (List.mem_append.2 (Or.inl he)) x hx
      · split at he
        · rcases List.mem_append.1 he with he | he
          · exact ih e (List.mem_append.2 (Or.inr he)) x hx
          · rcases mkdirTrace_paths _ e he x hx with rfl | rfl
            · exact within_append2 dir _ _
            · rw [parentOf_concat]; exact within_append dir _
        · exact ih e (List.mem_append.2 (Or.inr he)) x hx

theorem writeFileTrace_paths (s : FS) (par : Path) (base : Name) (data : Bytes) (perm : Nat) (rnd : Name) :
    ∀ e ∈ (writeFileTrace s (par ++ [base]) data perm rnd).1, ∀ x ∈ e.paths,
      x = par ∨ x = par ++ [base] ∨ x = par ++ [tmpName base rnd] := by
  rw [writeFileTrace_eq]
  intro e he x hx
  simp only [List.mem_append, List.mem_cons, List.mem_nil_iff, or_false] at he
  rcases he with he | he
  · rcases he with rfl | rfl | rfl | rfl | rfl | rfl <;> simp [Sys.paths] at hx <;> simp [hx]
  · cases ho : renameOutcome s (par ++ [base]) <;> rw [ho] at he <;> simp at he <;>
      rcases he with rfl | rfl | rfl | rfl <;> simp only [Sys.paths, List.mem_cons, List.mem_nil_iff, or_false] at hx <;>
      first
        | (rcases hx with hx | hx <;> simp [hx])
        | simp [hx]

theorem compareTrace_paths (P : Program) (s : FS) (path : Path) (data : Bytes) :
    ∀ e ∈ (compareTrace P s path data).1, ∀ x ∈ e.paths, x = path := by
  intro e he x hx
  unfold compareTrace at he
  cases hf : s.fileAt path with
  | none =>
    simp only [hf, List.mem_singleton] at he; subst he; simpa [Sys.paths] using hx
  | some f =>
    simp only [hf, List.mem_map] at he
    obtain ⟨y, _, rfl⟩ := he
    simpa [Sys.paths] using hx

/-- **Confinement of `Upload`**: for an accepted key other than `"."`, every path named by any
system call is the backend directory or lies below it. -/
theorem upload_confined (P : Program) (dir : Path) (key data : Bytes) (o : Opts) (rnd : Name) (s : FS) (comps : Path)
    (hloc : localize key = some comps) (hne : comps ≠ []) (hdir : s.lookup dir = some .dir) :
    ∀ e ∈ (uploadTrace P dir key data o rnd s).1, ∀ x ∈ e.paths, Within dir x := by
  rcases List.eq_nil_or_concat comps with h0 | ⟨q, n, rfl⟩
  · exact absurd h0 hne
  · simp only [List.concat_eq_append] at hloc ⊢
    have hpath : dir ++ (q ++ [n]) = (dir ++ q) ++ [n] := by simp
    intro e he x hx
    rw [uploadTrace_fst P dir key data o rnd s _ hloc, hpath, parentOf_concat] at he
    rcases List.mem_append.1 he with he | he
    · have := mkdirAllRev_within s dir hdir q.reverse e (by simpa using he) x hx
      exact this
    · rcases mem_uploadRest P _ data o rnd s _ e he with ⟨b, rfl⟩ | rfl | rfl | h | ⟨perm, h⟩
      · simp [Sys.paths] at hx; rw [hx]; exact within_append dir _
      · simp [Sys.paths] at hx; rw [hx]; exact within_append dir _
      · simp [Sys.paths] at hx; rw [hx]; exact within_append dir _
      · rw [compareTrace_paths P s _ data e h x hx]; exact within_append2 dir _ _
      · rcases writeFileTrace_paths s _ n data perm rnd e h x hx with rfl | rfl | rfl
        · exact within_append dir _
        · exact within_append2 dir _ _
        · exact within_append2 dir _ _

theorem fetch_confined (dir : Path) (key : Bytes) (s : FS) (comps : Path) (hloc : localize key = some comps) :
    ∀ e ∈ (fetchTrace dir key s).1, ∀ x ∈ e.paths, Within dir x := by
  intro e he x hx
  have hall : ∀ y ∈ e.paths, y = dir ++ comps := by
    unfold fetchTrace at he
    cases hl : s.lookup (dir ++ comps) with
    | none => simp [hloc, hl] at he; subst he; simp [Sys.paths]
    | some nd =>
      cases nd <;> simp [hloc, hl] at he <;> rcases he with rfl | rfl | rfl <;> simp [Sys.paths]
  rw [hall x hx]; exact within_append dir _

theorem discard_confined (dir : Path) (key : Bytes) (s : FS) (comps : Path) (hloc : localize key = some comps) :
    ∀ e ∈ (discardTrace dir key s).1, ∀ x ∈ e.paths, Within dir x := by
  intro e he x hx
  have hall : ∀ y ∈ e.paths, y = dir ++ comps := by
    unfold discardTrace at he
    cases hl : s.lookup (dir ++ comps) with
    | none => simp [hloc, hl] at he; subst he; simp [Sys.paths]
    | some nd =>
      cases nd <;> simp [hloc, hl] at he <;> rcases he with rfl | rfl | rfl | rfl | rfl <;> simp [Sys.paths]
  rw [hall x hx]; exact within_append dir _


/-! ## The reachable-state invariant -/

/-- Directory entries (durable or pending) have records, inode numbers in entries are below `next`. -/
structure Inv (s : FS) : Prop where
  root : s.dirs [] ≠ none
  dirRec : ∀ a d n, s.dirs a = some d → some Node.dir ∈ cands d n → s.dirs (a ++ [n]) ≠ none
  inoLt : ∀ a d n i, s.dirs a = some d → some (Node.file i) ∈ cands d n → i < s.next

theorem Inv.wf {s : FS} (h : Inv s) : WF s :=
  ⟨h.root, fun a d n hd hn => h.dirRec a d n hd (by simp [cands, hn])⟩

theorem Inv.fresh {s : FS} (h : Inv s) : FreshInodes s :=
  fun p d n i hd hn => h.inoLt p d n i hd (by simp [cands, hn])

theorem cands_crashDir (mask : List Bool) (d : Dir) (n : Name) :
    ∀ x ∈ cands (crashDir mask d) n, x ∈ cands d n := by
  intro x hx
  simp only [cands, crashDir, List.filter_nil, List.map_nil, List.mem_singleton] at hx
  subst hx
  exact applyMask_mem n _ _ _

theorem Inv.crash {s : FS} (h : Inv s) (c : CrashChoice) : Inv (crash c s) := by
  refine ⟨?_, ?_, ?_⟩
  · simp only [crash_dirs]
    cases hr : s.dirs [] with
    | none => exact absurd hr h.root
    | some d => simp
  · intro a d' n hd' hm
    simp only [crash_dirs] at hd' ⊢
    cases hd : s.dirs a with
    | none => simp [hd] at hd'
    | some d =>
      simp only [hd, Option.map_some, Option.some.injEq] at hd'
      subst hd'
      have := h.dirRec a d n hd (cands_crashDir _ d n _ hm)
      cases hr : s.dirs (a ++ [n]) with
      | none => exact absurd hr this
      | some d2 => simp
  · intro a d' n i hd' hm
    simp only [crash_dirs] at hd'
    cases hd : s.dirs a with
    | none => simp [hd] at hd'
    | some d =>
      simp only [hd, Option.map_some, Option.some.injEq] at hd'
      subst hd'
      exact h.inoLt a d n i hd (cands_crashDir _ d n _ hm)

theorem cands_append_pending (d : Dir) (c : Change) (n : Name) :
    cands { d with pending := d.pending ++ [c] } n = cands d n ++ (if c.1 = n then [c.2] else []) := by
  simp only [cands, List.filter_append, List.map_append, List.cons_append]
  by_cases h : c.1 = n <;> simp [h]

/-- Recording a pending change keeps the invariant if the new value is harmless. -/
theorem Inv.change {s : FS} (h : Inv s) (p : Path) (c : Change)
    (hdir : c.2 = some .dir → s.dirs (p ++ [c.1]) ≠ none)
    (hfile : ∀ i, c.2 = some (.file i) → i < s.next) : Inv (s.change p c) := by
  unfold FS.change
  cases hd : s.dirs p with
  | none => exact h
  | some d =>
    simp only
    have hdirs : ∀ q, (s.setDir p { d with pending := d.pending ++ [c] }).dirs q =
        if q = p then some { d with pending := d.pending ++ [c] } else s.dirs q := fun q => rfl
    have hne : ∀ q, s.dirs q ≠ none → (s.setDir p { d with pending := d.pending ++ [c] }).dirs q ≠ none := by
      intro q hq; rw [hdirs]; split <;> simp [hq]
    refine ⟨hne _ h.root, ?_, ?_⟩
    · intro a d' n hd' hm
      rw [hdirs] at hd'
      apply hne
      split at hd'
      · rename_i hap
        simp only [Option.some.injEq] at hd'
        subst hd'; subst hap
        rw [cands_append_pending] at hm
        rcases List.mem_append.1 hm with hm | hm
        · exact h.dirRec a d n hd hm
        · split at hm
          · rename_i hcn
            simp only [List.mem_singleton] at hm
            rw [← hcn]; exact hdir hm.symm
          · simp at hm
      · exact h.dirRec a d' n hd' hm
    · intro a d' n i hd' hm
      rw [hdirs] at hd'
      show i < s.next
      split at hd'
      · rename_i hap
        simp only [Option.some.injEq] at hd'
        subst hd'; subst hap
        rw [cands_append_pending] at hm
        rcases List.mem_append.1 hm with hm | hm
        · exact h.inoLt a d n i hd hm
        · split at hm
          · simp only [List.mem_singleton] at hm
            exact hfile i hm.symm
          · simp at hm
      · exact h.inoLt a d' n i hd' hm


theorem Inv.of_dirs_eq {s t : FS} (h : Inv s) (hd : t.dirs = s.dirs) (hn : s.next ≤ t.next) : Inv t := by
  refine ⟨by rw [hd]; exact h.root, ?_, ?_⟩
  · intro a d n hda hm; rw [hd] at hda ⊢; exact h.dirRec a d n hda hm
  · intro a d n i hda hm; rw [hd] at hda; exact Nat.lt_of_lt_of_le (h.inoLt a d n i hda hm) hn

theorem Inv.modFile {s : FS} (h : Inv s) (i : Nat) (g : File → File) : Inv (s.modFile i g) := by
  unfold FS.modFile
  cases s.files i with
  | none => exact h
  | some f => exact h.of_dirs_eq rfl (Nat.le_refl _)

theorem Inv.fsyncDir {s : FS} (h : Inv s) (p : Path) : Inv (step s (.fsyncDir p)) := by
  simp only [step]
  cases hd : s.dirs p with
  | none => exact h
  | some d =>
    simp only
    have hdirs : ∀ q, (s.setDir p { durable := d.vol, pending := [] }).dirs q =
        if q = p then some { durable := d.vol, pending := [] } else s.dirs q := fun q => rfl
    have hne : ∀ q, s.dirs q ≠ none → (s.setDir p { durable := d.vol, pending := [] }).dirs q ≠ none := by
      intro q hq; rw [hdirs]; split <;> simp [hq]
    have hc : ∀ n x, x ∈ cands { durable := d.vol, pending := [] } n → x ∈ cands d n := by
      intro n x hx
      simp only [cands, List.filter_nil, List.map_nil, List.mem_singleton] at hx
      subst hx; exact vol_mem_cands d n
    refine ⟨hne _ h.root, ?_, ?_⟩
    · intro a d' n hd' hm
      rw [hdirs] at hd'
      apply hne
      split at hd'
      · rename_i hap
        simp only [Option.some.injEq] at hd'
        subst hd'; subst hap
        exact h.dirRec a d n hd (hc n _ hm)
      · exact h.dirRec a d' n hd' hm
    · intro a d' n i hd' hm
      rw [hdirs] at hd'
      show i < s.next
      split at hd'
      · rename_i hap
        simp only [Option.some.injEq] at hd'
        subst hd'; subst hap
        exact h.inoLt a d n i hd (hc n _ hm)
      · exact h.inoLt a d' n i hd' hm

theorem Inv.mkdir {s : FS} (h : Inv s) (p : Path) (hp : p ≠ []) : Inv (step s (.mkdir p)) := by
  simp only [step]
  have h1 : Inv (s.setDir p Dir.empty) := by
    have hdirs : ∀ q, (s.setDir p Dir.empty).dirs q = if q = p then some Dir.empty else s.dirs q := fun q => rfl
    have hne : ∀ q, s.dirs q ≠ none → (s.setDir p Dir.empty).dirs q ≠ none := by
      intro q hq; rw [hdirs]; split <;> simp [hq]
    refine ⟨hne _ h.root, ?_, ?_⟩
    · intro a d' n hd' hm
      rw [hdirs] at hd'
      split at hd'
      · simp only [Option.some.injEq] at hd'
        subst hd'
        simp [cands, Dir.empty] at hm
      · exact hne _ (h.dirRec a d' n hd' hm)
    · intro a d' n i hd' hm
      rw [hdirs] at hd'
      show i < s.next
      split at hd'
      · simp only [Option.some.injEq] at hd'
        subst hd'
        simp [cands, Dir.empty] at hm
      · exact h.inoLt a d' n i hd' hm
  apply h1.change
  · intro _
    rw [← path_split p hp]
    simp [FS.setDir]
  · intro i hi; cases hi

theorem change_next (s : FS) (p : Path) (c : Change) : (s.change p c).next = s.next := by
  unfold FS.change; cases s.dirs p <;> rfl

theorem Inv.creat {s : FS} (h : Inv s) (p : Path) (i : Nat) : Inv (step s (.creat p i)) := by
  simp only [step]
  -- bump `next` first, then record the entry
  let s1 : FS := { s with files := (s.setFile i { data := [], synced := false, mode := 0o600, immutable := false }).files,
                          next := Nat.max s.next (i + 1) }
  have h1 : Inv s1 := h.of_dirs_eq rfl (Nat.le_max_left _ _)
  have h2 : Inv (s1.change (parentOf p) (baseOf p, some (.file i))) := by
    apply h1.change
    · intro hc; cases hc
    · intro j hj
      simp only [Option.some.injEq, Node.file.injEq] at hj
      subst hj
      exact Nat.lt_of_lt_of_le (Nat.lt_succ_self _) (Nat.le_max_right _ _)
  refine h2.of_dirs_eq ?_ ?_
  · simp only [s1, FS.change, FS.setFile]
    cases s.dirs (parentOf p) <;> rfl
  · simp only [s1, change_next]; exact Nat.le_refl _

/-- A checker for "this trace keeps the invariant": `lb` is a lower bound of `next`. -/
def okFrom (lb : Nat) : List Sys → Bool
  | [] => true
  | .creat _ i :: tr => okFrom (Nat.max lb (i + 1)) tr
  | .rename _ _ (.file i) true :: tr => decide (i < lb) && okFrom lb tr
  | .rename _ _ .dir true :: _ => false
  | .mkdir p :: tr => !p.isEmpty && okFrom lb tr
  | _ :: tr => okFrom lb tr

theorem modFile_next (s : FS) (i : Nat) (g : File → File) : (s.modFile i g).next = s.next := by
  unfold FS.modFile; cases s.files i <;> rfl

theorem step_next_le (s : FS) (e : Sys) : s.next ≤ (step s e).next := by
  cases e with
  | rename a b nd ok =>
    cases ok
    · exact Nat.le_refl _
    · simp only [step, change_next]; exact Nat.le_refl _
  | rmdir p ok =>
    cases ok
    · exact Nat.le_refl _
    · simp only [step, change_next]; exact Nat.le_refl _
  | mkdir p => simp only [step, change_next]; exact Nat.le_refl _
  | unlink p => simp only [step, change_next]; exact Nat.le_refl _
  | fsyncDir p => simp only [step]; split <;> exact Nat.le_refl _
  | creat p i => simp only [step]; exact Nat.le_max_left _ _
  | fchmod p i m => simp only [step, modFile_next]; exact Nat.le_refl _
  | write p i d => simp only [step, modFile_next]; exact Nat.le_refl _
  | fsync p i => simp only [step, modFile_next]; exact Nat.le_refl _
  | setImmutable p i on => simp only [step, modFile_next]; exact Nat.le_refl _
  | _ => exact Nat.le_refl _

theorem step_creat_next (s : FS) (p : Path) (i : Nat) : (step s (.creat p i)).next = Nat.max s.next (i + 1) := rfl

/-- One step keeps the invariant when the checker accepts it. -/
theorem Inv.step {s : FS} (h : Inv s) (e : Sys) (lb : Nat) (hlb : lb ≤ s.next) (tr : List Sys)
    (hok : okFrom lb (e :: tr) = true) :
    Inv (LocalFS.step s e) ∧ ∃ lb', lb' ≤ (LocalFS.step s e).next ∧ okFrom lb' tr = true := by
  cases e with
  | creat p i =>
    exact ⟨h.creat p i, Nat.max lb (i + 1), by
      rw [step_creat_next]
      exact Nat.max_le.2 ⟨Nat.le_trans hlb (Nat.le_max_left _ _), Nat.le_max_right _ _⟩, by simpa [okFrom] using hok⟩
  | mkdir p =>
    simp only [okFrom, Bool.and_eq_true, Bool.not_eq_true', List.isEmpty_eq_false_iff] at hok
    exact ⟨h.mkdir p hok.1, lb, Nat.le_trans hlb (step_next_le _ _), hok.2⟩
  | fsyncDir p => exact ⟨h.fsyncDir p, lb, Nat.le_trans hlb (step_next_le _ _), by simpa [okFrom] using hok⟩
  | rename a b nd ok =>
    cases ok with
    | false => exact ⟨h, lb, hlb, by simpa [okFrom] using hok⟩
    | true =>
      cases nd with
      | dir => simp [okFrom] at hok
      | file i =>
        simp only [okFrom, Bool.and_eq_true, decide_eq_true_eq] at hok
        refine ⟨?_, lb, Nat.le_trans hlb (step_next_le _ _), hok.2⟩
        simp only [LocalFS.step]
        apply Inv.change
        · apply Inv.change h
          · intro hc; cases hc
          · intro j hj
            simp only [Option.some.injEq, Node.file.injEq] at hj
            subst hj; exact Nat.lt_of_lt_of_le hok.1 hlb
        · intro hc; cases hc
        · intro j hj; cases hj
  | unlink p =>
    refine ⟨?_, lb, Nat.le_trans hlb (step_next_le _ _), by simpa [okFrom] using hok⟩
    simp only [LocalFS.step]
    exact h.change _ _ (by intro hc; cases hc) (by intro j hj; cases hj)
  | rmdir p ok =>
    cases ok with
    | false => exact ⟨h, lb, hlb, by simpa [okFrom] using hok⟩
    | true =>
      refine ⟨?_, lb, Nat.le_trans hlb (step_next_le _ _), by simpa [okFrom] using hok⟩
      simp only [LocalFS.step]
      exact h.change _ _ (by intro hc; cases hc) (by intro j hj; cases hj)
  | fchmod p i m => exact ⟨h.modFile _ _, lb, Nat.le_trans hlb (step_next_le _ _), by simpa [okFrom] using hok⟩
  | write p i d => exact ⟨h.modFile _ _, lb, Nat.le_trans hlb (step_next_le _ _), by simpa [okFrom] using hok⟩
  | fsync p i => exact ⟨h.modFile _ _, lb, Nat.le_trans hlb (step_next_le _ _), by simpa [okFrom] using hok⟩
  | setImmutable p i on => exact ⟨h.modFile _ _, lb, Nat.le_trans hlb (step_next_le _ _), by simpa [okFrom] using hok⟩
  | stat p f => exact ⟨h, lb, hlb, by simpa [okFrom] using hok⟩
  | openDir p => exact ⟨h, lb, hlb, by simpa [okFrom] using hok⟩
  | closeDir p => exact ⟨h, lb, hlb, by simpa [okFrom] using hok⟩
  | openRd p ok => exact ⟨h, lb, hlb, by simpa [okFrom] using hok⟩
  | read p c n => exact ⟨h, lb, hlb, by simpa [okFrom] using hok⟩
  | readDir p => exact ⟨h, lb, hlb, by simpa [okFrom] using hok⟩
  | closeRd p => exact ⟨h, lb, hlb, by simpa [okFrom] using hok⟩
  | close p => exact ⟨h, lb, hlb, by simpa [okFrom] using hok⟩
  | lstat p f => exact ⟨h, lb, hlb, by simpa [okFrom] using hok⟩
  | unlinkFail p => exact ⟨h, lb, hlb, by simpa [okFrom] using hok⟩
  | setFlagsDir p => exact ⟨h, lb, hlb, by simpa [okFrom] using hok⟩

/-- Every prefix of an accepted trace keeps the invariant. -/
theorem Inv.run_take {s : FS} (h : Inv s) : ∀ (tr : List Sys) (lb : Nat), lb ≤ s.next → okFrom lb tr = true →
    ∀ k, Inv (run s (tr.take k)) := by
  intro tr
  induction tr generalizing s with
  | nil => intro lb _ _ k; simpa using h
  | cons e tr ih =>
    intro lb hlb hok k
    cases k with
    | zero => simpa using h
    | succ k =>
      obtain ⟨h', lb', hlb', hok'⟩ := h.step e lb hlb tr hok
      simpa using ih h' lb' hlb' hok' k


def Sys.harmless : Sys → Bool
  | .creat _ _ => false
  | .rename _ _ _ true => false
  | .mkdir p => !p.isEmpty
  | _ => true

theorem okFrom_append_harmless (lb : Nat) (B : List Sys) : ∀ (A : List Sys), (∀ e ∈ A, e.harmless = true) →
    okFrom lb (A ++ B) = okFrom lb B := by
  intro A
  induction A with
  | nil => intro _; rfl
  | cons e A ih =>
    intro h
    have he := h e (by simp)
    have ih' := ih (fun x hx => h x (by simp [hx]))
    cases e <;> simp_all [okFrom, Sys.harmless]
    all_goals (rename_i b; cases b <;> simp_all [okFrom, Sys.harmless])

theorem mkdirTrace_harmless (p : Path) (hp : p ≠ []) : ∀ e ∈ mkdirTrace p, e.harmless = true := by
  rw [mkdirTrace_eq]
  intro e he
  simp only [List.mem_cons, List.mem_nil_iff, or_false] at he
  rcases he with rfl | rfl | rfl | rfl | rfl | rfl | rfl <;> simp [Sys.harmless, hp]

theorem mkdirAllRev_harmless (s : FS) : ∀ rp, ∀ e ∈ (mkdirAllRev s rp).1 ++ (mkdirAllRev s rp).2.1, e.harmless = true := by
  intro rp
  induction rp with
  | nil => simp [mkdirAllRev, Sys.harmless]
  | cons n rq ih =>
    intro e he
    simp only [mkdirAllRev] at he
    split at he
    · simp at he; subst he; rfl
    · simp at he; subst he; rfl
    · simp only [List.mem_append, List.mem_cons] at he
      rcases he with (rfl | he) | he
      · rfl
      · exact ih e (List.mem_append.2 (Or.inl he))
      · split at he
        · rcases List.mem_append.1 he with he | he
          · exact ih e (List.mem_append.2 (Or.inr he))
          · exact mkdirTrace_harmless _ (by simp) e he
        · exact ih e (List.mem_append.2 (Or.inr he))

theorem okFrom_writeFileTrace (s : FS) (path : Path) (data : Bytes) (perm : Nat) (rnd : Name) (tail : List Sys)
    (ht : ∀ e ∈ tail, e.harmless = true) :
    okFrom s.next ((writeFileTrace s path data perm rnd).1 ++ tail) = true := by
  have htail : ∀ lb, okFrom lb tail = true := by
    intro lb
    have := okFrom_append_harmless lb [] tail ht
    simpa [okFrom] using this
  simp only [writeFileTrace, execOrder, writeFileProgram]
  cases renameOutcome s path <;>
    simp [effSys, RenameOutcome.failed, okFrom, htail, Nat.lt_succ_self]

theorem compareTrace_harmless (P : Program) (s : FS) (path : Path) (data : Bytes) :
    ∀ e ∈ (compareTrace P s path data).1, e.harmless = true := by
  intro e he
  unfold compareTrace at he
  cases hf : s.fileAt path with
  | none => simp only [hf, List.mem_singleton] at he; subst he; rfl
  | some f =>
    simp only [hf, List.mem_map] at he
    obtain ⟨y, _, rfl⟩ := he
    rfl

theorem okFrom_uploadTrace (P : Program) (dir : Path) (key data : Bytes) (o : Opts) (rnd : Name) (s : FS) :
    okFrom s.next (uploadTrace P dir key data o rnd s).1 = true := by
  cases hloc : localize key with
  | none => simp [uploadTrace, hloc, okFrom]
  | some comps =>
    rw [uploadTrace_fst P dir key data o rnd s comps hloc, okFrom_append_harmless _ _ _ (mkdirAllRev_harmless s _)]
    unfold uploadRest
    by_cases hok : (mkdirAllRev s (parentOf (dir ++ comps)).reverse).2.2 = true
    · by_cases himm : o.immutable = true
      · cases hl : s.lookup (dir ++ comps) with
        | none =>
          simp only [hok, himm, hl, Bool.not_true, Bool.false_eq_true, if_false, if_true]
          have := okFrom_writeFileTrace s (dir ++ comps) data modeImmutable rnd
            (if (writeFileTrace s (dir ++ comps) data modeImmutable rnd).2 = .ok then
              [.openRd (dir ++ comps) true, .setImmutable (dir ++ comps) s.next true, .closeRd (dir ++ comps)] else [])
            (by intro e he; split at he <;> simp at he; rcases he with rfl | rfl | rfl <;> rfl)
          simpa [okFrom] using this
        | some nd =>
          simp only [hok, himm, hl, Bool.not_true, Bool.false_eq_true, if_false, if_true]
          have := okFrom_append_harmless s.next [] (Sys.openRd (dir ++ comps) true :: (compareTrace P s (dir ++ comps) data).1 ++
            (if (compareTrace P s (dir ++ comps) data).2 = .hang then [] else [.closeRd (dir ++ comps)])) (by
              intro e he
              simp only [List.mem_append, List.mem_cons] at he
              rcases he with (rfl | he) | he
              · rfl
              · exact compareTrace_harmless P s _ data e he
              · split at he <;> simp at he; subst he; rfl)
          simpa [okFrom] using this
      · simp only [hok, himm, Bool.not_true, Bool.false_eq_true, if_false]
        have := okFrom_writeFileTrace s (dir ++ comps) data modeDefault rnd [] (by simp)
        simpa using this
    · simp [hok, okFrom]

/-- The invariant holds in every state an upload goes through. -/
theorem upload_inv (P : Program) (dir : Path) (key data : Bytes) (o : Opts) (rnd : Name) (s : FS) (h : Inv s) (k : Nat) :
    Inv (run s ((uploadTrace P dir key data o rnd s).1.take k)) :=
  h.run_take _ s.next (Nat.le_refl _) (okFrom_uploadTrace P dir key data o rnd s) k

end LocalFS
