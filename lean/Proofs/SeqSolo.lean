import Proofs.SeqRecover2
/-! One live process at a time. C03's own quantifier is a single process dying and restarting: runs in
which at most one instance is not `down` at any moment (`ReachableSolo`). In such runs the proviso of
`recover_run_partial` is an invariant (`SoloInv.cks`): the checkpoint object has the lock
checkpoint's leaves, or the lock tree's bundle is still staged — a bundle is discarded only by the
process that has just published its tree, and nobody else can overwrite the checkpoint object in
between. Hence every crash state of such a run is recoverable (`recover_run_solo`). Core Lean only. -/
namespace Seq

/-- at most one instance is running (not `down`) -/
def Solo (s : Sys) : Prop := ∀ i j, (s.insts i).phase ≠ .down → (s.insts j).phase ≠ .down → i = j

/-- reachable by a run all of whose states are `Solo` -/
inductive ReachableSolo : Sys → Prop
  | init (p : Nat) : ReachableSolo (init p)
  | step {s s' : Sys} {e : Ev} : ReachableSolo s → Seq.step s e = some s' → Solo s' → ReachableSolo s'

theorem solo_init (p : Nat) : Solo (init p) := fun i _ hi _ => absurd rfl hi

theorem ReachableSolo.solo {s : Sys} (r : ReachableSolo s) : Solo s := by
  cases r with
  | init p => exact solo_init p
  | step _ _ hs => exact hs

theorem ReachableSolo.reachable {s : Sys} (r : ReachableSolo s) : Reachable s := by
  induction r with
  | init p => exact ⟨p, [], rfl⟩
  | step _ h _ ih => exact ih.step h

/-- per-instance facts that hold while no other process interferes -/
def SoloOK (s : Sys) (x : Inst) : Prop :=
  match x.phase with
  | .creating (.ckptUpload c) => s.lock = some c
  | .round rd => (match rd.pc with
     | .cas => rd.new.leaves = x.tree.leaves ∨ Staged s.store rd.new.leaves
     | .tiles _ _ => s.lock = some x.tree
     | .ckpt => s.lock = some x.tree
     | .discard => s.store .ckpt = some (.ck rd.new, false)
     | _ => True)
  | _ => True


macro "solo_brute" h:ident : tactic => `(tactic|
  (simp only [step] at $h:ident <;> (repeat' split at $h:ident) <;>
    (first | cases $h:ident | skip) <;> (try (injection $h:ident with $h:ident; subst $h:ident)) <;>
    simp_all [Sys.setInst, upd, SoloOK, leavesOf]))




/-- `SoloOK` only looks at the instance's phase and tree, the lock, the checkpoint object and staged bundles -/
theorem soloOK_congr {s s' : Sys} {x x' : Inst} (hp : x'.phase = x.phase) (ht : x'.tree = x.tree)
    (hl : s'.lock = s.lock) (f3 : ∀ tr, Staged s.store tr → Staged s'.store tr)
    (hck : s'.store .ckpt = s.store .ckpt) (h : SoloOK s x) : SoloOK s' x' := by
  unfold SoloOK at *
  rw [hp]
  cases hph : x.phase with
  | creating pc => cases pc <;> simp_all
  | round rd =>
    simp only [hph] at h ⊢
    cases hpc : rd.pc <;> simp_all
    rcases h with h | h
    · exact Or.inl h
    · exact Or.inr (f3 _ h)
  | _ => simp_all

theorem upload_issuer_frame (s s' : Sys) (i id : Nat) (imm : Bool) (o : Obj) (r : Res)
    (h : step s (.upload i (.issuer id) imm o r) = some s') :
    (s'.insts i).phase = (s.insts i).phase ∧ (s'.insts i).tree = (s.insts i).tree ∧ s'.lock = s.lock := by
  simp only [step] at h
  repeat' split at h
  all_goals (first | cases h | skip)
  all_goals (try (injection h with h; subst h))
  all_goals simp_all [Sys.setInst, upd]

theorem solo_upload (s s' : Sys) {i k imm o r : _} (_hi : SoloOK s (s.insts i))
    (h : step s (.upload i k imm o r) = some s') : SoloOK s' (s'.insts i) := by
  have hup := (upload_store s s' i k imm o r h).1
  have f1 : r.applied = true → s'.store k = some (o, imm) := storeUpload_at hup
  have f2 : ∀ k', k' ≠ k → s'.store k' = s.store k' := fun k' hk => storeUpload_other hup hk
  have f3 : ∀ tr, Staged s.store tr → Staged s'.store tr := by
    intro tr
    refine Staged.upload hup ?_
    intro hk
    obtain ⟨rd, items, _, _, _, ho, _, _⟩ := upload_staging_facts s s' i k tr imm o r hk h
    exact ⟨items, ho⟩
  cases k
  case issuer id =>
    obtain ⟨a, b, c⟩ := upload_issuer_frame s s' i id imm o r h
    exact soloOK_congr a b c f3 (f2 _ (by simp)) _hi
  all_goals
   (simp only [step] at h
    split at h
    · cases h
    · repeat' split at h
      all_goals (first | cases h | skip)
      all_goals (try (injection h with h; subst h))
      all_goals (simp_all [Sys.setInst, upd, SoloOK, Res.applied])
      all_goals (exact Or.inr ⟨_, _, f1⟩))

theorem solo_launchCreate (s s' : Sys) {i : _} (_hi : SoloOK s (s.insts i))
    (h : step s (.launchCreate i) = some s') : SoloOK s' (s'.insts i) := by
  solo_brute h
theorem solo_launchLoad (s s' : Sys) {i : _} (_hi : SoloOK s (s.insts i))
    (h : step s (.launchLoad i) = some s') : SoloOK s' (s'.insts i) := by
  solo_brute h
theorem solo_launchRound (s s' : Sys) {i : _} (_hi : SoloOK s (s.insts i))
    (h : step s (.launchRound i) = some s') : SoloOK s' (s'.insts i) := by
  solo_brute h
theorem solo_launchSubmit (s s' : Sys) {i : _} (_hi : SoloOK s (s.insts i))
    (h : step s (.launchSubmit i) = some s') : SoloOK s' (s'.insts i) := by
  solo_brute h
theorem solo_config (s s' : Sys) {i bad : _} (_hi : SoloOK s (s.insts i))
    (h : step s (.config i bad) = some s') : SoloOK s' (s'.insts i) := by
  solo_brute h
theorem solo_clock (s s' : Sys) {i v : _} (_hi : SoloOK s (s.insts i))
    (h : step s (.clock i v) = some s') : SoloOK s' (s'.insts i) := by
  solo_brute h
theorem solo_lockFetch (s s' : Sys) {i r : _} (_hi : SoloOK s (s.insts i))
    (h : step s (.lockFetch i r) = some s') : SoloOK s' (s'.insts i) := by
  solo_brute h
theorem solo_lockCreate (s s' : Sys) {i c r : _} (_hi : SoloOK s (s.insts i))
    (h : step s (.lockCreate i c r) = some s') : SoloOK s' (s'.insts i) := by
  solo_brute h
theorem solo_lockReplace (s s' : Sys) {i old new r : _} (_hi : SoloOK s (s.insts i))
    (h : step s (.lockReplace i old new r) = some s') : SoloOK s' (s'.insts i) := by
  solo_brute h
theorem solo_fetch (s s' : Sys) {i k r : _} (_hi : SoloOK s (s.insts i))
    (h : step s (.fetch i k r) = some s') : SoloOK s' (s'.insts i) := by
  solo_brute h
theorem solo_discard (s s' : Sys) {i k r : _} (_hi : SoloOK s (s.insts i))
    (h : step s (.discard i k r) = some s') : SoloOK s' (s'.insts i) := by
  solo_brute h
theorem solo_submitted (s s' : Sys) {i eid key low iss src : _} (_hi : SoloOK s (s.insts i))
    (h : step s (.submitted i eid key low iss src) = some s') : SoloOK s' (s'.insts i) := by
  solo_brute h
theorem solo_ack (s s' : Sys) {i eid key idx ts : _} (_hi : SoloOK s (s.insts i))
    (h : step s (.ack i eid key idx ts) = some s') : SoloOK s' (s'.insts i) := by
  solo_brute h
theorem solo_nackEvicted (s s' : Sys) {i eid key : _} (_hi : SoloOK s (s.insts i))
    (h : step s (.nackEvicted i eid key) = some s') : SoloOK s' (s'.insts i) := by
  solo_brute h
theorem solo_nack (s s' : Sys) {i eid imm : _} (_hi : SoloOK s (s.insts i))
    (h : step s (.nack i eid imm) = some s') : SoloOK s' (s'.insts i) := by
  solo_brute h
theorem solo_created (s s' : Sys) {i : _} (_hi : SoloOK s (s.insts i))
    (h : step s (.created i) = some s') : SoloOK s' (s'.insts i) := by
  solo_brute h
theorem solo_createFail (s s' : Sys) {i : _} (_hi : SoloOK s (s.insts i))
    (h : step s (.createFail i) = some s') : SoloOK s' (s'.insts i) := by
  solo_brute h
theorem solo_loaded (s s' : Sys) {i c : _} (_hi : SoloOK s (s.insts i))
    (h : step s (.loaded i c) = some s') : SoloOK s' (s'.insts i) := by
  solo_brute h
theorem solo_loadFail (s s' : Sys) {i : _} (_hi : SoloOK s (s.insts i))
    (h : step s (.loadFail i) = some s') : SoloOK s' (s'.insts i) := by
  solo_brute h
theorem solo_roundEnd (s s' : Sys) {i c : _} (_hi : SoloOK s (s.insts i))
    (h : step s (.roundEnd i c) = some s') : SoloOK s' (s'.insts i) := by
  solo_brute h
theorem solo_crash (s s' : Sys) {i : _} (_hi : SoloOK s (s.insts i))
    (h : step s (.crash i) = some s') : SoloOK s' (s'.insts i) := by
  solo_brute h
theorem solo_cacheLose (s s' : Sys) {i : _} (_hi : SoloOK s (s.insts i))
    (h : step s (.cacheLose i) = some s') : SoloOK s' (s'.insts i) := by
  solo_brute h

theorem step_solo_ok (s s' : Sys) (e : Ev) (i : Nat) (he : e.inst = some i) (hi : SoloOK s (s.insts i))
    (h : step s e = some s') : SoloOK s' (s'.insts i) := by
  cases e <;> simp only [Ev.inst, Option.some.injEq, reduceCtorEq] at he <;> subst he
  · exact solo_launchCreate s s' hi h
  · exact solo_launchLoad s s' hi h
  · exact solo_launchRound s s' hi h
  · exact solo_launchSubmit s s' hi h
  · exact solo_config s s' hi h
  · exact solo_clock s s' hi h
  · exact solo_lockFetch s s' hi h
  · exact solo_lockCreate s s' hi h
  · exact solo_lockReplace s s' hi h
  · exact solo_fetch s s' hi h
  · exact solo_upload s s' hi h
  · exact solo_discard s s' hi h
  · exact solo_submitted s s' hi h
  · exact solo_ack s s' hi h
  · exact solo_nackEvicted s s' hi h
  · exact solo_nack s s' hi h
  · exact solo_created s s' hi h
  · exact solo_createFail s s' hi h
  · exact solo_loaded s s' hi h
  · exact solo_loadFail s s' hi h
  · exact solo_roundEnd s s' hi h
  · exact solo_crash s s' hi h
  · exact solo_cacheLose s s' hi h

end Seq

namespace Seq


/-- an event of a process that is down does not touch locks or storage -/
theorem step_down_frame (s s' : Sys) (e : Ev) (i : Nat) (he : e.inst = some i) (hd : (s.insts i).phase = .down)
    (h : step s e = some s') : s'.lock = s.lock ∧ s'.store = s.store ∧ s'.pubHist = s.pubHist := by
  cases e <;> simp only [Ev.inst, Option.some.injEq, reduceCtorEq] at he <;> subst he <;>
    simp only [step, hd] at h <;> (repeat' split at h) <;>
    (first | cases h | skip) <;> (try (injection h with h; subst h)) <;> simp_all [Sys.setInst, isUp]

set_option maxRecDepth 4000 in
/-- only lock creation and lock replacement touch the lock -/
theorem step_lock_same_unless (s s' : Sys) (e : Ev) (h : step s e = some s') :
    (∃ i c r, e = .lockCreate i c r) ∨ (∃ i old new r, e = .lockReplace i old new r) ∨ s'.lock = s.lock := by
  cases e
  case lockCreate i c r => exact Or.inl ⟨i, c, r, rfl⟩
  case lockReplace i old new r => exact Or.inr (Or.inl ⟨i, old, new, r, rfl⟩)
  all_goals (right; right; simp only [step] at h <;> (repeat' split at h) <;>
    simp_all [Sys.setInst] <;> (try (subst h; simp_all)))

theorem lockCreate_lock (s s' : Sys) (i : Nat) (c : Ck) (r : Res) (h : step s (.lockCreate i c r) = some s') :
    s'.lock = s.lock ∨ (s.lock = none ∧ s'.lock = some c) := by
  simp only [step] at h
  repeat' split at h
  all_goals (first | cases h | skip)
  all_goals (try (injection h with h; subst h))
  all_goals simp_all [Sys.setInst]

theorem lockReplace_lock (s s' : Sys) (i : Nat) (old new : Ck) (r : Res)
    (h : step s (.lockReplace i old new r) = some s') :
    s'.lock = s.lock ∨ (∃ rd, (s.insts i).phase = .round rd ∧ rd.pc = .cas ∧ rd.new = new ∧
      s.lock = some (s.insts i).tree ∧ s'.lock = some new) := by
  simp only [step] at h
  repeat' split at h
  all_goals (first | cases h | skip)
  all_goals (try (injection h with h; subst h))
  all_goals simp_all [Sys.setInst]


/-- the single-process invariants: the proviso of `recover_run_partial`, and the per-instance facts -/
structure SoloInv (s : Sys) : Prop where
  cks : ∀ c, s.lock = some c → ∀ c1 imm, s.store .ckpt = some (.ck c1, imm) →
    c1.leaves = c.leaves ∨ Staged s.store c.leaves
  inst : ∀ i, SoloOK s (s.insts i)

theorem soloInv_init (p : Nat) : SoloInv (init p) :=
  ⟨fun c h => by simp [init] at h, fun i => by simp [init, SoloOK]⟩

theorem soloOK_down {s : Sys} {x : Inst} (h : x.phase = .down) : SoloOK s x := by
  unfold SoloOK; rw [h]; trivial

theorem solo_inst_step (s s' : Sys) (e : Ev) (hsolo : Solo s) (hs : SoloInv s) (h : step s e = some s')
    (ht : s'.tampered = false) : ∀ j, SoloOK s' (s'.insts j) := by
  intro j
  cases he : e.inst with
  | none =>
    obtain ⟨k, o, rfl⟩ := inst_none_tamper e he
    exact absurd rfl ((step_tampered s s' _ h ht).2 k o)
  | some i =>
    by_cases hji : j = i
    · subst hji; exact step_solo_ok s s' e j he (hs.inst j) h
    · have hoth := step_insts_other s s' e h j (by rw [he]; intro hh; injection hh with hh; exact hji hh.symm)
      by_cases hd : (s.insts j).phase = .down
      · exact soloOK_down (by rw [hoth]; exact hd)
      · have hid : (s.insts i).phase = .down := by
          apply Classical.byContradiction
          intro hi
          exact hji (hsolo i j hi hd).symm
        obtain ⟨hl, hst, _⟩ := step_down_frame s s' e i he hid h
        exact soloOK_congr (by rw [hoth]) (by rw [hoth]) hl (by rw [hst]; exact fun _ h => h) (by rw [hst]) (hs.inst j)

theorem solo_cks_step (s s' : Sys) (e : Ev) (hs : SoloInv s) (h1 : Inv s) (h3 : Inv3 s) (h : step s e = some s')
    (ht : s'.tampered = false) :
    ∀ c, s'.lock = some c → ∀ c1 imm, s'.store .ckpt = some (.ck c1, imm) →
      c1.leaves = c.leaves ∨ Staged s'.store c.leaves := by
  intro c hl c1 imm hck
  rcases step_store_same_unless s s' e h with ⟨i, k, imm', o, r, rfl⟩ | ⟨i, k, r, rfl⟩ | ⟨k, o, rfl⟩ | hsame
  · -- upload
    have hlock : s'.lock = s.lock := by
      rcases step_lock_same_unless s s' _ h with ⟨_, _, _, hh⟩ | ⟨_, _, _, _, hh⟩ | hh
      · cases hh
      · cases hh
      · exact hh
    rw [hlock] at hl
    have hup := (upload_store s s' i k imm' o r h).1
    have f3 : ∀ tr, Staged s.store tr → Staged s'.store tr := by
      intro tr
      refine Staged.upload hup ?_
      intro hk
      obtain ⟨rd, items, _, _, _, ho, _, _⟩ := upload_staging_facts s s' i k tr imm' o r hk h
      exact ⟨items, ho⟩
    have keep : s.store .ckpt = some (.ck c1, imm) → c1.leaves = c.leaves ∨ Staged s'.store c.leaves := by
      intro h0
      rcases hs.cks c hl c1 imm h0 with a | a
      · exact Or.inl a
      · exact Or.inr (f3 _ a)
    by_cases hk : k = .ckpt
    · subst hk
      cases hr : r.applied
      · rw [storeUpload_not_applied hup hr] at hck ⊢
        exact hs.cks c hl c1 imm hck
      · rw [storeUpload_at hup hr] at hck
        injection hck with hck; injection hck with ho _
        left
        have hsi := hs.inst i
        cases hph : (s.insts i).phase with
        | creating pc =>
          obtain ⟨c0, rfl, hc0⟩ := ckpt_upload_creating s s' i imm' o r pc hph h
          simp only [SoloOK, hph] at hsi
          rw [hc0] at ho; injection ho with ho
          rw [hsi] at hl; injection hl with hl
          rw [← ho, hl]
        | round rd =>
          obtain ⟨hon, hready⟩ := ckpt_after_tiles s s' i imm' o r rd hph h
          rw [hon] at ho; injection ho with ho
          have h1i := h1.inst i
          have hnew : rd.new = (s.insts i).tree ∧ s.lock = some (s.insts i).tree := by
            simp only [InstOK, RoundOK, hph] at h1i
            simp only [SoloOK, hph] at hsi
            rcases hready with hpc | ⟨done, hpc, _⟩ <;> (rw [hpc] at h1i hsi; exact ⟨h1i.2, hsi⟩)
          rw [hnew.2] at hl; injection hl with hl
          rw [← ho, hnew.1, hl]
        | down => simp only [step, hph] at h; split at h <;> cases h
        | loading pc => simp only [step, hph] at h; split at h <;> (try cases h) <;> (repeat' split at h) <;> (first | cases h | skip)
        | idle => simp only [step, hph] at h; split at h <;> cases h
        | stopped => simp only [step, hph] at h; split at h <;> cases h
    · rw [storeUpload_other hup (Ne.symm hk)] at hck
      exact keep hck
  · -- discard
    have hlock : s'.lock = s.lock := by
      rcases step_lock_same_unless s s' _ h with ⟨_, _, _, hh⟩ | ⟨_, _, _, _, hh⟩ | hh
      · cases hh
      · cases hh
      · exact hh
    rw [hlock] at hl
    obtain ⟨rd, hph, hpc, hk⟩ := discard_only_after_publish s s' i k r h
    rw [discard_store s s' i k r h .ckpt (by rw [hk]; simp)] at hck
    rcases hs.cks c hl c1 imm hck with a | ⟨items, im, hst⟩
    · exact Or.inl a
    · by_cases hkk : Key.staging c.leaves = k
      · left
        have hsi := hs.inst i
        simp only [SoloOK, hph, hpc] at hsi
        rw [hsi] at hck
        injection hck with hck; injection hck with hck _; injection hck with hck
        rw [hk] at hkk; injection hkk with hkk
        rw [← hck, hkk]
      · exact Or.inr ⟨items, im, by rw [discard_store s s' i k r h _ hkk]; exact hst⟩
  · exact absurd rfl ((step_tampered s s' _ h ht).2 k o)
  · -- store unchanged
    rw [hsame] at hck ⊢
    rcases step_lock_same_unless s s' e h with ⟨i, c', r, rfl⟩ | ⟨i, old, new, r, rfl⟩ | hlock
    · rcases lockCreate_lock s s' i c' r h with hlock | ⟨hnone, _⟩
      · rw [hlock] at hl; exact hs.cks c hl c1 imm hck
      · -- nothing was ever published while there is no lock
        have hH : s.lockHist = [] := head_none (by rw [h1.head]; exact hnone)
        have := h1.pub c1 (h3.ckpt c1 imm hck)
        rw [hH] at this; cases this
    · rcases lockReplace_lock s s' i old new r h with hlock | ⟨rd, hph, hpc, hnew, hold, hl'⟩
      · rw [hlock] at hl; exact hs.cks c hl c1 imm hck
      · rw [hl'] at hl; injection hl with hl; subst hl
        have hsi := hs.inst i
        simp only [SoloOK, hph, hpc] at hsi
        rw [hnew] at hsi
        rcases hsi with hsame' | hst
        · rcases hs.cks _ hold c1 imm hck with a | a
          · left; rw [a, hsame']
          · right; rw [hsame']; exact a
        · exact Or.inr hst
    · rw [hlock] at hl; exact hs.cks c hl c1 imm hck

theorem soloInv_step (s s' : Sys) (e : Ev) (hsolo : Solo s) (hs : SoloInv s) (h1 : Inv s) (h3 : Inv3 s)
    (h : step s e = some s') (ht : s'.tampered = false) : SoloInv s' :=
  ⟨solo_cks_step s s' e hs h1 h3 h ht, solo_inst_step s s' e hsolo hs h ht⟩

/-- in runs with one live process at a time, without tampering, the single-process invariants hold -/
theorem soloInv_reachable {s : Sys} (r : ReachableSolo s) (ht : s.tampered = false) : SoloInv s := by
  induction r with
  | init p => exact soloInv_init p
  | @step s0 s1 e r0 h _ ih =>
    have ht0 := (step_tampered s0 s1 e h ht).1
    exact soloInv_step s0 s1 e r0.solo (ih ht0) (inv_reachable r0.reachable) (inv3_reachable r0.reachable ht0) h ht

end Seq

namespace Seq

/-! ### recovery in single-process runs -/

/-- a run of events of instance `i` while every other instance is down stays single-process -/
theorem ReachableSolo.run_inst {s s' : Sys} {i : Nat} {es : List Ev} (r : ReachableSolo s)
    (hd : ∀ j, j ≠ i → (s.insts j).phase = .down) (he : ∀ e ∈ es, e.inst = some i)
    (h : run s es = some s') : ReachableSolo s' := by
  induction es generalizing s with
  | nil => simp [run] at h; subst h; exact r
  | cons e es ih =>
    simp only [run] at h
    split at h
    · rename_i s1 hs1
      have hei := he e List.mem_cons_self
      have hd1 : ∀ j, j ≠ i → (s1.insts j).phase = .down := by
        intro j hj
        rw [step_insts_other s s1 e hs1 j (by rw [hei]; intro hh; injection hh with hh; exact hj hh.symm)]
        exact hd j hj
      have hsolo1 : Solo s1 := by
        intro a b ha hb
        have ha' : a = i := Classical.byContradiction fun hn => ha (hd1 a hn)
        have hb' : b = i := Classical.byContradiction fun hn => hb (hd1 b hn)
        rw [ha', hb']
      exact ih (r.step hs1 hsolo1) hd1 (fun e' he' => he e' (List.mem_cons_of_mem _ he')) h
    · cases h

theorem applyEvs_inst (i : Nat) : ∀ (n : Nat) (rem : List (TileId × Tree)), ∀ e ∈ applyEvs i n rem, e.inst = some i := by
  intro n
  induction n with
  | zero => intro rem e he; simp [applyEvs] at he
  | succ n ih =>
    intro rem e he
    cases rem with
    | nil => simp [applyEvs] at he
    | cons p rest =>
      obtain ⟨t, xs⟩ := p
      simp only [applyEvs, List.mem_cons] at he
      rcases he with rfl | he
      · rfl
      · exact ih _ e he

theorem recoverScript_inst (i : Nat) (c c1 : Ck) (v : Nat) (items : Option (List (TileId × Tree))) (ts : List TileId) :
    ∀ e ∈ recoverScript i c c1 v items ts, e.inst = some i := by
  intro e he
  simp only [recoverScript, List.mem_append, List.mem_cons, List.mem_singleton, edgeEvs, List.mem_map,
    List.not_mem_nil, or_false] at he
  rcases he with ((he | he) | ⟨t, _, rfl⟩) | rfl
  · rcases he with rfl | rfl | rfl | rfl | rfl <;> rfl
  · cases items with
    | none => simp at he
    | some items =>
      simp only [List.mem_append, List.mem_cons, List.not_mem_nil, or_false] at he
      rcases he with (rfl | rfl) | he
      · rfl
      · rfl
      · exact applyEvs_inst i _ _ e he
  · rfl
  · rfl

/-- **Recovery (C03, liveness half).** In every state of a run with one live process at a time, without
    tampering, once log creation has completed: a fault-free `LoadLog` of a stopped instance started
    with the log's own configuration is accepted event by event and ends `loaded` on exactly the
    lock-store checkpoint with its tree completely rendered; locks, histories and other instances are
    untouched; the instance can sequence again; and (all other instances being down) the resulting
    state is again a single-process state, so the statement applies to it and to all its successors. -/
theorem recover_run_solo {s : Sys} (r : ReachableSolo s) (ht : s.tampered = false) (i : Nat) (c : Ck) (v : Nat)
    (hl : s.lock = some c) (hpub : s.pubHist ≠ [])
    (hdown : (s.insts i).phase = .down) (hcfg : (s.insts i).cfgBad = false) (hv : c.time ≤ v)
    (ts : List TileId) (hts : ∀ t ∈ ts, Req c.leaves.length t = true ∧ t.kind.level < 8) :
    ∃ es s', run s es = some s' ∧ (s'.insts i).phase = .idle ∧ (s'.insts i).tree = c ∧
      Complete s'.store c.leaves ∧ s'.lock = some c ∧ s'.lockHist = s.lockHist ∧ s'.pubHist = s.pubHist ∧
      s'.tampered = false ∧ (∀ j, j ≠ i → s'.insts j = s.insts j) ∧
      es.head? = some (.launchLoad i) ∧ es.getLast? = some (.loaded i c) ∧
      (∀ t ∈ ts, Ev.fetch i (.tile t) (.ok (.slice (t.slice c.leaves))) ∈ es) ∧
      (∃ s'', step s' (.launchRound i) = some s'') ∧
      ((∀ j, j ≠ i → (s.insts j).phase = .down) → ReachableSolo s') := by
  have hcs := (soloInv_reachable r ht).cks c hl
  obtain ⟨s', c1, items, hscript, hrun, hph, htree, hev, hcomp, fr⟩ :=
    recover_run_partial r.reachable ht i c v hl hpub hdown hcfg hv hcs ts hts
  refine ⟨recoverEvs s i c v ts, s', hrun, hph, htree, hcomp, fr.lock.trans hl, fr.lockHist, fr.pubHist,
    fr.tampered.trans ht, fr.others, ?_, ?_, ?_, can_launch_round hph hev, ?_⟩
  · rw [hscript]; exact recoverScript_head _ _ _ _ _ _
  · rw [hscript]; exact recoverScript_last _ _ _ _ _ _
  · rw [hscript]; exact recoverScript_edge _ _ _ _ _ _
  · intro hd
    exact r.run_inst hd (by rw [hscript]; exact recoverScript_inst _ _ _ _ _ _) hrun

/-- a crash is a step of a single-process run -/
theorem reachableSolo_crash {s : Sys} (r : ReachableSolo s) (i : Nat) :
    ∃ s', Seq.step s (.crash i) = some s' ∧ ReachableSolo s' ∧ (s'.insts i).phase = .down ∧
      (s'.insts i).cfgBad = (s.insts i).cfgBad ∧ s'.lock = s.lock ∧ s'.pubHist = s.pubHist ∧
      s'.store = s.store ∧ s'.tampered = s.tampered ∧ (∀ j, j ≠ i → s'.insts j = s.insts j) := by
  have hstep : Seq.step s (.crash i) = some (s.setInst i { s.insts i with phase := .down, pool := [], poolEvicted := [], evictPending := false }) := rfl
  refine ⟨_, hstep, ?_, by simp [Sys.setInst, upd], by simp [Sys.setInst, upd], rfl, rfl, rfl, rfl, ?_⟩
  · refine r.step hstep ?_
    intro a b ha hb
    have hsolo := r.solo
    by_cases hai : a = i
    · subst hai; simp [Sys.setInst, upd] at ha
    · by_cases hbi : b = i
      · subst hbi; simp [Sys.setInst, upd] at hb
      · simp only [Sys.setInst, upd, hai, hbi, if_false] at ha hb
        exact hsolo a b ha hb
  · intro j hj; simp [Sys.setInst, upd, hj]

end Seq
