import Proofs.Codec
import Model.Tls
/-!
Lemmas about the tile-leaf, extension and MerkleTreeLeaf codecs (used by `Props/C10.lean`).
-/
namespace Codec

theorem list_len2 {α} {l : List α} (h : l.length = 2) : ∃ a b, l = [a, b] := by
  match l, h with
  | [a, b], _ => exact ⟨a, b, rfl⟩

theorem list_len3 {α} {l : List α} (h : l.length = 3) : ∃ a b c, l = [a, b, c] := by
  match l, h with
  | [a, b, c], _ => exact ⟨a, b, c, rfl⟩

theorem list_len5 {α} {l : List α} (h : l.length = 5) : ∃ a b c d e, l = [a, b, c, d, e] := by
  match l, h with
  | [a, b, c, d, e], _ => exact ⟨a, b, c, d, e, rfl⟩

theorem extFits (n : Nat) : Fits (schemaOf extSpec) (valuesOf extSpec n) := by
  simp only [schemaOf, valuesOf, extSpec, List.map, Fits, Field.fits, toBE_length]
  decide

theorem marshalExtensions_eq {i : Int} (h0 : 0 ≤ i) (h1 : i < 1099511627776) :
    marshalExtensions i = some (0 :: 0 :: 5 :: toBE 5 i.toNat) := by
  unfold marshalExtensions
  rw [if_neg (by omega)]
  simp only [encSpec, encChecked, extFits, if_true]
  simp only [schemaOf, valuesOf, extSpec, List.map, enc, encField, toBE_length]
  rfl

theorem marshalExtensions_none {i : Int} (h : i < 0 ∨ 1099511627776 ≤ i) : marshalExtensions i = none := by
  unfold marshalExtensions
  rw [if_pos (by omega)]

theorem readLeafExt_marshal {n : Nat} (h : n < 1099511627776) :
    readLeafExt (0 :: 0 :: 5 :: toBE 5 n) = .ok (false, Int.ofNat n) := by
  have e : (0 :: 0 :: 5 :: toBE 5 n : Bytes) = enc extSchema [[0], toBE 5 n] ++ [] := by
    simp only [extSchema, schemaOf, extSpec, List.map, enc, encField, toBE_length]
    rfl
  unfold readLeafExt
  rw [if_neg (by simp)]
  rw [e, dec_enc extSchema _ _ (by
    simp only [extSchema, schemaOf, extSpec, List.map, Fits, Field.fits, toBE_length]; decide)]
  simp only [toBE_length, and_self, if_true]
  rw [fromBE_toBE 5 n (by simpa using h)]

theorem ext_ok (e : LogEntry)
    (hidx : if e.archival then e.leafIndex = 0 else 0 ≤ e.leafIndex ∧ e.leafIndex < 1099511627776) :
    ∃ ext, extensionsOf e = some ext ∧ readLeafExt ext = .ok (e.archival, e.leafIndex) ∧ ext.length < 65536 := by
  unfold extensionsOf
  cases ha : e.archival with
  | true =>
    simp only [ha, if_true] at hidx ⊢
    exact ⟨[], rfl, by simp [readLeafExt, hidx], by decide⟩
  | false =>
    simp only [ha] at hidx ⊢
    obtain ⟨hi0, hi1⟩ := hidx
    refine ⟨_, marshalExtensions_eq hi0 hi1, ?_, ?_⟩
    · rw [readLeafExt_marshal (by omega)]
      have : Int.ofNat e.leafIndex.toNat = e.leafIndex := Int.toNat_of_nonneg hi0
      rw [this]
    · simp [toBE_length]

theorem ts_roundtrip {ts : Int} (h0 : 0 ≤ ts) (h1 : ts ≤ 9223372036854775807) :
    fromBE (toBE 8 (u64 ts)) = ts.toNat := by
  rw [fromBE_toBE 8 _ (u64_lt ts), u64_of_nonneg h0 h1]

theorem leaf_roundtrip (e : LogEntry) (t0 rest : Bytes) (wf : WF e) :
    ∃ body, appendTileLeaf t0 e = some (t0 ++ body) ∧ readTileLeaf (body ++ rest) = .ok (e, rest) := by
  obtain ⟨hc, ht0, ht1, hikh, hfp, hnfp, hpre, hidx⟩ := wf
  obtain ⟨ext, hext, hrext, hextl⟩ := ext_ok e hidx
  have hfl : e.chainFingerprints.flatten.length < 65536 := by
    rw [flatten_length_32 _ hfp]; omega
  have hts := ts_roundtrip ht0 ht1
  have htsle : ¬ (e.timestamp.toNat > maxInt64) := by unfold maxInt64; omega
  have htsint : Int.ofNat e.timestamp.toNat = e.timestamp := Int.toNat_of_nonneg ht0
  have hsplit := splitFps_flatten e.chainFingerprints hfp _ (Nat.le_refl _)
  unfold appendTileLeaf
  rw [hext]
  cases hp : e.isPrecert with
  | false =>
    simp only [hp] at hpre
    have hfits : Fits (schemaOf (tileLeafSpec false)) (valuesOf (tileLeafSpec false) (e, ext)) := by
      show Fits [.fixed 8, .fixed 2, .lenp 3, .lenp 2, .lenp 2]
        [toBE 8 (u64 e.timestamp), toBE 2 0, e.certificate, ext, e.chainFingerprints.flatten]
      simp only [Fits, Field.fits, toBE_length]
      exact ⟨trivial, trivial, hc, hextl, hfl, trivial⟩
    refine ⟨enc (schemaOf (tileLeafSpec false)) (valuesOf (tileLeafSpec false) (e, ext)), ?_, ?_⟩
    · simp [encSpec, encChecked, hfits]
    · have hs : schemaOf (tileLeafSpec false) = headerSchema ++ x509Body := rfl
      have hv : valuesOf (tileLeafSpec false) (e, ext) =
          [toBE 8 (u64 e.timestamp), toBE 2 0] ++ [e.certificate, ext, e.chainFingerprints.flatten] := rfl
      have hfx : Fits x509Body [e.certificate, ext, e.chainFingerprints.flatten] := by
        show Fits [.lenp 3, .lenp 2, .lenp 2] [e.certificate, ext, e.chainFingerprints.flatten]
        simp only [Fits, Field.fits]
        exact ⟨hc, hextl, hfl, trivial⟩
      unfold readTileLeaf
      rw [hs, hv, dec_enc_append headerSchema x509Body _ _ rest (by
        show Fits [.fixed 8, .fixed 2] [toBE 8 (u64 e.timestamp), _]
        simp only [Fits, Field.fits, toBE_length]; exact ⟨trivial, trivial, trivial⟩)]
      simp only [hts, htsle, if_false]
      have h0 : fromBE (toBE 2 0) = 0 := by decide
      simp only [h0]
      rw [dec_enc x509Body _ rest hfx]
      simp only [finishLeaf, hrext, hsplit, htsint]
      cases e
      simp_all
  | true =>
    simp only [hp, if_true] at hpre
    have hfits : Fits (schemaOf (tileLeafSpec true)) (valuesOf (tileLeafSpec true) (e, ext)) := by
      show Fits [.fixed 8, .fixed 2, .fixed 32, .lenp 3, .lenp 2, .lenp 3, .lenp 2]
        [toBE 8 (u64 e.timestamp), toBE 2 1, e.issuerKeyHash, e.certificate, ext, e.preCertificate, e.chainFingerprints.flatten]
      simp only [Fits, Field.fits, toBE_length]
      exact ⟨trivial, trivial, hikh, hc, hextl, hpre, hfl, trivial⟩
    refine ⟨enc (schemaOf (tileLeafSpec true)) (valuesOf (tileLeafSpec true) (e, ext)), ?_, ?_⟩
    · simp [encSpec, encChecked, hfits]
    · have hs : schemaOf (tileLeafSpec true) = headerSchema ++ precertBody := rfl
      have hv : valuesOf (tileLeafSpec true) (e, ext) =
          [toBE 8 (u64 e.timestamp), toBE 2 1] ++
            [e.issuerKeyHash, e.certificate, ext, e.preCertificate, e.chainFingerprints.flatten] := rfl
      have hfx : Fits precertBody [e.issuerKeyHash, e.certificate, ext, e.preCertificate, e.chainFingerprints.flatten] := by
        show Fits [.fixed 32, .lenp 3, .lenp 2, .lenp 3, .lenp 2]
          [e.issuerKeyHash, e.certificate, ext, e.preCertificate, e.chainFingerprints.flatten]
        simp only [Fits, Field.fits]
        exact ⟨hikh, hc, hextl, hpre, hfl, trivial⟩
      unfold readTileLeaf
      rw [hs, hv, dec_enc_append headerSchema precertBody _ _ rest (by
        show Fits [.fixed 8, .fixed 2] [toBE 8 (u64 e.timestamp), _]
        simp only [Fits, Field.fits, toBE_length]; exact ⟨trivial, trivial, trivial⟩)]
      simp only [hts, htsle, if_false]
      have h1 : fromBE (toBE 2 1) = 1 := by decide
      simp only [h1]
      rw [dec_enc precertBody _ rest hfx]
      simp only [finishLeaf, hrext, hsplit, htsint]
      cases e
      simp_all

theorem readLeafExt_sound {ext : Bytes} {a : Bool} {i : Int} (h : readLeafExt ext = .ok (a, i)) :
    (a = true ∧ i = 0 ∧ ext = []) ∨
    (a = false ∧ 0 ≤ i ∧ i < 1099511627776 ∧ ext = 0 :: 0 :: 5 :: toBE 5 i.toNat) := by
  unfold readLeafExt at h
  split at h
  · rename_i he
    simp only [Except.ok.injEq, Prod.mk.injEq] at h
    exact Or.inl ⟨h.1.symm, h.2.symm, he⟩
  · cases hd : dec extSchema ext with
    | none => rw [hd] at h; cases h
    | some p =>
      obtain ⟨vs, rest⟩ := p
      obtain ⟨ty, data, rfl⟩ := list_len2 (dec_length hd)
      rw [hd] at h
      simp only at h
      split at h
      · rename_i hc
        obtain ⟨hty, hlen, hrest⟩ := hc
        simp only [Except.ok.injEq, Prod.mk.injEq] at h
        obtain ⟨ha, hi⟩ := h
        obtain ⟨henc, _⟩ := dec_canonical _ _ _ _ hd
        refine Or.inr ⟨ha.symm, ?_, ?_, ?_⟩
        · rw [← hi]; exact Int.natCast_nonneg _
        · rw [← hi]
          have := fromBE_lt data
          rw [hlen] at this
          have h5 : (256 : Nat) ^ 5 = 1099511627776 := by decide
          simp only [Int.ofNat_eq_natCast]
          omega
        · rw [← henc, hty, hrest, ← hi]
          simp only [extSchema, schemaOf, extSpec, List.map, enc, encField, hlen, List.append_nil, Int.toNat_natCast, Int.ofNat_eq_natCast]
          have := toBE_fromBE data
          rw [hlen] at this
          rw [this]
          rfl
      · cases h

structure FinishSpec (e : LogEntry) (ts : Nat) (isPre : Bool) (ikh cert ext pre fps : Bytes) : Prop where
  cert : e.certificate = cert
  isPre : e.isPrecert = isPre
  ikh : e.issuerKeyHash = ikh
  pre : e.preCertificate = pre
  ts : e.timestamp = Int.ofNat ts
  fps : e.chainFingerprints.flatten = fps
  fp32 : ∀ f ∈ e.chainFingerprints, f.length = 32
  ext : readLeafExt ext = .ok (e.archival, e.leafIndex)

theorem finishLeaf_sound {ts : Nat} {isPre : Bool} {ikh cert ext pre fps rest r : Bytes} {e : LogEntry}
    (h : finishLeaf ts isPre ikh cert ext pre fps rest = .ok (e, r)) :
    r = rest ∧ FinishSpec e ts isPre ikh cert ext pre fps := by
  unfold finishLeaf at h
  cases hx : readLeafExt ext with
  | error err => rw [hx] at h; cases h
  | ok p =>
    obtain ⟨a, i⟩ := p
    rw [hx] at h
    simp only at h
    cases hs : splitFps fps.length fps with
    | none => rw [hs] at h; cases h
    | some l =>
      rw [hs] at h
      simp only [Except.ok.injEq, Prod.mk.injEq] at h
      obtain ⟨he, hr⟩ := h
      obtain ⟨s1, s2⟩ := splitFps_sound _ _ _ hs
      subst he
      exact ⟨hr.symm, ⟨rfl, rfl, rfl, rfl, rfl, s1, s2, hx⟩⟩

theorem extensionsOf_of_read {e : LogEntry} {ext : Bytes} (h : readLeafExt ext = .ok (e.archival, e.leafIndex)) :
    extensionsOf e = some ext ∧ ext.length < 65536 ∧
    (if e.archival then e.leafIndex = 0 else 0 ≤ e.leafIndex ∧ e.leafIndex < 1099511627776) := by
  unfold extensionsOf
  rcases readLeafExt_sound h with ⟨ha, hi, he⟩ | ⟨ha, h0, h1, he⟩
  · simp [ha, hi, he]
  · simp only [ha, Bool.false_eq_true, if_false]
    refine ⟨?_, ?_, h0, h1⟩
    · rw [marshalExtensions_eq h0 h1, he]
    · rw [he]; simp [toBE_length]

theorem ts_back {ts : Bytes} (hl : ts.length = 8) (hle : ¬ fromBE ts > maxInt64) :
    toBE 8 (u64 (Int.ofNat (fromBE ts))) = ts := by
  have : u64 (Int.ofNat (fromBE ts)) = fromBE ts := by
    have h1 : (Int.ofNat (fromBE ts)) ≤ 9223372036854775807 := by
      unfold maxInt64 at hle; simp only [Int.ofNat_eq_natCast]; omega
    rw [u64_of_nonneg (x := Int.ofNat (fromBE ts)) (Int.natCast_nonneg _) h1]
    rfl
  rw [this]
  have := toBE_fromBE ts
  rwa [hl] at this

theorem leaf_canonical (bs : Bytes) (e : LogEntry) (rest : Bytes) (h : readTileLeaf bs = .ok (e, rest)) :
    ∃ pre, appendTileLeaf [] e = some pre ∧ pre ++ rest = bs ∧ WF e := by
  unfold readTileLeaf at h
  cases hd : dec headerSchema bs with
  | none => rw [hd] at h; cases h
  | some p =>
    obtain ⟨vs, s⟩ := p
    obtain ⟨ts, ty, rfl⟩ := list_len2 (dec_length hd)
    rw [hd] at h
    simp only at h
    obtain ⟨henc, hfit⟩ := dec_canonical _ _ _ _ hd
    have htl : ts.length = 8 := hfit.1
    have hyl : ty.length = 2 := hfit.2.1
    split at h
    · cases h
    · rename_i hle
      have htsb := ts_back htl hle
      split at h
      · -- x509
        rename_i hty
        have hty' : ty = toBE 2 0 := fromBE_eq_of_toBE hyl hty
        cases hb : dec x509Body s with
        | none => rw [hb] at h; cases h
        | some q =>
          obtain ⟨ws, r⟩ := q
          obtain ⟨cert, ext, fps, rfl⟩ := list_len3 (dec_length hb)
          rw [hb] at h
          simp only at h
          obtain ⟨henc2, hfit2⟩ := dec_canonical _ _ _ _ hb
          obtain ⟨hr, sp⟩ := finishLeaf_sound h
          obtain ⟨hext, hextl, hidx⟩ := extensionsOf_of_read sp.ext
          have hc : cert.length < 16777216 := hfit2.1
          have hfl : fps.length < 65536 := hfit2.2.2.1
          have hvals : valuesOf (tileLeafSpec false) (e, ext) = [ts, ty] ++ [cert, ext, fps] := by
            show [toBE 8 (u64 e.timestamp), toBE 2 0, e.certificate, ext, e.chainFingerprints.flatten] = _
            rw [sp.ts, htsb, sp.cert, sp.fps, hty']; rfl
          have hfits : Fits (schemaOf (tileLeafSpec false)) (valuesOf (tileLeafSpec false) (e, ext)) := by
            rw [hvals]
            exact Fits_append (fs1 := headerSchema) (fs2 := x509Body) hfit hfit2
          refine ⟨enc (schemaOf (tileLeafSpec false)) (valuesOf (tileLeafSpec false) (e, ext)), ?_, ?_, ?_⟩
          · unfold appendTileLeaf
            rw [hext, sp.isPre]
            simp [encSpec, encChecked, hfits]
          · rw [hvals]
            have : schemaOf (tileLeafSpec false) = headerSchema ++ x509Body := rfl
            rw [this, enc_append (by rfl), List.append_assoc, hr, henc2, henc]
          · have hn : e.chainFingerprints.length ≤ 2047 := by
              have := flatten_length_32 _ sp.fp32
              rw [sp.fps] at this
              omega
            refine ⟨by rw [sp.cert]; exact hc, by rw [sp.ts]; exact Int.natCast_nonneg _, ?_, by rw [sp.ikh]; rfl, sp.fp32, hn, ?_, hidx⟩
            · rw [sp.ts]; unfold maxInt64 at hle; simp only [Int.ofNat_eq_natCast]; omega
            · rw [sp.isPre]; simp [sp.ikh, sp.pre]
      · -- precert
        rename_i hty
        have hty' : ty = toBE 2 1 := fromBE_eq_of_toBE hyl hty
        cases hb : dec precertBody s with
        | none => rw [hb] at h; cases h
        | some q =>
          obtain ⟨ws, r⟩ := q
          obtain ⟨ikh, cert, ext, pre, fps, rfl⟩ := list_len5 (dec_length hb)
          rw [hb] at h
          simp only at h
          obtain ⟨henc2, hfit2⟩ := dec_canonical _ _ _ _ hb
          obtain ⟨hr, sp⟩ := finishLeaf_sound h
          obtain ⟨hext, hextl, hidx⟩ := extensionsOf_of_read sp.ext
          have hk : ikh.length = 32 := hfit2.1
          have hc : cert.length < 16777216 := hfit2.2.1
          have hp : pre.length < 16777216 := hfit2.2.2.2.1
          have hfl : fps.length < 65536 := hfit2.2.2.2.2.1
          have hvals : valuesOf (tileLeafSpec true) (e, ext) = [ts, ty] ++ [ikh, cert, ext, pre, fps] := by
            show [toBE 8 (u64 e.timestamp), toBE 2 1, e.issuerKeyHash, e.certificate, ext, e.preCertificate,
              e.chainFingerprints.flatten] = _
            rw [sp.ts, htsb, sp.cert, sp.fps, sp.ikh, sp.pre, hty']; rfl
          have hfits : Fits (schemaOf (tileLeafSpec true)) (valuesOf (tileLeafSpec true) (e, ext)) := by
            rw [hvals]
            exact Fits_append (fs1 := headerSchema) (fs2 := precertBody) hfit hfit2
          refine ⟨enc (schemaOf (tileLeafSpec true)) (valuesOf (tileLeafSpec true) (e, ext)), ?_, ?_, ?_⟩
          · unfold appendTileLeaf
            rw [hext, sp.isPre]
            simp [encSpec, encChecked, hfits]
          · rw [hvals]
            have : schemaOf (tileLeafSpec true) = headerSchema ++ precertBody := rfl
            rw [this, enc_append (by rfl), List.append_assoc, hr, henc2, henc]
          · have hn : e.chainFingerprints.length ≤ 2047 := by
              have := flatten_length_32 _ sp.fp32
              rw [sp.fps] at this
              omega
            refine ⟨by rw [sp.cert]; exact hc, by rw [sp.ts]; exact Int.natCast_nonneg _, ?_, by rw [sp.ikh]; exact hk, sp.fp32, hn, ?_, hidx⟩
            · rw [sp.ts]; unfold maxInt64 at hle; simp only [Int.ofNat_eq_natCast]; omega
            · rw [sp.isPre]; simp [sp.pre, hp]
      · cases h

/-! ### MerkleTreeLeaf against the independent TLS encoder; injectivity -/
open Tls

theorem beBytes_eq_toBE (k v : Nat) : beBytes k v = toBE k v := by
  induction k generalizing v with
  | zero => rfl
  | succ k ih =>
    simp only [beBytes, ih]
    clear ih
    induction k generalizing v with
    | zero => simp [toBE]
    | succ k ih2 =>
      rw [toBE, toBE]
      have e1 : v / 256 / 256 ^ k = v / 256 ^ (k + 1) := by
        rw [Nat.div_div_eq_div_mul, Nat.pow_succ, Nat.mul_comm]
      have e2 : v / 256 % 256 ^ k = v % 256 ^ (k + 1) / 256 := by
        rw [Nat.pow_succ, Nat.mul_comm, Nat.mod_mul_right_div_self]
      have e3 : v % 256 ^ (k + 1) % 256 = v % 256 := by
        apply Nat.mod_mod_of_dvd
        exact ⟨256 ^ k, by rw [Nat.pow_succ, Nat.mul_comm]⟩
      rw [List.cons_append, e1, e2, ← e3, ih2 (v % 256 ^ (k + 1))]


theorem extensionsOf_eq_ct {e : LogEntry} {ext : Bytes} (h : extensionsOf e = some ext) : ext = ctExtensions e := by
  unfold extensionsOf at h
  unfold ctExtensions
  cases ha : e.archival with
  | true => simp [ha] at h ⊢; exact h
  | false =>
    simp only [ha, Bool.false_eq_true, if_false] at h ⊢
    by_cases hr : e.leafIndex < 0 ∨ 1099511627776 ≤ e.leafIndex
    · rw [marshalExtensions_none hr] at h; cases h
    · rw [marshalExtensions_eq (by omega) (by omega)] at h
      cases h
      simp only [Val.encode, encodeAll, beBytes_eq_toBE, toBE_length, List.append_nil]
      rfl

theorem mtl_spec (e : LogEntry) (bs : Bytes) (h : merkleTreeLeaf e = some bs) :
    bs = (MerkleTreeLeaf.ofEntry e).encode := by
  unfold merkleTreeLeaf at h
  cases hx : extensionsOf e with
  | none => rw [hx] at h; cases h
  | some ext =>
    rw [hx] at h
    simp only [encSpec] at h
    obtain ⟨_, rfl⟩ := encChecked_eq_some.mp h
    rw [extensionsOf_eq_ct hx]
    unfold MerkleTreeLeaf.ofEntry
    cases hp : e.isPrecert with
    | false =>
      show enc [.fixed 1, .fixed 1, .fixed 8, .fixed 2, .lenp 3, .lenp 2]
        [[0], [0], toBE 8 (u64 e.timestamp), toBE 2 0, e.certificate, ctExtensions e] = _
      simp only [Val.encode, encodeAll, beBytes_eq_toBE, enc, encField, List.append_nil, List.append_assoc,
        Bool.false_eq_true, if_false]
      rfl
    | true =>
      show enc [.fixed 1, .fixed 1, .fixed 8, .fixed 2, .fixed 32, .lenp 3, .lenp 2]
        [[0], [0], toBE 8 (u64 e.timestamp), toBE 2 1, e.issuerKeyHash, e.certificate, ctExtensions e] = _
      simp only [Val.encode, encodeAll, beBytes_eq_toBE, enc, encField, List.append_nil, List.append_assoc, if_true]
      rfl

/-- a left inverse of `merkleTreeLeaf` on the covered fields (proof device for injectivity) -/
def mtlView (bs : Bytes) : Option (Nat × Bool × Bytes × Bytes × Bytes) :=
  match dec [.fixed 1, .fixed 1, .fixed 8, .fixed 2] bs with
  | some ([_, _, ts, ty], r) =>
    if fromBE ty = 0 then
      match dec [.lenp 3, .lenp 2] r with
      | some ([cert, ext], _) => some (fromBE ts, false, [], cert, ext)
      | _ => none
    else
      match dec [.fixed 32, .lenp 3, .lenp 2] r with
      | some ([ikh, cert, ext], _) => some (fromBE ts, true, ikh, cert, ext)
      | _ => none
  | _ => none

theorem mtl_view (e : LogEntry) (wf : WF e) :
    ∃ bs ext, merkleTreeLeaf e = some bs ∧ extensionsOf e = some ext ∧
      readLeafExt ext = .ok (e.archival, e.leafIndex) ∧
      mtlView bs = some (e.timestamp.toNat, e.isPrecert, (if e.isPrecert then e.issuerKeyHash else []), e.certificate, ext) := by
  obtain ⟨hc, ht0, ht1, hikh, hfp, hnfp, hpre, hidx⟩ := wf
  obtain ⟨ext, hext, hrext, hextl⟩ := ext_ok e hidx
  have hts := ts_roundtrip ht0 ht1
  unfold merkleTreeLeaf
  rw [hext]
  have hP : ∀ ty : Bytes, ty.length = 2 →
      Fits [.fixed 1, .fixed 1, .fixed 8, .fixed 2] [[0], [0], toBE 8 (u64 e.timestamp), ty] := by
    intro ty hty
    simp only [Fits, Field.fits, toBE_length]
    exact ⟨rfl, rfl, trivial, hty, trivial⟩
  cases hp : e.isPrecert with
  | false =>
    have hB : Fits [.lenp 3, .lenp 2] [e.certificate, ext] := by
      simp only [Fits, Field.fits]; exact ⟨hc, hextl, trivial⟩
    refine ⟨enc ([.fixed 1, .fixed 1, .fixed 8, .fixed 2] ++ [.lenp 3, .lenp 2])
        ([[0], [0], toBE 8 (u64 e.timestamp), toBE 2 0] ++ [e.certificate, ext]), ext, ?_, rfl, hrext, ?_⟩
    · have : Fits (schemaOf (merkleLeafSpec false)) (valuesOf (merkleLeafSpec false) (e, ext)) :=
        Fits_append (hP _ (toBE_length _ _)) hB
      simp only [encSpec, encChecked, this, if_true]; rfl
    · unfold mtlView
      have := dec_enc_append [.fixed 1, .fixed 1, .fixed 8, .fixed 2] [.lenp 3, .lenp 2]
        [[0], [0], toBE 8 (u64 e.timestamp), toBE 2 0] [e.certificate, ext] [] (hP _ (toBE_length _ _))
      rw [List.append_nil] at this
      rw [this]
      have h0 : fromBE (toBE 2 0) = 0 := by decide
      simp only [h0, if_true]
      have := dec_enc [.lenp 3, .lenp 2] [e.certificate, ext] [] hB
      rw [this, hts]
      simp
  | true =>
    have hB : Fits [.fixed 32, .lenp 3, .lenp 2] [e.issuerKeyHash, e.certificate, ext] := by
      simp only [Fits, Field.fits]; exact ⟨hikh, hc, hextl, trivial⟩
    refine ⟨enc ([.fixed 1, .fixed 1, .fixed 8, .fixed 2] ++ [.fixed 32, .lenp 3, .lenp 2])
        ([[0], [0], toBE 8 (u64 e.timestamp), toBE 2 1] ++ [e.issuerKeyHash, e.certificate, ext]), ext, ?_, rfl, hrext, ?_⟩
    · have : Fits (schemaOf (merkleLeafSpec true)) (valuesOf (merkleLeafSpec true) (e, ext)) :=
        Fits_append (hP _ (toBE_length _ _)) hB
      simp only [encSpec, encChecked, this, if_true]; rfl
    · unfold mtlView
      have := dec_enc_append [.fixed 1, .fixed 1, .fixed 8, .fixed 2] [.fixed 32, .lenp 3, .lenp 2]
        [[0], [0], toBE 8 (u64 e.timestamp), toBE 2 1] [e.issuerKeyHash, e.certificate, ext] [] (hP _ (toBE_length _ _))
      rw [List.append_nil] at this
      rw [this]
      have h1 : fromBE (toBE 2 1) = 1 := by decide
      simp only [h1]
      have := dec_enc [.fixed 32, .lenp 3, .lenp 2] [e.issuerKeyHash, e.certificate, ext] [] hB
      rw [this, hts]
      simp

theorem mtl_inj (e e' : LogEntry) (wf : WF e) (wf' : WF e') (h : merkleTreeLeaf e = merkleTreeLeaf e') :
    covered e = covered e' := by
  obtain ⟨bs, ext, hm, hx, hr, hv⟩ := mtl_view e wf
  obtain ⟨bs', ext', hm', hx', hr', hv'⟩ := mtl_view e' wf'
  rw [hm, hm'] at h
  cases h
  rw [hv] at hv'
  simp only [Option.some.injEq, Prod.mk.injEq] at hv'
  obtain ⟨hts, hp, hk, hcert, hext⟩ := hv'
  subst hext
  rw [hr] at hr'
  simp only [Except.ok.injEq, Prod.mk.injEq] at hr'
  obtain ⟨ha, hi⟩ := hr'
  have ht : e.timestamp = e'.timestamp := by
    have := wf.2.1; have := wf'.2.1; omega
  unfold covered
  rw [ht, hp, hcert, ha, hi]
  rw [hp] at hk
  rw [hk]

/-! ### ParseExtensions -/

theorem parseExtensions_index (n : Nat) (h : n < 1099511627776) (junk : Bytes) :
    parseExtensions (0 :: 0 :: 5 :: toBE 5 n ++ junk) = .ok (Int.ofNat n) := by
  have e : (0 :: 0 :: 5 :: toBE 5 n ++ junk : Bytes) = enc [.fixed 1, .lenp 2] [[0], toBE 5 n] ++ junk := by
    simp only [enc, encField, toBE_length]
    rfl
  unfold parseExtensions
  have hl : (0 :: 0 :: 5 :: toBE 5 n ++ junk : Bytes).length = (7 + junk.length) + 1 := by
    simp [toBE_length]; omega
  rw [hl]
  unfold parseExtensionsAux
  rw [if_neg (by simp)]
  rw [e, dec_enc _ _ _ (by simp only [Fits, Field.fits, toBE_length]; decide)]
  simp only [toBE_length, if_true]
  rw [fromBE_toBE 5 n (by simpa using h)]

/-- any two sufficient amounts of fuel agree -/
theorem parseExtensionsAux_fuel (f : Nat) : ∀ (b : Bytes) (f' : Nat), b.length ≤ f → b.length ≤ f' →
    parseExtensionsAux f b = parseExtensionsAux f' b := by
  induction f with
  | zero =>
    intro b f' h _
    have : b = [] := List.length_eq_zero_iff.mp (by omega)
    subst this
    cases f' <;> simp [parseExtensionsAux]
  | succ f ih =>
    intro b f' h h'
    cases f' with
    | zero =>
      have : b = [] := List.length_eq_zero_iff.mp (by omega)
      subst this
      simp [parseExtensionsAux]
    | succ f' =>
      simp only [parseExtensionsAux]
      split
      · rfl
      · cases hd : dec [.fixed 1, .lenp 2] b with
        | none => rfl
        | some p =>
          obtain ⟨vs, rest⟩ := p
          obtain ⟨ty, ext, rfl⟩ := list_len2 (dec_length hd)
          simp only
          split
          · rfl
          · obtain ⟨henc, hfit⟩ := dec_canonical _ _ _ _ hd
            have hlen : rest.length + 3 ≤ b.length := by
              rw [← henc]
              have : ty.length = 1 := hfit.1
              simp [enc, encField, toBE_length, this]
              omega
            exact ih rest f' (by omega) (by omega)

/-- `ParseExtensions` skips an extension of unknown type -/
theorem parseExtensions_skip (ty : UInt8) (data rest : Bytes) (hty : ty ≠ 0) (hlen : data.length < 65536) :
    parseExtensions (ty :: toBE 2 data.length ++ data ++ rest) = parseExtensions rest := by
  have e : (ty :: toBE 2 data.length ++ data ++ rest : Bytes) = enc [.fixed 1, .lenp 2] [[ty], data] ++ rest := by
    simp [enc, encField]
  unfold parseExtensions
  have hl : (ty :: toBE 2 data.length ++ data ++ rest : Bytes).length = (2 + data.length + rest.length) + 1 := by
    simp [toBE_length]; omega
  rw [hl]
  conv => lhs; unfold parseExtensionsAux
  rw [if_neg (by simp)]
  rw [e, dec_enc _ _ _ (by simp only [Fits, Field.fits]; exact ⟨rfl, hlen, trivial⟩)]
  simp only
  rw [if_neg (by simpa using hty)]
  exact parseExtensionsAux_fuel _ _ _ (by omega) (Nat.le_refl _)

/-! ### when the encoder panics -/

theorem extensionsOf_isSome (e : LogEntry) :
    (∃ ext, extensionsOf e = some ext) ↔ (e.archival = false → 0 ≤ e.leafIndex ∧ e.leafIndex < 1099511627776) := by
  unfold extensionsOf
  cases ha : e.archival with
  | true => simp
  | false =>
    simp only [Bool.false_eq_true, if_false, forall_const]
    constructor
    · intro ⟨ext, h⟩
      by_cases hr : e.leafIndex < 0 ∨ 1099511627776 ≤ e.leafIndex
      · rw [marshalExtensions_none hr] at h; cases h
      · omega
    · intro ⟨h0, h1⟩
      exact ⟨_, marshalExtensions_eq h0 h1⟩

theorem extensionsOf_length {e : LogEntry} {ext : Bytes} (h : extensionsOf e = some ext) : ext.length < 65536 := by
  unfold extensionsOf at h
  split at h
  · cases h; decide
  · by_cases hr : e.leafIndex < 0 ∨ 1099511627776 ≤ e.leafIndex
    · rw [marshalExtensions_none hr] at h; cases h
    · rw [marshalExtensions_eq (by omega) (by omega)] at h
      cases h
      simp [toBE_length]

theorem append_ne_none_iff (t : Bytes) (e : LogEntry) : appendTileLeaf t e ≠ none ↔ Encodable e := by
  unfold appendTileLeaf Encodable
  constructor
  · intro h
    cases hx : extensionsOf e with
    | none => rw [hx] at h; exact absurd rfl h
    | some ext =>
      rw [hx] at h
      have hidx := (extensionsOf_isSome e).mp ⟨ext, hx⟩
      cases hp : e.isPrecert with
      | false =>
        rw [hp] at h
        have hf : Fits (schemaOf (tileLeafSpec false)) (valuesOf (tileLeafSpec false) (e, ext)) := by
          by_cases hf : Fits (schemaOf (tileLeafSpec false)) (valuesOf (tileLeafSpec false) (e, ext))
          · exact hf
          · simp [encSpec, encChecked, hf] at h
        have hf' : Fits [.fixed 8, .fixed 2, .lenp 3, .lenp 2, .lenp 2]
          [toBE 8 (u64 e.timestamp), toBE 2 0, e.certificate, ext, e.chainFingerprints.flatten] := hf
        simp only [Fits, Field.fits] at hf'
        exact ⟨hf'.2.2.1, hf'.2.2.2.2.1, by simp, hidx⟩
      | true =>
        rw [hp] at h
        have hf : Fits (schemaOf (tileLeafSpec true)) (valuesOf (tileLeafSpec true) (e, ext)) := by
          by_cases hf : Fits (schemaOf (tileLeafSpec true)) (valuesOf (tileLeafSpec true) (e, ext))
          · exact hf
          · simp [encSpec, encChecked, hf] at h
        have hf' : Fits [.fixed 8, .fixed 2, .fixed 32, .lenp 3, .lenp 2, .lenp 3, .lenp 2]
          [toBE 8 (u64 e.timestamp), toBE 2 1, e.issuerKeyHash, e.certificate, ext, e.preCertificate,
            e.chainFingerprints.flatten] := hf
        simp only [Fits, Field.fits] at hf'
        exact ⟨hf'.2.2.2.1, hf'.2.2.2.2.2.2.1, fun _ => ⟨hf'.2.2.1, hf'.2.2.2.2.2.1⟩, hidx⟩
  · intro ⟨hc, hfl, hpre, hidx⟩
    obtain ⟨ext, hx⟩ := (extensionsOf_isSome e).mpr hidx
    have hel := extensionsOf_length hx
    rw [hx]
    cases hp : e.isPrecert with
    | false =>
      have hf : Fits (schemaOf (tileLeafSpec false)) (valuesOf (tileLeafSpec false) (e, ext)) := by
        show Fits [.fixed 8, .fixed 2, .lenp 3, .lenp 2, .lenp 2]
          [toBE 8 (u64 e.timestamp), toBE 2 0, e.certificate, ext, e.chainFingerprints.flatten]
        simp only [Fits, Field.fits, toBE_length]
        exact ⟨trivial, trivial, hc, hel, hfl, trivial⟩
      simp [encSpec, encChecked, hf]
    | true =>
      obtain ⟨hk, hpl⟩ := hpre hp
      have hf : Fits (schemaOf (tileLeafSpec true)) (valuesOf (tileLeafSpec true) (e, ext)) := by
        show Fits [.fixed 8, .fixed 2, .fixed 32, .lenp 3, .lenp 2, .lenp 3, .lenp 2]
          [toBE 8 (u64 e.timestamp), toBE 2 1, e.issuerKeyHash, e.certificate, ext, e.preCertificate,
            e.chainFingerprints.flatten]
        simp only [Fits, Field.fits, toBE_length]
        exact ⟨trivial, trivial, hk, hc, hel, hpl, hfl, trivial⟩
      simp [encSpec, encChecked, hf]

end Codec
