import Proofs.SeqStore
import Proofs.SeqSteps
/-! Store invariants, continued: the upload event and the assembly of `Inv3`. -/
namespace Seq

theorem bundle_mem_of_newAt {o : Nat} {tr : Tree} {items : List (TileId × Tree)}
    (hb : bundleOK o tr items = true) {t : TileId} (hn : NewAt o tr.length t = true) (hl : t.kind.level < 8) :
    t ∈ items.map (·.1) := by
  simp only [bundleOK, Bool.and_eq_true, List.all_eq_true] at hb
  have := hb.1.2 t (mem_newTilesList hn hl)
  simpa using this

theorem bundle_slice {o : Nat} {tr : Tree} {items : List (TileId × Tree)}
    (hb : bundleOK o tr items = true) {p : TileId × Tree} (hp : p ∈ items) : p.2 = p.1.slice tr := by
  simp only [bundleOK, Bool.and_eq_true, List.all_eq_true] at hb
  have := hb.1.1 p hp
  simp only [Bool.and_eq_true, beq_iff_eq] at this
  exact this.2

/-- all tiles of the staged bundle are in the store with the new tree's content, and the old tree is
    completely rendered: then so is the new tree -/
theorem complete_of_bundle {st : Store} {old new : Tree} {items : List (TileId × Tree)}
    (hc : Complete st old) (hp : old <+: new) (hb : bundleOK old.length new items = true)
    (hg : ∀ t ∈ items.map (·.1), Good st new t) : Complete st new :=
  complete_extend hc hp fun t hn hl => hg t (bundle_mem_of_newAt hb hn hl)

theorem sok_upload (s s' : Sys) {i k imm o r : _} (hinv : Inv3 s) (h1 : Inv s)
    (h : step s (.upload i k imm o r) = some s') : SOK s'.store (s'.insts i) := by
  have hi := hinv.inst i
  have h1i := h1.inst i
  obtain ⟨hup, himm⟩ := upload_store s s' i k imm o r h
  have hle := storeUpload_tileLe hup himm
  simp only [step] at h
  split at h
  · cases h
  · rename_i st' heq
    have hst : s'.store = st' := by rw [heq] at hup; injection hup with hup; exact hup.symm
    rw [hst] at hle ⊢
    split at h
    · -- creating ckptUpload, ckpt
      rename_i c hph
      split at h
      · cases h
      · cases r <;> simp only at h <;> (injection h with h; subst h) <;> (split <;> simp [Sys.setInst, upd, SOK])
    · -- creating rootsUpload
      rename_i hph
      cases r <;> simp only at h <;> (injection h with h; subst h) <;> simp [Sys.setInst, upd, SOK]
    · -- round, staging upload: stage → cas | done failed
      rename_i rd t hph
      split at h
      · rename_i hpc
        split at h
        · rename_i items
          split at h
          · cases h
          · rename_i hg
            simp only [not_or, ne_eq, Decidable.not_not, Bool.not_eq_true, Bool.not_eq_eq_eq_not, Bool.not_true,
              Bool.not_false] at hg
            simp only [SOK, hph, hpc] at hi
            simp only [InstOK, RoundOK, hph, hpc] at h1i
            obtain ⟨hcomp, hne⟩ := hi
            obtain ⟨_, hold, ⟨add, hadd⟩, _⟩ := h1i
            have hb : bundleOK rd.old.leaves.length rd.new.leaves items = true := by
              cases hbb : bundleOK rd.old.leaves.length rd.new.leaves items <;> simp_all
            cases r <;> simp only at h <;> (injection h with h; subst h) <;>
              simp only [Sys.setInst, upd, if_true, SOK]
            · refine ⟨hcomp.mono hle, fun he => absurd he hne, fun _ => ⟨?_, items, rfl, hb⟩⟩
              rw [hold, hadd]; exact List.prefix_append _ _
            all_goals exact hcomp.mono hle
        · cases h
      · cases h
    · -- round, tile upload: tiles done failed → tiles (t :: done) failed'
      rename_i rd t hph
      split at h
      · rename_i done failed hpc
        split at h
        · cases h
        · rename_i hg
          simp only [not_or, ne_eq, Decidable.not_not, Bool.not_eq_true, Bool.not_eq_eq_eq_not, Bool.not_true,
            Bool.not_false] at hg
          obtain ⟨himm', ho, _, _⟩ := hg
          simp only [SOK, hph, hpc] at hi
          obtain ⟨hcomp, hb, hgood⟩ := hi
          injection h with h; subst h
          simp only [Sys.setInst, upd, if_true, SOK]
          refine ⟨hcomp.mono hle, hb, ?_⟩
          intro hf t' ht'
          have hfr : failed = false ∧ r = .ok := by
            cases failed <;> cases r <;> simp_all
          have himm'' : imm = true := by cases imm <;> simp_all
          subst himm''
          rcases List.mem_cons.1 ht' with rfl | hm
          · have := storeUpload_applied heq (Or.inl hfr.2)
            rw [ho] at this; exact this
          · exact (hgood hfr.1 t' hm).mono hle
      · cases h
    · -- round, checkpoint upload (every staged tile done): → discard | done ok | done failed
      rename_i rd hph
      -- the new tree is completely rendered once the batch is over
      have hnew : (match rd.pc with
          | .ckpt => true
          | .tiles done failed => !failed && rd.bundle.all (done.contains ·)
          | _ => false) = true → Complete st' (s.insts i).tree.leaves := by
        intro hready
        cases hpc : rd.pc with
        | ckpt =>
          simp only [SOK, hph, hpc] at hi
          exact hi.mono hle
        | tiles done failed =>
          simp only [hpc, Bool.and_eq_true, Bool.not_eq_true', List.all_eq_true] at hready
          simp only [SOK, hph, hpc] at hi
          simp only [InstOK, RoundOK, hph, hpc] at h1i
          obtain ⟨hcomp, ⟨hpre, items, hbi, hb⟩, hgood⟩ := hi
          obtain ⟨_, hnewtree⟩ := h1i
          rw [← hnewtree]
          refine (complete_of_bundle hcomp hpre hb ?_).mono hle
          intro t ht
          rw [← hbi] at ht
          have := hready.2 t ht
          exact hgood hready.1 t (by simpa using this)
        | _ => simp [hpc] at hready
      split at h
      · rename_i hready
        have hc := hnew hready
        split at h
        · cases h
        · cases r <;> simp only [Res.applied, if_true, if_false, Bool.false_eq_true] at h <;>
            (injection h with h; subst h)
          · -- ok
            by_cases hs : rd.slots.isEmpty = true
            · simp only [Sys.setInst, upd, if_true, SOK, hs]; exact hc
            · have hs' : rd.slots.isEmpty = false := by simpa using hs
              simp only [Sys.setInst, upd, if_true, SOK, hs', Bool.false_eq_true, if_false]; exact hc
          all_goals (simp only [Sys.setInst, upd, if_true, SOK]; exact hc)
      · cases h
    · -- recovery: one tile of the fetched bundle is re-applied
      rename_i c rem failed t hph
      simp only [SOK, hph] at hi
      obtain ⟨old, items, hb, hpre, hcomp, hsub, hgood⟩ := hi
      split at h
      · rename_i t0 xs hfind
        split at h
        · cases h
        · rename_i hg
          simp only [not_or, ne_eq, Decidable.not_not, Bool.not_eq_true, Bool.not_eq_eq_eq_not, Bool.not_true,
            Bool.not_false] at hg
          obtain ⟨himm', ho⟩ := hg
          have himm'' : imm = true := by cases imm <;> simp_all
          subst himm''
          have hmem : (t0, xs) ∈ rem := List.mem_of_find?_eq_some hfind
          have ht0 : t0 = t := by
            have := List.find?_some hfind
            simpa using this
          subst ht0
          have hxs : xs = t0.slice c.leaves := bundle_slice hb (hsub _ hmem)
          -- invariant of the remaining work after this upload
          have hstep : ∀ failed', (failed' = (failed || r != .ok)) →
              (failed' = false → ∀ p ∈ items, p ∉ rem.filter (fun p => p.1 != t0) → Good st' c.leaves p.1) := by
            intro failed' hf' hff p hp hnp
            have hfr : failed = false ∧ r = .ok := by
              subst hf'; cases failed <;> cases r <;> simp_all
            by_cases hpt : p.1 = t0
            · have := storeUpload_applied heq (Or.inl hfr.2)
              rw [ho, hxs] at this
              rw [hpt]; exact this
            · have hnr : p ∉ rem := by
                intro hpr
                exact hnp (List.mem_filter.2 ⟨hpr, by simpa using hpt⟩)
              exact (hgood hfr.1 p hp hnr).mono hle
          split at h
          · -- last tile, no failure: the lock checkpoint's tree is completely rendered
            rename_i hlast
            injection h with h; subst h
            simp only [Sys.setInst, upd, if_true, SOK]
            obtain ⟨hemp, hnf⟩ := hlast
            have hff : (failed || r != .ok) = false := by
              cases hh : (failed || r != .ok) <;> simp_all
            refine complete_of_bundle (hcomp.mono hle) hpre hb ?_
            intro t' ht'
            obtain ⟨p, hp, rfl⟩ := List.mem_map.1 ht'
            refine hstep _ rfl hff p hp ?_
            have : rem.filter (fun p => p.1 != t0) = [] := by simpa using hemp
            rw [this]; simp
          · injection h with h; subst h
            simp only [Sys.setInst, upd, if_true, SOK]
            refine ⟨old, items, hb, hpre, hcomp.mono hle, ?_, hstep _ rfl⟩
            intro p hp
            exact hsub p (List.mem_filter.1 hp).1
      · cases h
    · -- issuer upload: the phase does not change
      split at h
      · cases h
      · cases r <;> simp only at h <;> (injection h with h; subst h) <;>
          (simp only [Sys.setInst, upd, if_true]; exact SOK.mono hle hi)
    · cases h

end Seq

namespace Seq

/-- a checkpoint upload that takes effect pushes exactly that checkpoint onto the publication history -/
theorem upload_ckpt_pub (s s' : Sys) (i : Nat) (imm : Bool) (o : Obj) (r : Res)
    (h : step s (.upload i .ckpt imm o r) = some s') :
    (r.applied = true → ∃ c, o = .ck c ∧ s'.pubHist = c :: s.pubHist) ∧
    (r.applied = false → s'.pubHist = s.pubHist) := by
  simp only [step] at h
  repeat' split at h
  all_goals (first | cases h | skip)
  all_goals (try (injection h with h; subst h))
  all_goals (simp_all [Sys.setInst, Res.applied])

/-- a staging upload is accepted only from a round in the `stage` state, for that round's new tree,
    with exactly the tiles of its growth step -/
theorem upload_staging_facts (s s' : Sys) (i : Nat) (k : Key) (tr : Tree) (imm : Bool) (o : Obj) (r : Res)
    (hk : k = .staging tr) (h : step s (.upload i k imm o r) = some s') :
    ∃ rd items, (s.insts i).phase = .round rd ∧ rd.pc = .stage ∧ tr = rd.new.leaves ∧ o = .bundle items ∧
      imm = true ∧ bundleOK rd.old.leaves.length rd.new.leaves items = true := by
  simp only [step] at h
  split at h
  · cases h
  · rename_i st' heq
    split at h
    · cases hk
    · cases hk
    · rename_i rd t hph
      injection hk with hk; subst hk
      split at h
      · rename_i hpc
        split at h
        · rename_i items
          split at h
          · cases h
          · rename_i hg
            simp only [not_or, ne_eq, Decidable.not_not, Bool.not_eq_true', Bool.not_eq_true, Bool.not_eq_eq_eq_not,
              Bool.not_true, Bool.not_false] at hg
            refine ⟨rd, items, hph, hpc, hg.1, rfl, ?_, ?_⟩
            · cases imm <;> simp_all
            · cases hb : bundleOK rd.old.leaves.length rd.new.leaves items <;> simp_all
        · cases h
      · cases h
    · cases hk
    · cases hk
    · cases hk
    · cases hk
    · cases h

set_option maxRecDepth 4000 in
set_option maxHeartbeats 4000000 in
/-- only a checkpoint upload that takes effect extends the publication history -/
theorem step_pubHist_ckpt (s s' : Sys) (e : Ev) (h : step s e = some s') :
    s'.pubHist = s.pubHist ∨ ∃ i imm c r, e = .upload i .ckpt imm (.ck c) r ∧ s'.pubHist = c :: s.pubHist := by
  cases e
  case upload i k imm o r =>
    cases k
    case ckpt =>
      obtain ⟨h1, h2⟩ := upload_ckpt_pub s s' i imm o r h
      cases hr : r.applied
      · exact Or.inl (h2 hr)
      · obtain ⟨c, rfl, hc⟩ := h1 hr
        exact Or.inr ⟨i, imm, c, r, rfl, hc⟩
    all_goals (left; simp only [step] at h <;> (repeat' split at h) <;>
      simp_all [Sys.setInst] <;> (try (subst h; simp_all)))
  all_goals (left; simp only [step] at h <;> (repeat' split at h) <;>
    simp_all [Sys.setInst] <;> (try (subst h; simp_all)))

theorem storeUpload_other {st st' : Store} {k k' : Key} {imm : Bool} {o : Obj} {r : Res}
    (h : storeUpload st k imm o r = some st') (hk : k' ≠ k) : st' k' = st k' := by
  unfold storeUpload at h
  split at h
  · split at h
    all_goals (cases r <;> simp at h <;> (subst h) <;> simp [updK, hk])
  · cases r <;> simp at h <;> (subst h) <;> simp [updK, hk]

theorem storeUpload_at {st st' : Store} {k : Key} {imm : Bool} {o : Obj} {r : Res}
    (h : storeUpload st k imm o r = some st') (hr : r.applied = true) : st' k = some (o, imm) := by
  unfold storeUpload at h
  split at h
  · split at h
    all_goals (cases r <;> simp [Res.applied] at hr <;> simp at h <;> (subst h; simp [updK]))
  · cases r <;> simp [Res.applied] at hr <;> simp at h <;> (subst h; simp [updK])

theorem storeUpload_not_applied {st st' : Store} {k : Key} {imm : Bool} {o : Obj} {r : Res}
    (h : storeUpload st k imm o r = some st') (hr : r.applied = false) : st' = st := by
  unfold storeUpload at h
  split at h
  · split at h
    all_goals (cases r <;> simp [Res.applied] at hr <;> simp at h <;> exact h.symm)
  · cases r <;> simp [Res.applied] at hr <;> simp at h <;> exact h.symm

set_option maxRecDepth 4000 in
set_option maxHeartbeats 4000000 in
/-- only uploads, discards and tampering touch the object store -/
theorem step_store_same_unless (s s' : Sys) (e : Ev) (h : step s e = some s') :
    (∃ i k imm o r, e = .upload i k imm o r) ∨ (∃ i k r, e = .discard i k r) ∨ (∃ k o, e = .tamper k o) ∨
      s'.store = s.store := by
  cases e
  case upload i k imm o r => exact Or.inl ⟨i, k, imm, o, r, rfl⟩
  case discard i k r => exact Or.inr (Or.inl ⟨i, k, r, rfl⟩)
  case tamper k o => exact Or.inr (Or.inr (Or.inl ⟨k, o, rfl⟩))
  all_goals (right; right; right; simp only [step] at h <;> (repeat' split at h) <;>
    simp_all [Sys.setInst] <;> (try (subst h; simp_all)))

/-- a discard removes at most the staging key it names -/
theorem discard_store (s s' : Sys) (i : Nat) (k : Key) (r : Res) (h : step s (.discard i k r) = some s') :
    ∀ k', k' ≠ k → s'.store k' = s.store k' := by
  intro k' hk
  simp only [step] at h
  repeat' split at h
  all_goals (first | cases h | skip)
  all_goals (simp only [Sys.setInst])
  all_goals (try rfl)
  all_goals (try split)
  all_goals (try (simp_all [updK]))


theorem step_sok (s s' : Sys) (e : Ev) (i : Nat) (he : e.inst = some i) (h3 : Inv3 s) (h1 : Inv s)
    (h : step s e = some s') : SOK s'.store (s'.insts i) := by
  cases e <;> simp only [Ev.inst, Option.some.injEq, reduceCtorEq] at he <;> subst he
  · exact sok_launchCreate s s' h3 h1 h
  · exact sok_launchLoad s s' h3 h1 h
  · exact sok_launchRound s s' h3 h1 h
  · exact sok_launchSubmit s s' h3 h1 h
  · exact sok_config s s' h3 h1 h
  · exact sok_clock s s' h3 h1 h
  · exact sok_lockFetch s s' h3 h1 h
  · exact sok_lockCreate s s' h3 h1 h
  · exact sok_lockReplace s s' h3 h1 h
  · exact sok_fetch s s' h3 h1 h
  · exact sok_upload s s' h3 h1 h
  · exact sok_discard s s' h3 h1 h
  · exact sok_submitted s s' h3 h1 h
  · exact sok_ack s s' h3 h1 h
  · exact sok_nackEvicted s s' h3 h1 h
  · exact sok_nack s s' h3 h1 h
  · exact sok_created s s' h3 h1 h
  · exact sok_createFail s s' h3 h1 h
  · exact sok_loaded s s' h3 h1 h
  · exact sok_loadFail s s' h3 h1 h
  · exact sok_roundEnd s s' h3 h1 h
  · exact sok_crash s s' h3 h1 h
  · exact sok_cacheLose s s' h3 h1 h

/-- after its checkpoint upload a round's instance sits on the uploaded tree, completely rendered -/
theorem ckpt_upload_round (s s' : Sys) (i : Nat) (imm : Bool) (o : Obj) (r : Res) (rd : Round)
    (hph : (s.insts i).phase = .round rd) (h : step s (.upload i .ckpt imm o r) = some s') :
    (s'.insts i).tree = (s.insts i).tree ∧
    ∃ rd', (s'.insts i).phase = .round rd' ∧ (rd'.pc = .discard ∨ rd'.pc = .done .ok ∨ rd'.pc = .done .failed) := by
  simp only [step, hph] at h
  repeat' split at h
  all_goals (first | cases h | skip)
  all_goals (simp [Sys.setInst, upd])
  all_goals (try (split <;> simp))

theorem ckpt_upload_creating (s s' : Sys) (i : Nat) (imm : Bool) (o : Obj) (r : Res) (pc : CreatePc)
    (hph : (s.insts i).phase = .creating pc) (h : step s (.upload i .ckpt imm o r) = some s') :
    ∃ c, pc = .ckptUpload c ∧ o = .ck c := by
  simp only [step, hph] at h
  repeat' split at h
  all_goals (first | cases h | skip)
  all_goals (simp_all)

theorem inv3_step (s s' : Sys) (e : Ev) (h3 : Inv3 s) (h1 : Inv s) (h : step s e = some s')
    (ht : s'.tampered = false) : Inv3 s' := by
  have hle := step_tileLe s s' e h ht
  have hsub := step_pubHist_sub s s' e h
  have hinst : ∀ j, SOK s'.store (s'.insts j) := by
    intro j
    by_cases hj : e.inst = some j
    · exact step_sok s s' e j hj h3 h1 h
    · rw [step_insts_other s s' e h j hj]; exact (h3.inst j).mono hle
  refine ⟨?_, ?_, ?_, hinst⟩
  · -- published checkpoints are completely rendered
    intro c hc
    rcases step_pubHist_ckpt s s' e h with hp | ⟨i, imm, c', r, rfl, hp⟩
    · rw [hp] at hc; exact (h3.pub c hc).mono hle
    · rw [hp] at hc
      cases hc with
      | tail _ hc' => exact (h3.pub c hc').mono hle
      | head =>
        have hsok := hinst i
        cases hph : (s.insts i).phase with
        | creating pc =>
          obtain ⟨c0, rfl, hc0⟩ := ckpt_upload_creating s s' i imm _ r pc hph h
          injection hc0 with hc0; subst hc0
          have := h3.inst i
          simp only [SOK, hph] at this
          rw [this]; exact complete_nil _
        | round rd =>
          obtain ⟨htree, rd', hph', hpc'⟩ := ckpt_upload_round s s' i imm _ r rd hph h
          obtain ⟨ho, hready⟩ := ckpt_after_tiles s s' i imm _ r rd hph h
          injection ho with ho
          have h1i := h1.inst i
          have hnew : rd.new = (s.insts i).tree := by
            simp only [InstOK, RoundOK, hph] at h1i
            rcases hready with hpc | ⟨done, hpc, _⟩ <;> (rw [hpc] at h1i; exact h1i.2)
          have hcomp : Complete s'.store (s'.insts i).tree.leaves := by
            simp only [SOK, hph'] at hsok
            rcases hpc' with hpc | hpc | hpc <;> (rw [hpc] at hsok; exact hsok)
          rw [ho, hnew, ← htree]; exact hcomp
        | down => simp only [step, hph] at h; split at h <;> cases h
        | loading pc => simp only [step, hph] at h; split at h <;> (try cases h) <;> (repeat' split at h) <;> (first | cases h | skip)
        | idle => simp only [step, hph] at h; split at h <;> cases h
        | stopped => simp only [step, hph] at h; split at h <;> cases h
  · -- the checkpoint object is always a published checkpoint
    intro c imm hc
    rcases step_store_same_unless s s' e h with ⟨i, k, imm', o, r, rfl⟩ | ⟨i, k, r, rfl⟩ | ⟨k, o, rfl⟩ | hsame
    · obtain ⟨hup, _⟩ := upload_store s s' i k imm' o r h
      by_cases hk : k = .ckpt
      · subst hk
        obtain ⟨hp1, hp2⟩ := upload_ckpt_pub s s' i imm' o r h
        cases hr : r.applied
        · rw [storeUpload_not_applied hup hr] at hc
          exact hsub c (h3.ckpt c imm hc)
        · have := storeUpload_at hup hr
          rw [this] at hc
          obtain ⟨c', rfl, hp⟩ := hp1 hr
          injection hc with hc; injection hc with hc1 _; injection hc1 with hc1
          subst hc1; rw [hp]; exact List.mem_cons_self
      · rw [storeUpload_other hup (Ne.symm hk)] at hc
        exact hsub c (h3.ckpt c imm hc)
    · have hk : Key.ckpt ≠ k := by
        intro hk; subst hk; simp [step] at h
        repeat' split at h
        all_goals simp_all
      rw [discard_store s s' i k r h _ hk] at hc
      exact hsub c (h3.ckpt c imm hc)
    · simp [step] at h; subst h; simp at ht
    · rw [hsame] at hc; exact hsub c (h3.ckpt c imm hc)
  · -- a staged bundle belongs to a completely rendered base tree
    intro tr items imm hs
    have keep : s.store (.staging tr) = some (.bundle items, imm) →
        ∃ old, bundleOK (List.length old) tr items = true ∧ old <+: tr ∧ Complete s'.store old := by
      intro hs0
      obtain ⟨old, a, b, c⟩ := h3.staged tr items imm hs0
      exact ⟨old, a, b, c.mono hle⟩
    rcases step_store_same_unless s s' e h with ⟨i, k, imm', o, r, rfl⟩ | ⟨i, k, r, rfl⟩ | ⟨k, o, rfl⟩ | hsame
    · obtain ⟨hup, _⟩ := upload_store s s' i k imm' o r h
      by_cases hk : k = .staging tr
      · obtain ⟨rd, items', hph, hpc, htr, ho, himm, hb⟩ := upload_staging_facts s s' i k tr imm' o r hk h
        subst hk
        cases hr : r.applied
        · rw [storeUpload_not_applied hup hr] at hs; exact keep hs
        · have := storeUpload_at hup hr
          rw [this, ho] at hs
          injection hs with hs; injection hs with hs1 _; injection hs1 with hs1
          subst hs1
          have hi := h3.inst i
          have h1i := h1.inst i
          simp only [SOK, hph, hpc] at hi
          simp only [InstOK, RoundOK, hph, hpc] at h1i
          obtain ⟨_, hold, ⟨add, hadd⟩, _⟩ := h1i
          refine ⟨(s.insts i).tree.leaves, ?_, ?_, hi.1.mono hle⟩
          · rw [htr, ← hold]; exact hb
          · rw [htr, hadd]; exact List.prefix_append _ _
      · rw [storeUpload_other hup (Ne.symm hk)] at hs; exact keep hs
    · by_cases hk : Key.staging tr = k
      · subst hk
        -- the key was discarded (or the discard did not apply)
        simp only [step] at h
        repeat' split at h
        all_goals (first | cases h | skip)
        all_goals (simp only [Sys.setInst] at hs)
        all_goals (try (split at hs))
        all_goals (first | (simp [updK] at hs; done) | exact keep hs)
      · rw [discard_store s s' i k r h _ hk] at hs; exact keep hs
    · simp [step] at h; subst h; simp at ht
    · rw [hsame] at hs; exact keep hs


theorem inv3_init (p : Nat) : Inv3 (init p) := by
  refine ⟨?_, ?_, ?_, ?_⟩
  · intro c hc; simp [init] at hc
  · intro c imm h; simp [init] at h
  · intro tr items imm h; simp [init] at h
  · intro i; simp [init, SOK]

theorem run_tampered (s s' : Sys) (es : List Ev) (h : run s es = some s') (ht : s'.tampered = false) :
    s.tampered = false := by
  induction es generalizing s with
  | nil => simp [run] at h; subst h; exact ht
  | cons e es ih =>
    simp only [run] at h
    split at h
    · rename_i s1 hs1
      exact (step_tampered s s1 e hs1 (ih s1 h)).1
    · cases h

theorem inv3_run (s s' : Sys) (es : List Ev) (h3 : Inv3 s) (h1 : Inv s) (h : run s es = some s')
    (ht : s'.tampered = false) : Inv3 s' := by
  induction es generalizing s with
  | nil => simp [run] at h; subst h; exact h3
  | cons e es ih =>
    simp only [run] at h
    split at h
    · rename_i s1 hs1
      have ht1 := run_tampered s1 s' es h ht
      exact ih s1 (inv3_step s s1 e h3 h1 hs1 ht1) (inv_step s s1 e h1 hs1) h
    · cases h

/-- without tampering, every reachable state satisfies the store invariants -/
theorem inv3_reachable {s : Sys} (h : Reachable s) (ht : s.tampered = false) : Inv3 s := by
  obtain ⟨p, es, h⟩ := h
  exact inv3_run _ _ es (inv3_init p) (inv_init p) h ht

end Seq
