import Proofs.SeqBasic
/-! Protocol invariants I1 (lock history is a chain), I2 (published ⊆ committed) and I8 (a running
instance sits on a committed tree) for every event sequence the model accepts. -/
namespace Seq

/-- `newer` extends `older`: same leaves plus possibly more, strictly later tree-head timestamp -/
def Ext (newer older : Ck) : Prop := older.leaves <+: newer.leaves ∧ older.time < newer.time

/-- newest-first list in which every element extends the next one -/
def Chain : List Ck → Prop
  | [] => True
  | [_] => True
  | a :: b :: rest => Ext a b ∧ Chain (b :: rest)

def RoundOK (H : List Ck) (x : Inst) (rd : Round) : Prop :=
  x.tree ∈ H ∧
  match rd.pc with
  | .stage | .cas => rd.old = x.tree ∧ (∃ add, rd.new.leaves = x.tree.leaves ++ add) ∧ x.tree.time < rd.new.time
  | .tiles _ _ | .ckpt => rd.new = x.tree
  | _ => True

def LoadOK (H : List Ck) : LoadPc → Prop
  | .clock1 c | .ckptFetch c | .clock2 c _ | .legacy c | .stagingFetch c | .apply c _ _ | .edge c _ => c ∈ H
  | _ => True

def InstOK (H : List Ck) (x : Inst) : Prop :=
  match x.phase with
  | .creating (.ckptUpload c) => c ∈ H
  | .loading pc => LoadOK H pc
  | .idle | .stopped => x.tree ∈ H
  | .round rd => RoundOK H x rd
  | _ => True

structure Inv (s : Sys) : Prop where
  head : s.lockHist.head? = s.lock
  chain : Chain s.lockHist
  pub : ∀ c ∈ s.pubHist, c ∈ s.lockHist
  inst : ∀ i, InstOK s.lockHist (s.insts i)

theorem LoadOK.mono {H H' : List Ck} (hs : ∀ c, c ∈ H → c ∈ H') {pc : LoadPc} (h : LoadOK H pc) : LoadOK H' pc := by
  cases pc <;> simp_all [LoadOK]

theorem InstOK.mono {H H' : List Ck} (hs : ∀ c, c ∈ H → c ∈ H') {x : Inst} (h : InstOK H x) : InstOK H' x := by
  unfold InstOK at *
  split <;> simp_all [RoundOK]
  · exact LoadOK.mono hs h

theorem step_lockHist_sub (s s' : Sys) (e : Ev) (h : step s e = some s') : ∀ c, c ∈ s.lockHist → c ∈ s'.lockHist := by
  intro c hc
  rcases step_lockHist s s' e h with h1 | ⟨d, h1, _⟩ <;> rw [h1]
  · exact hc
  · exact List.mem_cons_of_mem _ hc

end Seq

namespace Seq

theorem head_mem {H : List Ck} {c : Ck} (h : H.head? = some c) : c ∈ H := by
  cases H with
  | nil => simp at h
  | cons a t => simp at h; subst h; exact List.mem_cons_self

macro "seq_inst_brute" h:ident : tactic => `(tactic|
  (simp only [step] at $h:ident <;> (repeat' split at $h:ident) <;>
    simp_all [Sys.setInst, upd, InstOK, RoundOK, LoadOK] <;>
    (try (subst $h:ident; simp_all [upd, InstOK, RoundOK, LoadOK])) <;>
    (try (first | exact head_mem (by assumption) | (apply List.mem_cons_of_mem; assumption)))))
theorem inst_ok_launchCreate (s s' : Sys) {i : _} (hinv : Inv s)
    (h : step s (.launchCreate i) = some s') : InstOK s'.lockHist (s'.insts i) := by
  have hi := hinv.inst i
  have hh := hinv.head
  seq_inst_brute h
theorem inst_ok_launchLoad (s s' : Sys) {i : _} (hinv : Inv s)
    (h : step s (.launchLoad i) = some s') : InstOK s'.lockHist (s'.insts i) := by
  have hi := hinv.inst i
  have hh := hinv.head
  seq_inst_brute h
theorem inst_ok_launchRound (s s' : Sys) {i : _} (hinv : Inv s)
    (h : step s (.launchRound i) = some s') : InstOK s'.lockHist (s'.insts i) := by
  have hi := hinv.inst i
  have hh := hinv.head
  seq_inst_brute h
theorem inst_ok_launchSubmit (s s' : Sys) {i : _} (hinv : Inv s)
    (h : step s (.launchSubmit i) = some s') : InstOK s'.lockHist (s'.insts i) := by
  have hi := hinv.inst i
  have hh := hinv.head
  seq_inst_brute h
theorem inst_ok_config (s s' : Sys) {i bad : _} (hinv : Inv s)
    (h : step s (.config i bad) = some s') : InstOK s'.lockHist (s'.insts i) := by
  have hi := hinv.inst i
  have hh := hinv.head
  seq_inst_brute h
theorem inst_ok_clock (s s' : Sys) {i v : _} (hinv : Inv s)
    (h : step s (.clock i v) = some s') : InstOK s'.lockHist (s'.insts i) := by
  have hi := hinv.inst i
  have hh := hinv.head
  seq_inst_brute h
theorem inst_ok_lockFetch (s s' : Sys) {i r : _} (hinv : Inv s)
    (h : step s (.lockFetch i r) = some s') : InstOK s'.lockHist (s'.insts i) := by
  have hi := hinv.inst i
  have hh := hinv.head
  seq_inst_brute h
theorem inst_ok_lockCreate (s s' : Sys) {i c r : _} (hinv : Inv s)
    (h : step s (.lockCreate i c r) = some s') : InstOK s'.lockHist (s'.insts i) := by
  have hi := hinv.inst i
  have hh := hinv.head
  seq_inst_brute h
theorem inst_ok_lockReplace (s s' : Sys) {i old new r : _} (hinv : Inv s)
    (h : step s (.lockReplace i old new r) = some s') : InstOK s'.lockHist (s'.insts i) := by
  have hi := hinv.inst i
  have hh := hinv.head
  seq_inst_brute h
theorem inst_ok_fetch (s s' : Sys) {i k r : _} (hinv : Inv s)
    (h : step s (.fetch i k r) = some s') : InstOK s'.lockHist (s'.insts i) := by
  have hi := hinv.inst i
  have hh := hinv.head
  seq_inst_brute h
theorem inst_ok_upload (s s' : Sys) {i k imm o r : _} (hinv : Inv s)
    (h : step s (.upload i k imm o r) = some s') : InstOK s'.lockHist (s'.insts i) := by
  have hi := hinv.inst i
  have hh := hinv.head
  seq_inst_brute h
theorem inst_ok_discard (s s' : Sys) {i k r : _} (hinv : Inv s)
    (h : step s (.discard i k r) = some s') : InstOK s'.lockHist (s'.insts i) := by
  have hi := hinv.inst i
  have hh := hinv.head
  seq_inst_brute h
theorem inst_ok_submitted (s s' : Sys) {i eid key low iss src : _} (hinv : Inv s)
    (h : step s (.submitted i eid key low iss src) = some s') : InstOK s'.lockHist (s'.insts i) := by
  have hi := hinv.inst i
  have hh := hinv.head
  seq_inst_brute h
theorem inst_ok_ack (s s' : Sys) {i eid key idx ts : _} (hinv : Inv s)
    (h : step s (.ack i eid key idx ts) = some s') : InstOK s'.lockHist (s'.insts i) := by
  have hi := hinv.inst i
  have hh := hinv.head
  seq_inst_brute h
theorem inst_ok_nackEvicted (s s' : Sys) {i eid key : _} (hinv : Inv s)
    (h : step s (.nackEvicted i eid key) = some s') : InstOK s'.lockHist (s'.insts i) := by
  have hi := hinv.inst i
  have hh := hinv.head
  seq_inst_brute h
theorem inst_ok_nack (s s' : Sys) {i eid imm : _} (hinv : Inv s)
    (h : step s (.nack i eid imm) = some s') : InstOK s'.lockHist (s'.insts i) := by
  have hi := hinv.inst i
  have hh := hinv.head
  seq_inst_brute h
theorem inst_ok_created (s s' : Sys) {i : _} (hinv : Inv s)
    (h : step s (.created i) = some s') : InstOK s'.lockHist (s'.insts i) := by
  have hi := hinv.inst i
  have hh := hinv.head
  seq_inst_brute h
theorem inst_ok_createFail (s s' : Sys) {i : _} (hinv : Inv s)
    (h : step s (.createFail i) = some s') : InstOK s'.lockHist (s'.insts i) := by
  have hi := hinv.inst i
  have hh := hinv.head
  seq_inst_brute h
theorem inst_ok_loaded (s s' : Sys) {i c : _} (hinv : Inv s)
    (h : step s (.loaded i c) = some s') : InstOK s'.lockHist (s'.insts i) := by
  have hi := hinv.inst i
  have hh := hinv.head
  seq_inst_brute h
theorem inst_ok_loadFail (s s' : Sys) {i : _} (hinv : Inv s)
    (h : step s (.loadFail i) = some s') : InstOK s'.lockHist (s'.insts i) := by
  have hi := hinv.inst i
  have hh := hinv.head
  seq_inst_brute h
theorem inst_ok_roundEnd (s s' : Sys) {i c : _} (hinv : Inv s)
    (h : step s (.roundEnd i c) = some s') : InstOK s'.lockHist (s'.insts i) := by
  have hi := hinv.inst i
  have hh := hinv.head
  seq_inst_brute h
theorem inst_ok_crash (s s' : Sys) {i : _} (hinv : Inv s)
    (h : step s (.crash i) = some s') : InstOK s'.lockHist (s'.insts i) := by
  have hi := hinv.inst i
  have hh := hinv.head
  seq_inst_brute h
theorem inst_ok_cacheLose (s s' : Sys) {i : _} (hinv : Inv s)
    (h : step s (.cacheLose i) = some s') : InstOK s'.lockHist (s'.insts i) := by
  have hi := hinv.inst i
  have hh := hinv.head
  seq_inst_brute h
/-- the acting instance ends up in a state that satisfies its invariant -/
theorem step_inst_ok (s s' : Sys) (e : Ev) (i : Nat) (he : e.inst = some i) (hinv : Inv s)
    (h : step s e = some s') : InstOK s'.lockHist (s'.insts i) := by
  cases e <;> simp only [Ev.inst, Option.some.injEq, reduceCtorEq] at he <;> subst he
  · exact inst_ok_launchCreate s s' hinv h
  · exact inst_ok_launchLoad s s' hinv h
  · exact inst_ok_launchRound s s' hinv h
  · exact inst_ok_launchSubmit s s' hinv h
  · exact inst_ok_config s s' hinv h
  · exact inst_ok_clock s s' hinv h
  · exact inst_ok_lockFetch s s' hinv h
  · exact inst_ok_lockCreate s s' hinv h
  · exact inst_ok_lockReplace s s' hinv h
  · exact inst_ok_fetch s s' hinv h
  · exact inst_ok_upload s s' hinv h
  · exact inst_ok_discard s s' hinv h
  · exact inst_ok_submitted s s' hinv h
  · exact inst_ok_ack s s' hinv h
  · exact inst_ok_nackEvicted s s' hinv h
  · exact inst_ok_nack s s' hinv h
  · exact inst_ok_created s s' hinv h
  · exact inst_ok_createFail s s' hinv h
  · exact inst_ok_loaded s s' hinv h
  · exact inst_ok_loadFail s s' hinv h
  · exact inst_ok_roundEnd s s' hinv h
  · exact inst_ok_crash s s' hinv h
  · exact inst_ok_cacheLose s s' hinv h

end Seq

namespace Seq

theorem chain_cons {H : List Ck} {new old : Ck} (hh : H.head? = some old) (he : Ext new old) (hc : Chain H) :
    Chain (new :: H) := by
  cases H with
  | nil => simp at hh
  | cons a t => simp at hh; subst hh; exact ⟨he, hc⟩

theorem head_none {H : List Ck} (h : H.head? = none) : H = [] := by
  cases H <;> simp_all

theorem chain_push {s : Sys} {t n : Ck} (hinv : Inv s) (hl : s.lock = some t)
    (hadd : ∃ add, n.leaves = t.leaves ++ add) (ht : t.time < n.time) : Chain (n :: s.lockHist) := by
  refine chain_cons (old := t) (by rw [hinv.head]; exact hl) ⟨?_, ht⟩ hinv.chain
  obtain ⟨add, ha⟩ := hadd
  rw [ha]; exact List.prefix_append _ _

macro "seq_glob_brute" h:ident hinv:ident hi:ident : tactic => `(tactic|
  (simp only [step] at $h:ident <;> (repeat' split at $h:ident) <;>
    simp_all [Sys.setInst, upd, InstOK, RoundOK, LoadOK] <;>
    (try (subst $h:ident; simp_all [upd, InstOK, RoundOK, LoadOK])) <;>
    (try (simp [Chain])) <;>
    (try (exact chain_push $hinv:ident (by assumption) ($hi:ident).2.2.1 ($hi:ident).2.2.2)) <;>
    (try (split at $hi:ident <;> simp_all))))

theorem glob_launchCreate (s s' : Sys) {i : _} (hinv : Inv s)
    (h : step s (.launchCreate i) = some s') :
    s'.lockHist.head? = s'.lock ∧ Chain s'.lockHist ∧ (∀ c ∈ s'.pubHist, c ∈ s'.lockHist) := by
  have hi := hinv.inst i
  have hh := hinv.head
  have hc := hinv.chain
  have hp := hinv.pub
  seq_glob_brute h hinv hi
theorem glob_launchLoad (s s' : Sys) {i : _} (hinv : Inv s)
    (h : step s (.launchLoad i) = some s') :
    s'.lockHist.head? = s'.lock ∧ Chain s'.lockHist ∧ (∀ c ∈ s'.pubHist, c ∈ s'.lockHist) := by
  have hi := hinv.inst i
  have hh := hinv.head
  have hc := hinv.chain
  have hp := hinv.pub
  seq_glob_brute h hinv hi
theorem glob_launchRound (s s' : Sys) {i : _} (hinv : Inv s)
    (h : step s (.launchRound i) = some s') :
    s'.lockHist.head? = s'.lock ∧ Chain s'.lockHist ∧ (∀ c ∈ s'.pubHist, c ∈ s'.lockHist) := by
  have hi := hinv.inst i
  have hh := hinv.head
  have hc := hinv.chain
  have hp := hinv.pub
  seq_glob_brute h hinv hi
theorem glob_launchSubmit (s s' : Sys) {i : _} (hinv : Inv s)
    (h : step s (.launchSubmit i) = some s') :
    s'.lockHist.head? = s'.lock ∧ Chain s'.lockHist ∧ (∀ c ∈ s'.pubHist, c ∈ s'.lockHist) := by
  have hi := hinv.inst i
  have hh := hinv.head
  have hc := hinv.chain
  have hp := hinv.pub
  seq_glob_brute h hinv hi
theorem glob_config (s s' : Sys) {i bad : _} (hinv : Inv s)
    (h : step s (.config i bad) = some s') :
    s'.lockHist.head? = s'.lock ∧ Chain s'.lockHist ∧ (∀ c ∈ s'.pubHist, c ∈ s'.lockHist) := by
  have hi := hinv.inst i
  have hh := hinv.head
  have hc := hinv.chain
  have hp := hinv.pub
  seq_glob_brute h hinv hi
theorem glob_clock (s s' : Sys) {i v : _} (hinv : Inv s)
    (h : step s (.clock i v) = some s') :
    s'.lockHist.head? = s'.lock ∧ Chain s'.lockHist ∧ (∀ c ∈ s'.pubHist, c ∈ s'.lockHist) := by
  have hi := hinv.inst i
  have hh := hinv.head
  have hc := hinv.chain
  have hp := hinv.pub
  seq_glob_brute h hinv hi
theorem glob_lockFetch (s s' : Sys) {i r : _} (hinv : Inv s)
    (h : step s (.lockFetch i r) = some s') :
    s'.lockHist.head? = s'.lock ∧ Chain s'.lockHist ∧ (∀ c ∈ s'.pubHist, c ∈ s'.lockHist) := by
  have hi := hinv.inst i
  have hh := hinv.head
  have hc := hinv.chain
  have hp := hinv.pub
  seq_glob_brute h hinv hi
theorem glob_lockCreate (s s' : Sys) {i c r : _} (hinv : Inv s)
    (h : step s (.lockCreate i c r) = some s') :
    s'.lockHist.head? = s'.lock ∧ Chain s'.lockHist ∧ (∀ c ∈ s'.pubHist, c ∈ s'.lockHist) := by
  have hi := hinv.inst i
  have hh := hinv.head
  have hc := hinv.chain
  have hp := hinv.pub
  seq_glob_brute h hinv hi
theorem glob_lockReplace (s s' : Sys) {i old new r : _} (hinv : Inv s)
    (h : step s (.lockReplace i old new r) = some s') :
    s'.lockHist.head? = s'.lock ∧ Chain s'.lockHist ∧ (∀ c ∈ s'.pubHist, c ∈ s'.lockHist) := by
  have hi := hinv.inst i
  have hh := hinv.head
  have hc := hinv.chain
  have hp := hinv.pub
  seq_glob_brute h hinv hi
theorem glob_fetch (s s' : Sys) {i k r : _} (hinv : Inv s)
    (h : step s (.fetch i k r) = some s') :
    s'.lockHist.head? = s'.lock ∧ Chain s'.lockHist ∧ (∀ c ∈ s'.pubHist, c ∈ s'.lockHist) := by
  have hi := hinv.inst i
  have hh := hinv.head
  have hc := hinv.chain
  have hp := hinv.pub
  seq_glob_brute h hinv hi
theorem glob_upload (s s' : Sys) {i k imm o r : _} (hinv : Inv s)
    (h : step s (.upload i k imm o r) = some s') :
    s'.lockHist.head? = s'.lock ∧ Chain s'.lockHist ∧ (∀ c ∈ s'.pubHist, c ∈ s'.lockHist) := by
  have hi := hinv.inst i
  have hh := hinv.head
  have hc := hinv.chain
  have hp := hinv.pub
  seq_glob_brute h hinv hi
theorem glob_discard (s s' : Sys) {i k r : _} (hinv : Inv s)
    (h : step s (.discard i k r) = some s') :
    s'.lockHist.head? = s'.lock ∧ Chain s'.lockHist ∧ (∀ c ∈ s'.pubHist, c ∈ s'.lockHist) := by
  have hi := hinv.inst i
  have hh := hinv.head
  have hc := hinv.chain
  have hp := hinv.pub
  seq_glob_brute h hinv hi
theorem glob_submitted (s s' : Sys) {i eid key low iss src : _} (hinv : Inv s)
    (h : step s (.submitted i eid key low iss src) = some s') :
    s'.lockHist.head? = s'.lock ∧ Chain s'.lockHist ∧ (∀ c ∈ s'.pubHist, c ∈ s'.lockHist) := by
  have hi := hinv.inst i
  have hh := hinv.head
  have hc := hinv.chain
  have hp := hinv.pub
  seq_glob_brute h hinv hi
theorem glob_ack (s s' : Sys) {i eid key idx ts : _} (hinv : Inv s)
    (h : step s (.ack i eid key idx ts) = some s') :
    s'.lockHist.head? = s'.lock ∧ Chain s'.lockHist ∧ (∀ c ∈ s'.pubHist, c ∈ s'.lockHist) := by
  have hi := hinv.inst i
  have hh := hinv.head
  have hc := hinv.chain
  have hp := hinv.pub
  seq_glob_brute h hinv hi
theorem glob_nackEvicted (s s' : Sys) {i eid key : _} (hinv : Inv s)
    (h : step s (.nackEvicted i eid key) = some s') :
    s'.lockHist.head? = s'.lock ∧ Chain s'.lockHist ∧ (∀ c ∈ s'.pubHist, c ∈ s'.lockHist) := by
  have hi := hinv.inst i
  have hh := hinv.head
  have hc := hinv.chain
  have hp := hinv.pub
  seq_glob_brute h hinv hi
theorem glob_nack (s s' : Sys) {i eid imm : _} (hinv : Inv s)
    (h : step s (.nack i eid imm) = some s') :
    s'.lockHist.head? = s'.lock ∧ Chain s'.lockHist ∧ (∀ c ∈ s'.pubHist, c ∈ s'.lockHist) := by
  have hi := hinv.inst i
  have hh := hinv.head
  have hc := hinv.chain
  have hp := hinv.pub
  seq_glob_brute h hinv hi
theorem glob_created (s s' : Sys) {i : _} (hinv : Inv s)
    (h : step s (.created i) = some s') :
    s'.lockHist.head? = s'.lock ∧ Chain s'.lockHist ∧ (∀ c ∈ s'.pubHist, c ∈ s'.lockHist) := by
  have hi := hinv.inst i
  have hh := hinv.head
  have hc := hinv.chain
  have hp := hinv.pub
  seq_glob_brute h hinv hi
theorem glob_createFail (s s' : Sys) {i : _} (hinv : Inv s)
    (h : step s (.createFail i) = some s') :
    s'.lockHist.head? = s'.lock ∧ Chain s'.lockHist ∧ (∀ c ∈ s'.pubHist, c ∈ s'.lockHist) := by
  have hi := hinv.inst i
  have hh := hinv.head
  have hc := hinv.chain
  have hp := hinv.pub
  seq_glob_brute h hinv hi
theorem glob_loaded (s s' : Sys) {i c : _} (hinv : Inv s)
    (h : step s (.loaded i c) = some s') :
    s'.lockHist.head? = s'.lock ∧ Chain s'.lockHist ∧ (∀ c ∈ s'.pubHist, c ∈ s'.lockHist) := by
  have hi := hinv.inst i
  have hh := hinv.head
  have hc := hinv.chain
  have hp := hinv.pub
  seq_glob_brute h hinv hi
theorem glob_loadFail (s s' : Sys) {i : _} (hinv : Inv s)
    (h : step s (.loadFail i) = some s') :
    s'.lockHist.head? = s'.lock ∧ Chain s'.lockHist ∧ (∀ c ∈ s'.pubHist, c ∈ s'.lockHist) := by
  have hi := hinv.inst i
  have hh := hinv.head
  have hc := hinv.chain
  have hp := hinv.pub
  seq_glob_brute h hinv hi
theorem glob_roundEnd (s s' : Sys) {i c : _} (hinv : Inv s)
    (h : step s (.roundEnd i c) = some s') :
    s'.lockHist.head? = s'.lock ∧ Chain s'.lockHist ∧ (∀ c ∈ s'.pubHist, c ∈ s'.lockHist) := by
  have hi := hinv.inst i
  have hh := hinv.head
  have hc := hinv.chain
  have hp := hinv.pub
  seq_glob_brute h hinv hi
theorem glob_crash (s s' : Sys) {i : _} (hinv : Inv s)
    (h : step s (.crash i) = some s') :
    s'.lockHist.head? = s'.lock ∧ Chain s'.lockHist ∧ (∀ c ∈ s'.pubHist, c ∈ s'.lockHist) := by
  have hi := hinv.inst i
  have hh := hinv.head
  have hc := hinv.chain
  have hp := hinv.pub
  seq_glob_brute h hinv hi
theorem glob_cacheLose (s s' : Sys) {i : _} (hinv : Inv s)
    (h : step s (.cacheLose i) = some s') :
    s'.lockHist.head? = s'.lock ∧ Chain s'.lockHist ∧ (∀ c ∈ s'.pubHist, c ∈ s'.lockHist) := by
  have hi := hinv.inst i
  have hh := hinv.head
  have hc := hinv.chain
  have hp := hinv.pub
  seq_glob_brute h hinv hi
theorem glob_tamper (s s' : Sys) {k o : _} (hinv : Inv s)
    (h : step s (.tamper k o) = some s') :
    s'.lockHist.head? = s'.lock ∧ Chain s'.lockHist ∧ (∀ c ∈ s'.pubHist, c ∈ s'.lockHist) := by
  have hi := hinv.inst 0
  have hh := hinv.head
  have hc := hinv.chain
  have hp := hinv.pub
  seq_glob_brute h hinv hi
theorem step_glob (s s' : Sys) (e : Ev) (hinv : Inv s) (h : step s e = some s') :
    s'.lockHist.head? = s'.lock ∧ Chain s'.lockHist ∧ (∀ c ∈ s'.pubHist, c ∈ s'.lockHist) := by
  cases e
  · exact glob_launchCreate s s' hinv h
  · exact glob_launchLoad s s' hinv h
  · exact glob_launchRound s s' hinv h
  · exact glob_launchSubmit s s' hinv h
  · exact glob_config s s' hinv h
  · exact glob_clock s s' hinv h
  · exact glob_lockFetch s s' hinv h
  · exact glob_lockCreate s s' hinv h
  · exact glob_lockReplace s s' hinv h
  · exact glob_fetch s s' hinv h
  · exact glob_upload s s' hinv h
  · exact glob_discard s s' hinv h
  · exact glob_submitted s s' hinv h
  · exact glob_ack s s' hinv h
  · exact glob_nackEvicted s s' hinv h
  · exact glob_nack s s' hinv h
  · exact glob_created s s' hinv h
  · exact glob_createFail s s' hinv h
  · exact glob_loaded s s' hinv h
  · exact glob_loadFail s s' hinv h
  · exact glob_roundEnd s s' hinv h
  · exact glob_crash s s' hinv h
  · exact glob_cacheLose s s' hinv h
  · exact glob_tamper s s' hinv h

end Seq

namespace Seq

def init (poolSize : Nat) : Sys := { poolSize := poolSize }

theorem inv_init (p : Nat) : Inv (init p) := by
  refine ⟨rfl, trivial, ?_, ?_⟩
  · intro c hc; simp [init] at hc
  · intro i; simp [init, InstOK]

theorem inv_step (s s' : Sys) (e : Ev) (hinv : Inv s) (h : step s e = some s') : Inv s' := by
  obtain ⟨h1, h2, h3⟩ := step_glob s s' e hinv h
  refine ⟨h1, h2, h3, ?_⟩
  intro j
  by_cases hj : e.inst = some j
  · exact step_inst_ok s s' e j hj hinv h
  · rw [step_insts_other s s' e h j hj]
    exact InstOK.mono (step_lockHist_sub s s' e h) (hinv.inst j)

theorem inv_run (s s' : Sys) (es : List Ev) (hinv : Inv s) (h : run s es = some s') : Inv s' := by
  induction es generalizing s with
  | nil => simp [run] at h; subst h; exact hinv
  | cons e es ih =>
    simp only [run] at h
    split at h
    · rename_i s1 hs1
      exact ih s1 (inv_step s s1 e hinv hs1) h
    · cases h

/-- every state the model can reach from the empty system by any accepted event sequence -/
def Reachable (s : Sys) : Prop := ∃ p es, run (init p) es = some s

theorem inv_reachable {s : Sys} (h : Reachable s) : Inv s := by
  obtain ⟨p, es, h⟩ := h
  exact inv_run _ _ es (inv_init p) h

/-- any two elements of a pairwise-ordered list are related one way or the other -/
theorem pairwise_total {α : Type} {R : α → α → Prop} : ∀ {l : List α}, l.Pairwise R →
    ∀ a ∈ l, ∀ b ∈ l, a = b ∨ R a b ∨ R b a
  | [], _, a, ha, _, _ => by cases ha
  | x :: xs, h, a, ha, b, hb => by
    obtain ⟨hx, hxs⟩ := List.pairwise_cons.1 h
    cases ha with
    | head =>
      cases hb with
      | head => exact Or.inl rfl
      | tail _ hb' => exact Or.inr (Or.inl (hx b hb'))
    | tail _ ha' =>
      cases hb with
      | head => exact Or.inr (Or.inr (hx a ha'))
      | tail _ hb' => exact pairwise_total hxs a ha' b hb'

/-- a prefix agrees with the longer list on all its positions -/
theorem prefix_getElem? {α : Type} {l₁ l₂ : List α} (h : l₁ <+: l₂) {i : Nat} (hi : i < l₁.length) :
    l₂[i]? = l₁[i]? := by
  obtain ⟨t, rfl⟩ := h
  rw [List.getElem?_append_left hi]

/-- a chain is pairwise ordered: every earlier element is extended by every later one -/
theorem chain_pairwise : ∀ (H : List Ck), Chain H → H.Pairwise (fun newer older =>
    older.leaves <+: newer.leaves ∧ older.time < newer.time)
  | [], _ => List.Pairwise.nil
  | [a], _ => List.pairwise_singleton _ a
  | a :: b :: rest, h => by
    obtain ⟨hab, hrest⟩ := h
    have ih := chain_pairwise (b :: rest) hrest
    refine List.Pairwise.cons ?_ ih
    intro c hc
    cases hc with
    | head => exact hab
    | tail _ hc' =>
      have hbc := (List.pairwise_cons.1 ih).1 c hc'
      exact ⟨hbc.1.trans hab.1, Nat.lt_trans hbc.2 hab.2⟩

end Seq
