import Proofs.SeqStore2
/-! Recoverability invariants of the sequencer model (the remaining half of I5): without tampering,
every committed tree is empty, or published (by leaves), or its upload bundle is still staged; the
checkpoint object is a checkpoint; no legacy staging objects exist; tile objects are renderings of
committed trees; staged bundles are non-empty. Assembled as `Inv4`, preserved by every accepted
non-tamper step. The recovery run itself is in Proofs/SeqRecover2.lean. Core Lean only. -/
namespace Seq

/-! ### runs -/

theorem run_append (s : Sys) (a b : List Ev) :
    run s (a ++ b) = (run s a).bind fun s1 => run s1 b := by
  induction a generalizing s with
  | nil => simp [run]
  | cons e a ih =>
    simp only [List.cons_append, run]
    split
    · exact ih _
    · rfl

theorem run_append_some {s s1 s2 : Sys} {a b : List Ev} (h1 : run s a = some s1) (h2 : run s1 b = some s2) :
    run s (a ++ b) = some s2 := by
  rw [run_append, h1]; exact h2

theorem run_cons_some {s s1 s2 : Sys} {e : Ev} {b : List Ev} (h1 : step s e = some s1) (h2 : run s1 b = some s2) :
    run s (e :: b) = some s2 := by
  simp only [run, h1]; exact h2

theorem run_single {s s1 : Sys} {e : Ev} (h1 : step s e = some s1) : run s [e] = some s1 := by
  simp [run, h1]

theorem Reachable.run {s s' : Sys} (r : Reachable s) {es : List Ev} (h : run s es = some s') : Reachable s' := by
  obtain ⟨p, es0, h0⟩ := r
  exact ⟨p, es0 ++ es, run_append_some h0 h⟩

theorem Reachable.step {s s' : Sys} (r : Reachable s) {e : Ev} (h : step s e = some s') : Reachable s' :=
  r.run (run_single h)

/-! ### chains -/

/-- the head of a chain extends (or is) every element -/
theorem chain_head_le {a : Ck} {H : List Ck} (hc : Chain (a :: H)) :
    ∀ b ∈ a :: H, b.leaves <+: a.leaves ∧ b.time ≤ a.time := by
  intro b hb
  have hp := chain_pairwise _ hc
  cases hb with
  | head => exact ⟨List.prefix_refl _, Nat.le_refl _⟩
  | tail _ hb' =>
    have := (List.pairwise_cons.1 hp).1 b hb'
    exact ⟨this.1, Nat.le_of_lt this.2⟩

/-- the lock checkpoint extends (or is) every committed checkpoint -/
theorem lock_extends_hist {s : Sys} (hinv : Inv s) {c : Ck} (hl : s.lock = some c) :
    ∀ b ∈ s.lockHist, b.leaves <+: c.leaves ∧ b.time ≤ c.time := by
  have hh := hinv.head
  have hc := hinv.chain
  rw [hl] at hh
  cases hH : s.lockHist with
  | nil => rw [hH] at hh; simp at hh
  | cons a t =>
    rw [hH] at hh hc
    simp at hh; subst hh
    exact chain_head_le hc

theorem lock_mem_hist {s : Sys} (hinv : Inv s) {c : Ck} (hl : s.lock = some c) : c ∈ s.lockHist :=
  head_mem (by rw [hinv.head]; exact hl)

/-! ### tile arithmetic -/

/-- a tile written by a growth step to size `n` is needed by the tree of size `n` -/
theorem newAt_req {o n : Nat} {t : TileId} (h : NewAt o n t = true) : Req n t = true := by
  unfold NewAt at h
  unfold Req
  simp only [Bool.or_eq_true, Bool.and_eq_true, beq_iff_eq, decide_eq_true_eq, bne_iff_ne, ne_eq] at *
  obtain ⟨_, hc⟩ := h
  rcases hc with ⟨⟨hw, _⟩, hhi⟩ | hc
  · exact Or.inl ⟨hw, hhi⟩
  · exact Or.inr hc

theorem newAt_hi_le {o n : Nat} {t : TileId} (h : NewAt o n t = true) : t.hi ≤ n := req_hi_le (newAt_req h)

/-- a tile lying inside a prefix has the same content in every extension -/
theorem slice_prefix {tr tr' : Tree} {t : TileId} (hp : tr <+: tr') (hhi : t.hi ≤ tr.length) :
    t.slice tr' = t.slice tr := by
  have hlo := lo_le_hi t
  obtain ⟨ext, rfl⟩ := hp
  unfold TileId.slice Seq.slice
  rw [List.drop_append_of_le_length (by omega)]
  rw [List.take_append_of_le_length (by simp; omega)]

theorem newAtLevel_data_ne_nil {o n : Nat} (h : o < n) : newAtLevel o n .data ≠ [] := by
  unfold newAtLevel
  simp only [TKind.level, Nat.pow_zero, Nat.div_one]
  have hne : ¬ o = n := by omega
  simp only [hne, if_false]
  by_cases hm : n % 256 > 0
  · simp [hm]
  · have h0 : n % 256 = 0 := by omega
    have hlt : o / 256 < n / 256 := by omega
    intro hnil
    have hl := congrArg List.length hnil
    simp at hl
    omega

theorem newTilesList_ne_nil {o n : Nat} (h : o < n) : newTilesList o n ≠ [] := by
  unfold newTilesList
  intro hnil
  have := newAtLevel_data_ne_nil h
  simp only [List.append_eq_nil_iff] at hnil
  exact this hnil.1.1

theorem bundleOK_ne_nil {o : Nat} {tr : Tree} {items : List (TileId × Tree)}
    (hb : bundleOK o tr items = true) (h : o < tr.length) : items ≠ [] := by
  simp only [bundleOK, Bool.and_eq_true, beq_iff_eq] at hb
  have hl := hb.2
  have := newTilesList_ne_nil h
  intro hnil
  rw [hnil] at hl
  exact this (List.eq_nil_of_length_eq_zero hl.symm)

theorem bundle_newAt {o : Nat} {tr : Tree} {items : List (TileId × Tree)}
    (hb : bundleOK o tr items = true) {p : TileId × Tree} (hp : p ∈ items) : NewAt o tr.length p.1 = true := by
  simp only [bundleOK, Bool.and_eq_true, List.all_eq_true] at hb
  have := hb.1.1 p hp
  simp only [Bool.and_eq_true, beq_iff_eq] at this
  exact this.1

/-! ### the store under uploads -/

theorem storeUpload_at_cases {st st' : Store} {k : Key} {imm : Bool} {o : Obj} {r : Res}
    (h : storeUpload st k imm o r = some st') : st' k = st k ∨ st' k = some (o, imm) := by
  unfold storeUpload at h
  split at h
  · split at h
    all_goals (cases r <;> simp at h <;> (subst h) <;> simp [updK])
  · cases r <;> simp at h <;> (subst h) <;> simp [updK]

/-- an upload never removes an object -/
theorem storeUpload_some {st st' : Store} {k k' : Key} {imm : Bool} {o : Obj} {r : Res}
    (h : storeUpload st k imm o r = some st') (hs : (st k').isSome) : (st' k').isSome := by
  by_cases hk : k' = k
  · subst hk
    rcases storeUpload_at_cases h with h1 | h1 <;> rw [h1]
    · exact hs
    · rfl
  · rw [storeUpload_other h hk]; exact hs

end Seq

namespace Seq

/-! ### facts about individual events -/

/-- which keys the protocol ever uploads to -/
theorem upload_key_cases (s s' : Sys) (i : Nat) (k : Key) (imm : Bool) (o : Obj) (r : Res)
    (h : step s (.upload i k imm o r) = some s') :
    k = .ckpt ∨ k = .roots ∨ (∃ t, k = .staging t) ∨ (∃ t, k = .tile t) ∨ (∃ id, k = .issuer id) := by
  simp only [step] at h
  repeat' split at h
  all_goals (first | cases h | skip)
  all_goals simp

/-- a checkpoint upload carries a checkpoint and is mutable -/
theorem upload_ckpt_shape (s s' : Sys) (i : Nat) (imm : Bool) (o : Obj) (r : Res)
    (h : step s (.upload i .ckpt imm o r) = some s') : imm = false ∧ ∃ c, o = .ck c := by
  simp only [step] at h
  repeat' split at h
  all_goals (first | cases h | skip)
  all_goals (cases imm <;> simp_all)

/-- a tile upload is issued by a round in its tile batch or by a recovery applying a staged bundle -/
theorem upload_tile_facts (s s' : Sys) (i : Nat) (t : TileId) (imm : Bool) (o : Obj) (r : Res)
    (h : step s (.upload i (.tile t) imm o r) = some s') :
    imm = true ∧
    ((∃ rd done failed, (s.insts i).phase = .round rd ∧ rd.pc = .tiles done failed ∧
        o = .slice (t.slice rd.new.leaves) ∧ t ∈ rd.bundle) ∨
     (∃ c rem failed xs, (s.insts i).phase = .loading (.apply c rem failed) ∧ (t, xs) ∈ rem ∧ o = .slice xs)) := by
  simp only [step] at h
  split at h
  · cases h
  · split at h
    · rename_i hk; cases hk
    · rename_i hk; cases hk
    · rename_i hk; cases hk
    · -- round, tile
      rename_i rd t' hph hk
      injection hk with hk; subst hk
      split at h
      · rename_i done failed hpc
        split at h
        · cases h
        · rename_i hg
          simp only [not_or, ne_eq, Decidable.not_not, Bool.not_eq_true', Bool.not_eq_true, Bool.not_eq_eq_eq_not,
            Bool.not_true, Bool.not_false] at hg
          refine ⟨by cases imm <;> simp_all, Or.inl ⟨rd, done, failed, hph, hpc, hg.2.1, ?_⟩⟩
          have := hg.2.2.1
          simpa using this
      · cases h
    · rename_i hk; cases hk
    · -- loading apply, tile
      rename_i c rem failed t' hph hk
      injection hk with hk; subst hk
      split at h
      · rename_i t0 xs hfind
        split at h
        · cases h
        · rename_i hg
          simp only [not_or, ne_eq, Decidable.not_not, Bool.not_eq_true', Bool.not_eq_true, Bool.not_eq_eq_eq_not,
            Bool.not_true, Bool.not_false] at hg
          have hmem : (t0, xs) ∈ rem := List.mem_of_find?_eq_some hfind
          have ht0 : t0 = t := by
            have := List.find?_some hfind
            simpa using this
          subst ht0
          exact ⟨by cases imm <;> simp_all, Or.inr ⟨c, rem, failed, xs, hph, hmem, hg.2⟩⟩
      · cases h
    · rename_i hk; cases hk
    · cases h

set_option maxRecDepth 4000 in
set_option maxHeartbeats 4000000 in
/-- only lock creation and lock replacement touch the lock history -/
theorem step_lockHist_same_unless (s s' : Sys) (e : Ev) (h : step s e = some s') :
    (∃ i c r, e = .lockCreate i c r) ∨ (∃ i old new r, e = .lockReplace i old new r) ∨
      s'.lockHist = s.lockHist := by
  cases e
  case lockCreate i c r => exact Or.inl ⟨i, c, r, rfl⟩
  case lockReplace i old new r => exact Or.inr (Or.inl ⟨i, old, new, r, rfl⟩)
  all_goals (right; right; simp only [step] at h <;> (repeat' split at h) <;>
    simp_all [Sys.setInst] <;> (try (subst h; simp_all)))

/-- a created lock checkpoint is the one the creating instance computed -/
theorem lockCreate_grow (s s' : Sys) (i : Nat) (c : Ck) (r : Res) (h : step s (.lockCreate i c r) = some s') :
    s'.lockHist = s.lockHist ∨ (s'.lockHist = c :: s.lockHist ∧ (s.insts i).phase = .creating (.lockCreate c)) := by
  simp only [step] at h
  repeat' split at h
  all_goals (first | cases h | skip)
  all_goals (try (injection h with h; subst h))
  all_goals simp_all [Sys.setInst]

/-- a replaced lock checkpoint is the new tree of a round at its compare-and-swap -/
theorem lockReplace_grow (s s' : Sys) (i : Nat) (old new : Ck) (r : Res)
    (h : step s (.lockReplace i old new r) = some s') :
    s'.lockHist = s.lockHist ∨
    (s'.lockHist = new :: s.lockHist ∧ ∃ rd, (s.insts i).phase = .round rd ∧ rd.pc = .cas ∧ rd.new = new) := by
  simp only [step] at h
  repeat' split at h
  all_goals (first | cases h | skip)
  all_goals (try (injection h with h; subst h))
  all_goals simp_all [Sys.setInst]

end Seq

namespace Seq

/-! ### recoverable trees -/

/-- the upload bundle of tree `tr` is in the store -/
def Staged (st : Store) (tr : Tree) : Prop := ∃ items imm, st (.staging tr) = some (.bundle items, imm)

/-- some published checkpoint has exactly the leaves `tr` -/
def PubL (P : List Ck) (tr : Tree) : Prop := ∃ p ∈ P, p.leaves = tr

/-- tree `tr` can be brought back: it is empty, or it was published, or its bundle is still staged -/
def Rec (s : Sys) (tr : Tree) : Prop := tr = [] ∨ PubL s.pubHist tr ∨ Staged s.store tr

theorem Staged.upload {st st' : Store} {k : Key} {imm : Bool} {o : Obj} {r : Res} {tr : Tree}
    (h : storeUpload st k imm o r = some st') (ho : k = .staging tr → ∃ items, o = .bundle items)
    (hs : Staged st tr) : Staged st' tr := by
  obtain ⟨items, im, hs⟩ := hs
  by_cases hk : Key.staging tr = k
  · subst hk
    rcases storeUpload_at_cases h with h1 | h1
    · exact ⟨items, im, by rw [h1]; exact hs⟩
    · obtain ⟨items', rfl⟩ := ho rfl
      exact ⟨items', imm, h1⟩
  · exact ⟨items, im, by rw [storeUpload_other h hk]; exact hs⟩

/-- `Rec` is stable: a bundle is discarded only after a checkpoint with its tree has been published -/
theorem rec_step (s s' : Sys) (e : Ev) (h2 : Inv2 s) (h : step s e = some s') (ht : s'.tampered = false)
    {tr : Tree} (hr : Rec s tr) : Rec s' tr := by
  have hsub := step_pubHist_sub s s' e h
  rcases hr with h0 | ⟨p, hp, hpl⟩ | hst
  · exact Or.inl h0
  · exact Or.inr (Or.inl ⟨p, hsub p hp, hpl⟩)
  · rcases step_store_same_unless s s' e h with ⟨i, k, imm, o, r, rfl⟩ | ⟨i, k, r, rfl⟩ | ⟨k, o, rfl⟩ | hsame
    · obtain ⟨hup, _⟩ := upload_store s s' i k imm o r h
      refine Or.inr (Or.inr (hst.upload hup ?_))
      intro hk
      obtain ⟨rd, items, _, _, _, ho, _, _⟩ := upload_staging_facts s s' i k tr imm o r hk h
      exact ⟨items, ho⟩
    · obtain ⟨rd, hph, hpc, hk⟩ := discard_only_after_publish s s' i k r h
      by_cases hkk : Key.staging tr = k
      · obtain ⟨hpub, hisp⟩ := h2.round i rd hph
        have hp : rd.published = true := by rw [hisp, hpc]; rfl
        rw [hk] at hkk
        injection hkk with hkk
        exact Or.inr (Or.inl ⟨rd.new, hsub _ (hpub hp), hkk.symm⟩)
      · obtain ⟨items, im, hs⟩ := hst
        exact Or.inr (Or.inr ⟨items, im, by rw [discard_store s s' i k r h _ hkk]; exact hs⟩)
    · have := (step_tampered s s' _ h ht).2 k o
      exact absurd rfl this
    · obtain ⟨items, im, hs⟩ := hst
      exact Or.inr (Or.inr ⟨items, im, by rw [hsame]; exact hs⟩)

/-- per-instance part of `Inv4`: a round about to stage really grows the tree; a round at its
    compare-and-swap proposes a recoverable tree -/
def ROK4 (s : Sys) (x : Inst) : Prop := ∀ rd, x.phase = .round rd →
  (rd.pc = .stage → rd.old.leaves.length < rd.new.leaves.length) ∧
  (rd.pc = .cas → Rec s rd.new.leaves)

structure Inv4 (s : Sys) : Prop where
  /-- every committed tree is empty, published, or still staged -/
  hist : ∀ c ∈ s.lockHist, Rec s c.leaves
  round : ∀ i, ROK4 s (s.insts i)
  /-- the checkpoint object is a (mutable) checkpoint -/
  ckShape : ∀ o imm, s.store .ckpt = some (o, imm) → imm = false ∧ ∃ c, o = .ck c
  /-- once log creation has completed there is a checkpoint object -/
  ckSome : s.pubHist ≠ [] → ∃ c imm, s.store .ckpt = some (.ck c, imm)
  legacy : ∀ t, s.store (.legacyStaging t) = none
  /-- tile objects are immutable renderings of committed trees -/
  tiles : ∀ t o imm, s.store (.tile t) = some (o, imm) →
    imm = true ∧ ∃ c ∈ s.lockHist, t.hi ≤ c.leaves.length ∧ o = .slice (t.slice c.leaves)
  /-- staging objects are immutable non-empty bundles -/
  stagedNe : ∀ tr o imm, s.store (.staging tr) = some (o, imm) → imm = true ∧ ∃ items, o = .bundle items ∧ items ≠ []

theorem ROK4.mono {s s' : Sys} (hm : ∀ tr, Rec s tr → Rec s' tr) {x : Inst} (h : ROK4 s x) : ROK4 s' x :=
  fun rd hrd => ⟨(h rd hrd).1, fun hpc => hm _ ((h rd hrd).2 hpc)⟩

end Seq

namespace Seq

/-! ### where a round in the `stage` / `cas` state comes from -/

/-- the round `rd'` the acting instance is in after the step was already in that state (same trees), or
    has just computed a strictly larger tree (`stage`), or has an empty pool / has just staged (`cas`) -/
def Origin (s : Sys) (e : Ev) (i : Nat) (rd' : Round) : Prop :=
    (rd'.pc = .stage → (∃ rd, (s.insts i).phase = .round rd ∧ rd.pc = .stage ∧ rd.old = rd'.old ∧ rd.new = rd'.new) ∨
        rd'.old.leaves.length < rd'.new.leaves.length) ∧
    (rd'.pc = .cas → (∃ rd, (s.insts i).phase = .round rd ∧ rd.pc = .cas ∧ rd.new = rd'.new) ∨
        ((∃ rd, (s.insts i).phase = .round rd) ∧ rd'.new.leaves = (s.insts i).tree.leaves) ∨
        (∃ items, e = .upload i (.staging rd'.new.leaves) true (.bundle items) .ok))

macro "origin_brute" h:ident hph:ident : tactic => `(tactic|
  (simp only [step] at $h:ident <;> (repeat' split at $h:ident) <;>
    (first | cases $h:ident | skip) <;> (try (injection $h:ident with $h:ident; subst $h:ident)) <;>
    simp_all [Sys.setInst, upd, Origin] <;>
    (try (subst $hph:ident; simp_all [leavesOf, List.length_pos_iff]))))


theorem origin_launchCreate (s s' : Sys) {i : _}
    (h : step s (.launchCreate i) = some s')
    (rd' : Round) (hph' : (s'.insts i).phase = .round rd') : Origin s (.launchCreate i) i rd' := by
  origin_brute h hph'
theorem origin_launchLoad (s s' : Sys) {i : _}
    (h : step s (.launchLoad i) = some s')
    (rd' : Round) (hph' : (s'.insts i).phase = .round rd') : Origin s (.launchLoad i) i rd' := by
  origin_brute h hph'
theorem origin_launchRound (s s' : Sys) {i : _}
    (h : step s (.launchRound i) = some s')
    (rd' : Round) (hph' : (s'.insts i).phase = .round rd') : Origin s (.launchRound i) i rd' := by
  origin_brute h hph'
theorem origin_launchSubmit (s s' : Sys) {i : _}
    (h : step s (.launchSubmit i) = some s')
    (rd' : Round) (hph' : (s'.insts i).phase = .round rd') : Origin s (.launchSubmit i) i rd' := by
  origin_brute h hph'
theorem origin_config (s s' : Sys) {i bad : _}
    (h : step s (.config i bad) = some s')
    (rd' : Round) (hph' : (s'.insts i).phase = .round rd') : Origin s (.config i bad) i rd' := by
  origin_brute h hph'
theorem origin_clock (s s' : Sys) {i v : _}
    (h : step s (.clock i v) = some s')
    (rd' : Round) (hph' : (s'.insts i).phase = .round rd') : Origin s (.clock i v) i rd' := by
  origin_brute h hph'
theorem origin_lockFetch (s s' : Sys) {i r : _}
    (h : step s (.lockFetch i r) = some s')
    (rd' : Round) (hph' : (s'.insts i).phase = .round rd') : Origin s (.lockFetch i r) i rd' := by
  origin_brute h hph'
theorem origin_lockCreate (s s' : Sys) {i c r : _}
    (h : step s (.lockCreate i c r) = some s')
    (rd' : Round) (hph' : (s'.insts i).phase = .round rd') : Origin s (.lockCreate i c r) i rd' := by
  origin_brute h hph'
theorem origin_lockReplace (s s' : Sys) {i old new r : _}
    (h : step s (.lockReplace i old new r) = some s')
    (rd' : Round) (hph' : (s'.insts i).phase = .round rd') : Origin s (.lockReplace i old new r) i rd' := by
  origin_brute h hph'
theorem origin_fetch (s s' : Sys) {i k r : _}
    (h : step s (.fetch i k r) = some s')
    (rd' : Round) (hph' : (s'.insts i).phase = .round rd') : Origin s (.fetch i k r) i rd' := by
  origin_brute h hph'
theorem origin_upload (s s' : Sys) {i k imm o r : _}
    (h : step s (.upload i k imm o r) = some s')
    (rd' : Round) (hph' : (s'.insts i).phase = .round rd') : Origin s (.upload i k imm o r) i rd' := by
  origin_brute h hph'
theorem origin_discard (s s' : Sys) {i k r : _}
    (h : step s (.discard i k r) = some s')
    (rd' : Round) (hph' : (s'.insts i).phase = .round rd') : Origin s (.discard i k r) i rd' := by
  origin_brute h hph'
theorem origin_submitted (s s' : Sys) {i eid key low iss src : _}
    (h : step s (.submitted i eid key low iss src) = some s')
    (rd' : Round) (hph' : (s'.insts i).phase = .round rd') : Origin s (.submitted i eid key low iss src) i rd' := by
  origin_brute h hph'
theorem origin_ack (s s' : Sys) {i eid key idx ts : _}
    (h : step s (.ack i eid key idx ts) = some s')
    (rd' : Round) (hph' : (s'.insts i).phase = .round rd') : Origin s (.ack i eid key idx ts) i rd' := by
  origin_brute h hph'
theorem origin_nackEvicted (s s' : Sys) {i eid key : _}
    (h : step s (.nackEvicted i eid key) = some s')
    (rd' : Round) (hph' : (s'.insts i).phase = .round rd') : Origin s (.nackEvicted i eid key) i rd' := by
  origin_brute h hph'
theorem origin_nack (s s' : Sys) {i eid imm : _}
    (h : step s (.nack i eid imm) = some s')
    (rd' : Round) (hph' : (s'.insts i).phase = .round rd') : Origin s (.nack i eid imm) i rd' := by
  origin_brute h hph'
theorem origin_created (s s' : Sys) {i : _}
    (h : step s (.created i) = some s')
    (rd' : Round) (hph' : (s'.insts i).phase = .round rd') : Origin s (.created i) i rd' := by
  origin_brute h hph'
theorem origin_createFail (s s' : Sys) {i : _}
    (h : step s (.createFail i) = some s')
    (rd' : Round) (hph' : (s'.insts i).phase = .round rd') : Origin s (.createFail i) i rd' := by
  origin_brute h hph'
theorem origin_loaded (s s' : Sys) {i c : _}
    (h : step s (.loaded i c) = some s')
    (rd' : Round) (hph' : (s'.insts i).phase = .round rd') : Origin s (.loaded i c) i rd' := by
  origin_brute h hph'
theorem origin_loadFail (s s' : Sys) {i : _}
    (h : step s (.loadFail i) = some s')
    (rd' : Round) (hph' : (s'.insts i).phase = .round rd') : Origin s (.loadFail i) i rd' := by
  origin_brute h hph'
theorem origin_roundEnd (s s' : Sys) {i c : _}
    (h : step s (.roundEnd i c) = some s')
    (rd' : Round) (hph' : (s'.insts i).phase = .round rd') : Origin s (.roundEnd i c) i rd' := by
  origin_brute h hph'
theorem origin_crash (s s' : Sys) {i : _}
    (h : step s (.crash i) = some s')
    (rd' : Round) (hph' : (s'.insts i).phase = .round rd') : Origin s (.crash i) i rd' := by
  origin_brute h hph'
theorem origin_cacheLose (s s' : Sys) {i : _}
    (h : step s (.cacheLose i) = some s')
    (rd' : Round) (hph' : (s'.insts i).phase = .round rd') : Origin s (.cacheLose i) i rd' := by
  origin_brute h hph'

theorem step_origin (s s' : Sys) (e : Ev) (i : Nat) (he : e.inst = some i) (h : step s e = some s')
    (rd' : Round) (hph' : (s'.insts i).phase = .round rd') : Origin s e i rd' := by
  cases e <;> simp only [Ev.inst, Option.some.injEq, reduceCtorEq] at he <;> subst he
  · exact origin_launchCreate s s' h rd' hph'
  · exact origin_launchLoad s s' h rd' hph'
  · exact origin_launchRound s s' h rd' hph'
  · exact origin_launchSubmit s s' h rd' hph'
  · exact origin_config s s' h rd' hph'
  · exact origin_clock s s' h rd' hph'
  · exact origin_lockFetch s s' h rd' hph'
  · exact origin_lockCreate s s' h rd' hph'
  · exact origin_lockReplace s s' h rd' hph'
  · exact origin_fetch s s' h rd' hph'
  · exact origin_upload s s' h rd' hph'
  · exact origin_discard s s' h rd' hph'
  · exact origin_submitted s s' h rd' hph'
  · exact origin_ack s s' h rd' hph'
  · exact origin_nackEvicted s s' h rd' hph'
  · exact origin_nack s s' h rd' hph'
  · exact origin_created s s' h rd' hph'
  · exact origin_createFail s s' h rd' hph'
  · exact origin_loaded s s' h rd' hph'
  · exact origin_loadFail s s' h rd' hph'
  · exact origin_roundEnd s s' h rd' hph'
  · exact origin_crash s s' h rd' hph'
  · exact origin_cacheLose s s' h rd' hph'

end Seq

namespace Seq

/-! ### preservation of `Inv4` -/

/-- a discard leaves its key empty or (not applied) untouched -/
theorem discard_store_at (s s' : Sys) (i : Nat) (k : Key) (r : Res) (h : step s (.discard i k r) = some s') :
    s'.store k = none ∨ s'.store k = s.store k := by
  simp only [step] at h
  repeat' split at h
  all_goals (first | cases h | skip)
  all_goals (simp only [Sys.setInst])
  all_goals (try split)
  all_goals (simp [updK])

theorem discard_key (s s' : Sys) (i : Nat) (k : Key) (r : Res) (h : step s (.discard i k r) = some s') :
    ∃ t, k = .staging t := by
  obtain ⟨rd, _, _, hk⟩ := discard_only_after_publish s s' i k r h
  exact ⟨_, hk⟩

/-- objects under keys other than staging keys are never removed -/
theorem step_store_isSome (s s' : Sys) (e : Ev) (h : step s e = some s') (ht : s'.tampered = false)
    (k : Key) (hk : ∀ t, k ≠ .staging t) (hs : (s.store k).isSome) : (s'.store k).isSome := by
  rcases step_store_same_unless s s' e h with ⟨i, k', imm, o, r, rfl⟩ | ⟨i, k', r, rfl⟩ | ⟨k', o, rfl⟩ | hsame
  · exact storeUpload_some (upload_store s s' i k' imm o r h).1 hs
  · obtain ⟨t, rfl⟩ := discard_key s s' i k' r h
    rw [discard_store s s' i _ r h k (hk t)]; exact hs
  · exact absurd rfl ((step_tampered s s' _ h ht).2 k' o)
  · rw [hsame]; exact hs

theorem inv4_step (s s' : Sys) (e : Ev) (h4 : Inv4 s) (h1 : Inv s) (h2 : Inv2 s) (h3 : Inv3 s)
    (h : step s e = some s') (ht : s'.tampered = false) : Inv4 s' := by
  have hrec : ∀ tr, Rec s tr → Rec s' tr := fun tr => rec_step s s' e h2 h ht
  have hlsub := step_lockHist_sub s s' e h
  have hnt := (step_tampered s s' e h ht).2
  -- the checkpoint object
  have hck : ∀ o imm, s'.store .ckpt = some (o, imm) → imm = false ∧ ∃ c, o = .ck c := by
    intro o imm hs
    rcases step_store_same_unless s s' e h with ⟨i, k, imm', o', r, rfl⟩ | ⟨i, k, r, rfl⟩ | ⟨k, o', rfl⟩ | hsame
    · obtain ⟨hup, _⟩ := upload_store s s' i k imm' o' r h
      by_cases hk : k = .ckpt
      · subst hk
        rcases storeUpload_at_cases hup with h0 | h0
        · rw [h0] at hs; exact h4.ckShape o imm hs
        · rw [h0] at hs
          injection hs with hs; injection hs with hs1 hs2
          subst hs1; subst hs2
          exact upload_ckpt_shape s s' i _ _ r h
      · rw [storeUpload_other hup (Ne.symm hk)] at hs; exact h4.ckShape o imm hs
    · obtain ⟨t, rfl⟩ := discard_key s s' i k r h
      rw [discard_store s s' i _ r h _ (by simp)] at hs; exact h4.ckShape o imm hs
    · exact absurd rfl (hnt k o')
    · rw [hsame] at hs; exact h4.ckShape o imm hs
  refine ⟨?_, ?_, hck, ?_, ?_, ?_, ?_⟩
  · -- committed trees stay recoverable; a newly committed one is empty or was proposed at a `cas`
    intro c hc
    rcases step_lockHist_same_unless s s' e h with ⟨i, c', r, rfl⟩ | ⟨i, old, new, r, rfl⟩ | hsame
    · rcases lockCreate_grow s s' i c' r h with h0 | ⟨h0, hph⟩
      · rw [h0] at hc; exact hrec _ (h4.hist c hc)
      · rw [h0] at hc
        rcases List.mem_cons.1 hc with rfl | hc'
        · have := h3.inst i
          simp only [SOK, hph] at this
          exact Or.inl this
        · exact hrec _ (h4.hist c hc')
    · rcases lockReplace_grow s s' i old new r h with h0 | ⟨h0, rd, hph, hpc, hnew⟩
      · rw [h0] at hc; exact hrec _ (h4.hist c hc)
      · rw [h0] at hc
        rcases List.mem_cons.1 hc with rfl | hc'
        · rw [← hnew]; exact hrec _ ((h4.round i rd hph).2 hpc)
        · exact hrec _ (h4.hist c hc')
    · rw [hsame] at hc; exact hrec _ (h4.hist c hc)
  · -- rounds
    intro j
    by_cases hj : e.inst = some j
    · intro rd' hph'
      obtain ⟨o1, o2⟩ := step_origin s s' e j hj h rd' hph'
      refine ⟨fun hpc => ?_, fun hpc => ?_⟩
      · rcases o1 hpc with ⟨rd, hph, hpc0, ho, hn⟩ | hlt
        · rw [← ho, ← hn]; exact (h4.round j rd hph).1 hpc0
        · exact hlt
      · rcases o2 hpc with ⟨rd, hph, hpc0, hn⟩ | ⟨⟨rd, hph⟩, hl⟩ | ⟨items, rfl⟩
        · rw [← hn]; exact hrec _ ((h4.round j rd hph).2 hpc0)
        · rw [hl]
          have := h1.inst j
          simp only [InstOK, hph, RoundOK] at this
          exact hrec _ (h4.hist _ this.1)
        · obtain ⟨hup, _⟩ := upload_store s s' j _ _ _ _ h
          exact Or.inr (Or.inr ⟨items, true, storeUpload_applied hup (Or.inl rfl)⟩)
    · rw [step_insts_other s s' e h j hj]; exact (h4.round j).mono hrec
  · -- a checkpoint object exists once something was published
    intro hne
    have hsome : (s'.store .ckpt).isSome := by
      have hkeep : s.pubHist ≠ [] → (s'.store .ckpt).isSome := by
        intro hp
        obtain ⟨c, imm, hc⟩ := h4.ckSome hp
        exact step_store_isSome s s' e h ht .ckpt (by simp) (by rw [hc]; rfl)
      rcases step_pubHist_ckpt s s' e h with hp | ⟨i, imm, c, r, rfl, hp⟩
      · rw [hp] at hne; exact hkeep hne
      · obtain ⟨hup, _⟩ := upload_store s s' i _ _ _ _ h
        cases hr : r.applied
        · have := (upload_ckpt_pub s s' i imm _ r h).2 hr
          rw [this] at hne; exact hkeep hne
        · rw [storeUpload_at hup hr]; rfl
    cases hs : s'.store .ckpt with
    | none => rw [hs] at hsome; cases hsome
    | some p =>
      obtain ⟨o, imm⟩ := p
      obtain ⟨_, c, rfl⟩ := hck o imm hs
      exact ⟨c, imm, rfl⟩
  · -- no legacy staging objects
    intro t
    rcases step_store_same_unless s s' e h with ⟨i, k, imm', o', r, rfl⟩ | ⟨i, k, r, rfl⟩ | ⟨k, o', rfl⟩ | hsame
    · obtain ⟨hup, _⟩ := upload_store s s' i k imm' o' r h
      have hk : Key.legacyStaging t ≠ k := by
        rcases upload_key_cases s s' i k imm' o' r h with rfl | rfl | ⟨_, rfl⟩ | ⟨_, rfl⟩ | ⟨_, rfl⟩ <;> simp
      rw [storeUpload_other hup hk]; exact h4.legacy t
    · obtain ⟨t', rfl⟩ := discard_key s s' i k r h
      rw [discard_store s s' i _ r h _ (by simp)]; exact h4.legacy t
    · exact absurd rfl (hnt k o')
    · rw [hsame]; exact h4.legacy t
  · -- tiles
    intro t o imm hs
    have keep : s.store (.tile t) = some (o, imm) →
        imm = true ∧ ∃ c ∈ s'.lockHist, t.hi ≤ c.leaves.length ∧ o = .slice (t.slice c.leaves) := by
      intro hs0
      obtain ⟨a, c, hc, b⟩ := h4.tiles t o imm hs0
      exact ⟨a, c, hlsub c hc, b⟩
    rcases step_store_same_unless s s' e h with ⟨i, k, imm', o', r, rfl⟩ | ⟨i, k, r, rfl⟩ | ⟨k, o', rfl⟩ | hsame
    · obtain ⟨hup, _⟩ := upload_store s s' i k imm' o' r h
      by_cases hk : k = .tile t
      · subst hk
        rcases storeUpload_at_cases hup with h0 | h0
        · rw [h0] at hs; exact keep hs
        · rw [h0] at hs
          injection hs with hs; injection hs with hs1 hs2
          subst hs1; subst hs2
          obtain ⟨himm, hsrc⟩ := upload_tile_facts s s' i t _ _ r h
          refine ⟨himm, ?_⟩
          have h1i := h1.inst i
          have h3i := h3.inst i
          rcases hsrc with ⟨rd, done, failed, hph, hpc, ho, hmem⟩ | ⟨c, rem, failed, xs, hph, hmem, ho⟩
          · simp only [InstOK, RoundOK, hph, hpc] at h1i
            simp only [SOK, hph, hpc] at h3i
            obtain ⟨_, ⟨_, items, hbi, hb⟩, _⟩ := h3i
            rw [hbi] at hmem
            obtain ⟨p, hp, rfl⟩ := List.mem_map.1 hmem
            refine ⟨rd.new, ?_, newAt_hi_le (bundle_newAt hb hp), ho⟩
            rw [h1i.2]; exact hlsub _ h1i.1
          · simp only [InstOK, LoadOK, hph] at h1i
            simp only [SOK, hph] at h3i
            obtain ⟨old, items, hb, _, _, hsub, _⟩ := h3i
            have hp := hsub _ hmem
            refine ⟨c, hlsub _ h1i, newAt_hi_le (bundle_newAt hb hp), ?_⟩
            have hx : xs = t.slice c.leaves := bundle_slice hb hp
            rw [ho, hx]
      · rw [storeUpload_other hup (Ne.symm hk)] at hs; exact keep hs
    · obtain ⟨t', rfl⟩ := discard_key s s' i k r h
      rw [discard_store s s' i _ r h _ (by simp)] at hs; exact keep hs
    · exact absurd rfl (hnt k o')
    · rw [hsame] at hs; exact keep hs
  · -- staging objects
    intro tr o imm hs
    rcases step_store_same_unless s s' e h with ⟨i, k, imm', o', r, rfl⟩ | ⟨i, k, r, rfl⟩ | ⟨k, o', rfl⟩ | hsame
    · obtain ⟨hup, _⟩ := upload_store s s' i k imm' o' r h
      by_cases hk : k = .staging tr
      · obtain ⟨rd, items, hph, hpc, htr, ho, himm, hb⟩ := upload_staging_facts s s' i k tr imm' o' r hk h
        subst hk
        rcases storeUpload_at_cases hup with h0 | h0
        · rw [h0] at hs; exact h4.stagedNe tr o imm hs
        · rw [h0] at hs
          injection hs with hs; injection hs with hs1 hs2
          subst hs1; subst hs2
          exact ⟨himm, items, ho, bundleOK_ne_nil hb ((h4.round i rd hph).1 hpc)⟩
      · rw [storeUpload_other hup (Ne.symm hk)] at hs; exact h4.stagedNe tr o imm hs
    · by_cases hk : Key.staging tr = k
      · subst hk
        rcases discard_store_at s s' i _ r h with h0 | h0
        · rw [h0] at hs; cases hs
        · rw [h0] at hs; exact h4.stagedNe tr o imm hs
      · rw [discard_store s s' i k r h _ hk] at hs; exact h4.stagedNe tr o imm hs
    · exact absurd rfl (hnt k o')
    · rw [hsame] at hs; exact h4.stagedNe tr o imm hs

theorem inv4_init (p : Nat) : Inv4 (init p) := by
  refine ⟨?_, ?_, ?_, ?_, ?_, ?_, ?_⟩
  · intro c hc; simp [init] at hc
  · intro i rd h; simp [init] at h
  · intro o imm h; simp [init] at h
  · intro h; simp [init] at h
  · intro t; rfl
  · intro t o imm h; simp [init] at h
  · intro tr o imm h; simp [init] at h

theorem inv4_run (s s' : Sys) (es : List Ev) (h4 : Inv4 s) (h1 : Inv s) (h2 : Inv2 s) (h3 : Inv3 s)
    (h : run s es = some s') (ht : s'.tampered = false) : Inv4 s' := by
  induction es generalizing s with
  | nil => simp [run] at h; subst h; exact h4
  | cons e es ih =>
    simp only [run] at h
    split at h
    · rename_i s1 hs1
      have ht1 := run_tampered s1 s' es h ht
      exact ih s1 (inv4_step s s1 e h4 h1 h2 h3 hs1 ht1) (inv_step s s1 e h1 hs1) (inv2_step s s1 e h2 hs1)
        (inv3_step s s1 e h3 h1 hs1 ht1) h
    · cases h

/-- without tampering, every reachable state satisfies the recoverability invariants -/
theorem inv4_reachable {s : Sys} (h : Reachable s) (ht : s.tampered = false) : Inv4 s := by
  obtain ⟨p, es, h⟩ := h
  exact inv4_run _ _ es (inv4_init p) (inv_init p) (inv2_init p) (inv3_init p) h ht

/-- the remaining half of I5: the lock checkpoint's tree is completely rendered, or its bundle is staged -/
theorem Inv4.lockRec {s : Sys} (h4 : Inv4 s) (h1 : Inv s) (h3 : Inv3 s) :
    ∀ c, s.lock = some c → Complete s.store c.leaves ∨
      (∃ items imm, s.store (.staging c.leaves) = some (.bundle items, imm)) := by
  intro c hl
  rcases h4.hist c (lock_mem_hist h1 hl) with h0 | ⟨p, hp, hpl⟩ | hst
  · left; rw [h0]; exact complete_nil _
  · left; rw [← hpl]; exact h3.pub p hp
  · exact Or.inr hst

end Seq

namespace Seq

/-- only tampering belongs to no instance -/
theorem inst_none_tamper (e : Ev) (h : e.inst = none) : ∃ k o, e = .tamper k o := by
  cases e <;> simp [Ev.inst] at h
  exact ⟨_, _, rfl⟩

end Seq

