import Model.Sequencer
/-! Tile arithmetic of the sequencer model: which tiles a tree of a given size needs (`Req`), which ones
a growth step writes (`NewAt`, `newTilesList`), and that the former are covered by the latter plus the
tiles the old tree already needed, with unchanged content. All sizes, all levels. -/
set_option maxRecDepth 4000
namespace Seq

theorem pow256_pos (L : Nat) : 0 < 256 ^ L := Nat.pow_pos (by decide)

/-- a tile needed by a tree of size `o` lies entirely inside the first `o` leaves -/
theorem req_hi_le {o : Nat} {t : TileId} (h : Req o t = true) : t.hi ≤ o := by
  unfold Req at h
  simp only [Bool.or_eq_true, Bool.and_eq_true, beq_iff_eq, decide_eq_true_eq] at h
  unfold TileId.hi
  generalize hP : 256 ^ t.kind.level = P at *
  have hm : o / P * P ≤ o := Nat.div_mul_le_self _ _
  generalize hM : o / P = m at *
  have hd := Nat.div_add_mod m 256
  have h1 : t.N * 256 + t.W ≤ m := by
    clear hP hM hm
    rcases h with ⟨hw, hn⟩ | ⟨⟨hn, hw⟩, _⟩
    · have := Nat.div_mul_le_self m 256
      have h2 : (t.N + 1) * 256 ≤ m / 256 * 256 := Nat.mul_le_mul_right _ hn
      rw [hw]; omega
    · rw [hn, hw]; omega
  exact Nat.le_trans (Nat.mul_le_mul_right _ h1) hm

/-- growth covers need: a tile the new size needs is written by the growth step or was already needed -/
theorem req_cover {o n : Nat} {t : TileId} (hon : o ≤ n) (h : Req n t = true) :
    NewAt o n t = true ∨ Req o t = true := by
  unfold Req at h
  unfold NewAt Req
  simp only [Bool.or_eq_true, Bool.and_eq_true, beq_iff_eq, decide_eq_true_eq, bne_iff_ne, ne_eq] at *
  generalize hP : 256 ^ t.kind.level = P at *
  generalize hA : o / P = a at *
  generalize hB : n / P = b at *
  by_cases heq : a = b
  · right; rw [heq]; exact h
  · rcases h with ⟨hw, hn⟩ | ⟨⟨hn, hw⟩, hpos⟩
    · by_cases hlt : t.N < a / 256
      · right; left; exact ⟨hw, hlt⟩
      · left; exact ⟨heq, Or.inl ⟨⟨hw, Nat.le_of_not_lt hlt⟩, hn⟩⟩
    · left; exact ⟨heq, Or.inr ⟨⟨hn, hw⟩, hpos⟩⟩

theorem lo_le_hi (t : TileId) : t.lo ≤ t.hi := by
  unfold TileId.lo TileId.hi
  rw [Nat.pow_succ]
  calc t.N * (256 ^ t.kind.level * 256) = t.N * 256 * 256 ^ t.kind.level := by
        rw [Nat.mul_comm (256 ^ t.kind.level) 256, Nat.mul_assoc]
    _ ≤ (t.N * 256 + t.W) * 256 ^ t.kind.level := Nat.mul_le_mul_right _ (Nat.le_add_right _ _)

/-- the content of a tile needed at size `o` does not change when the tree grows -/
theorem slice_stable {tr tr' : Tree} {t : TileId} (hp : tr <+: tr') (h : Req tr.length t = true) :
    t.slice tr' = t.slice tr := by
  have hhi := req_hi_le h
  have hlo := lo_le_hi t
  obtain ⟨ext, rfl⟩ := hp
  unfold TileId.slice Seq.slice
  rw [List.drop_append_of_le_length (by omega)]
  rw [List.take_append_of_le_length (by simp; omega)]

end Seq

namespace Seq

theorem mem_newAtLevel {o n : Nat} {t : TileId} (h : NewAt o n t = true) : t ∈ newAtLevel o n t.kind := by
  unfold NewAt at h
  unfold newAtLevel
  simp only [Bool.or_eq_true, Bool.and_eq_true, beq_iff_eq, decide_eq_true_eq, bne_iff_ne, ne_eq] at h
  generalize hP : 256 ^ t.kind.level = P at *
  generalize hA : o / P = a at *
  generalize hB : n / P = b at *
  obtain ⟨hne, hc⟩ := h
  simp only [hne, if_false, List.mem_append, List.mem_map, List.mem_range]
  rcases hc with ⟨⟨hw, hlo⟩, hhi⟩ | ⟨⟨hn, hw⟩, hpos⟩
  · left
    refine ⟨t.N - a / 256, by omega, ?_⟩
    have : a / 256 + (t.N - a / 256) = t.N := by omega
    rw [this]
    cases t; simp_all
  · right
    have : b % 256 > 0 := by omega
    simp only [this, if_true, List.mem_singleton]
    cases t; simp_all

/-- every tile a growth step must write (levels below 8, i.e. any tree that fits a 64-bit size) is in the
    enumerated list the bundle is compared with -/
theorem mem_newTilesList {o n : Nat} {t : TileId} (h : NewAt o n t = true) (hl : t.kind.level < 8) :
    t ∈ newTilesList o n := by
  have hm := mem_newAtLevel h
  unfold newTilesList
  cases hk : t.kind with
  | data => rw [hk] at hm; simp [hm]
  | names => rw [hk] at hm; simp [hm]
  | hash L =>
    rw [hk] at hm
    simp only [List.mem_append, List.mem_flatMap]
    right
    refine ⟨L, ?_, hm⟩
    unfold levelsFor
    simp only [List.mem_filter, List.mem_range, decide_eq_true_eq]
    have hL : L < 8 := by simpa [hk, TKind.level] using hl
    refine ⟨hL, ?_⟩
    -- NewAt implies the new tree has at least one hash at this level
    unfold NewAt at h
    simp only [Bool.or_eq_true, Bool.and_eq_true, beq_iff_eq, decide_eq_true_eq, bne_iff_ne, ne_eq, hk, TKind.level] at h
    have hp := pow256_pos L
    have hb : 0 < n / 256 ^ L := by
      generalize n / 256 ^ L = b at *
      generalize o / 256 ^ L = a at *
      obtain ⟨_, hc⟩ := h
      rcases hc with ⟨⟨_, _⟩, hhi⟩ | ⟨⟨hn, hw⟩, hpos⟩
      · have := Nat.div_mul_le_self b 256; omega
      · have := Nat.mod_le b 256; omega
    exact (Nat.le_div_iff_mul_le hp).1 hb |> fun h => by simpa using h

end Seq
