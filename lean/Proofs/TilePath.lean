import Model.TilePath
/-!
Lemmas about the tile-path model (`Model/TilePath.lean`): `strings.Split`, decimal formatting and
`strconv.Atoi`, three-digit groups, and the structure of `tlog.Tile.Path` output. Used by `Props/C10.lean`.
-/
namespace TilePath

/-! ### split -/

theorem split_ne_nil (sep : UInt8) (s : Bytes) : split sep s ≠ [] := by
  induction s with
  | nil => simp [split]
  | cons b bs ih =>
    simp only [split]
    split
    · simp
    · split <;> simp

theorem split_noslash (a : Bytes) (h : (47 : UInt8) ∉ a) : split 47 a = [a] := by
  induction a with
  | nil => rfl
  | cons b bs ih =>
    have hb : b ≠ 47 := fun hc => h (by simp [hc])
    have hbs : (47 : UInt8) ∉ bs := fun hc => h (by simp [hc])
    simp only [split, hb, if_false, ih hbs]

theorem split_cons_noslash (a b : Bytes) (h : (47 : UInt8) ∉ a) : split 47 (a ++ 47 :: b) = a :: split 47 b := by
  induction a with
  | nil => simp [split]
  | cons c cs ih =>
    have hc : c ≠ 47 := fun hc => h (by simp [hc])
    have hcs : (47 : UInt8) ∉ cs := fun hc => h (by simp [hc])
    simp only [List.cons_append, split, hc, if_false, ih hcs]

def joinSlash : List Bytes → Bytes
  | [] => []
  | g :: gs => g ++ 47 :: joinSlash gs

theorem split_joinSlash (G : List Bytes) (rest : Bytes) (h : ∀ g ∈ G, (47 : UInt8) ∉ g) :
    split 47 (joinSlash G ++ rest) = G ++ split 47 rest := by
  induction G with
  | nil => rfl
  | cons g gs ih =>
    simp only [joinSlash, List.append_assoc, List.cons_append]
    rw [split_cons_noslash _ _ (h g (by simp)), ih (fun x hx => h x (by simp [hx]))]

theorem joinSlash_append (G : List Bytes) (g : Bytes) : joinSlash (G ++ [g]) = joinSlash G ++ (g ++ [47]) := by
  induction G with
  | nil => simp [joinSlash]
  | cons x xs ih => simp [joinSlash, ih]

/-! ### digits -/

theorem digit_isDigit (n : Nat) : isDigit (digit n) = true := by
  have : ∀ k : Fin 10, isDigit (UInt8.ofNat (48 + k.val)) = true := by decide
  have h := this ⟨n % 10, Nat.mod_lt _ (by decide)⟩
  exact h

theorem digit_val (n : Nat) : (digit n).toNat - 48 = n % 10 := by
  have : ∀ k : Fin 10, (UInt8.ofNat (48 + k.val)).toNat - 48 = k.val := by decide
  exact this ⟨n % 10, Nat.mod_lt _ (by decide)⟩

theorem natDigits_digits (fuel n : Nat) : (natDigits fuel n).all isDigit = true := by
  induction fuel generalizing n with
  | zero => rfl
  | succ f ih =>
    simp only [natDigits]
    split
    · simp [digit_isDigit]
    · simp [List.all_append, ih, digit_isDigit]

theorem natDigits_ne_nil (fuel n : Nat) : natDigits (fuel + 1) n ≠ [] := by
  simp only [natDigits]
  split <;> simp

theorem digitsVal_append (l : Bytes) (d : UInt8) (acc : Nat) :
    digitsVal (l ++ [d]) acc = digitsVal l acc * 10 + (d.toNat - 48) := by
  induction l generalizing acc with
  | nil => simp [digitsVal]
  | cons b bs ih => simp [digitsVal, ih]

theorem digitsVal_natDigits (fuel n : Nat) (h : n < 10 ^ fuel) : digitsVal (natDigits fuel n) 0 = n := by
  induction fuel generalizing n with
  | zero => simp at h; subst h; rfl
  | succ f ih =>
    simp only [natDigits]
    split
    · rename_i h10
      simp only [digitsVal, Nat.zero_mul, Nat.zero_add, digit_val]
      omega
    · rename_i h10
      rw [digitsVal_append, ih (n / 10) (by rw [Nat.pow_succ] at h; omega), digit_val]
      omega

theorem fmtNat_digits (n : Nat) : (fmtNat n).all isDigit = true := natDigits_digits _ _
theorem fmtNat_ne_nil (n : Nat) : fmtNat n ≠ [] := natDigits_ne_nil _ _
theorem fmtNat_val (n : Nat) : digitsVal (fmtNat n) 0 = n :=
  digitsVal_natDigits _ _ (Nat.lt_of_lt_of_le (Nat.lt_pow_self (by decide)) (Nat.pow_le_pow_right (by decide) (Nat.le_succ n)))

theorem isDigit_ne {c : UInt8} (h : isDigit c = true) : c ≠ 45 ∧ c ≠ 43 ∧ c ≠ 47 ∧ c ≠ 46 ∧ c ≠ 112 ∧ c ≠ 120 ∧ c ≠ 100 := by
  simp only [isDigit, Bool.and_eq_true, decide_eq_true_eq] at h
  obtain ⟨h1, h2⟩ := h
  rw [UInt8.le_iff_toNat_le] at h1 h2
  refine ⟨?_, ?_, ?_, ?_, ?_, ?_, ?_⟩ <;> (intro hk; subst hk; revert h1 h2; decide)

/-- `Atoi` on a non-empty all-digit string -/
theorem atoi_digits (s : Bytes) (hne : s ≠ []) (hd : s.all isDigit = true) (hv : digitsVal s 0 ≤ 9223372036854775807) :
    atoi s = some (Int.ofNat (digitsVal s 0)) := by
  cases s with
  | nil => exact absurd rfl hne
  | cons c rest =>
    have hc : isDigit c = true := by simp [List.all_cons] at hd; exact hd.1
    obtain ⟨h45, h43, _⟩ := isDigit_ne hc
    have e45 : (c == 45) = false := by simp [h45]
    have e43 : (c == 43) = false := by simp [h43]
    simp only [atoi, e45, e43, Bool.or_self, Bool.false_eq_true, if_false, hd, Bool.not_true, reduceCtorEq]
    simp [hv]

theorem atoi_fmtNat (n : Nat) (h : n ≤ 9223372036854775807) : atoi (fmtNat n) = some (Int.ofNat n) := by
  have := atoi_digits (fmtNat n) (fmtNat_ne_nil n) (fmtNat_digits n) (by rw [fmtNat_val]; exact h)
  rwa [fmtNat_val] at this

/-! ### three-digit groups (brute force over 0..999) -/

def pad3ok (m : Nat) : Bool :=
  atoi (fmt03 (Int.ofNat m)) == some (Int.ofNat m) && (fmt03 (Int.ofNat m)).length == 3 &&
    (fmt03 (Int.ofNat m)).all isDigit

def neg3ok (m : Nat) : Bool :=   -- m stands for the negative value -(m+1)
  (match atoi (fmt03 (-(Int.ofNat m + 1))) with | some v => decide (v < 0) | none => true) &&
    !(fmt03 (-(Int.ofNat m + 1))).contains 47 && !(fmt03 (-(Int.ofNat m + 1))).contains 120

def allBelow (p : Nat → Bool) : Nat → Bool
  | 0 => true
  | n+1 => p n && allBelow p n

theorem allBelow_spec (p : Nat → Bool) (n : Nat) (h : allBelow p n = true) : ∀ m, m < n → p m = true := by
  induction n with
  | zero => intro m hm; omega
  | succ n ih =>
    simp only [allBelow, Bool.and_eq_true] at h
    intro m hm
    by_cases hmn : m = n
    · subst hmn; exact h.1
    · exact ih h.2 m (by omega)

set_option maxRecDepth 100000 in
theorem pad3_all : allBelow pad3ok 1000 = true := by decide

set_option maxRecDepth 100000 in
theorem neg3_all : allBelow neg3ok 999 = true := by decide

theorem pad3 (m : Int) (h0 : 0 ≤ m) (h1 : m < 1000) :
    atoi (fmt03 m) = some m ∧ (fmt03 m).length = 3 ∧ (fmt03 m).all isDigit = true := by
  have := allBelow_spec pad3ok 1000 pad3_all m.toNat (by omega)
  have e : Int.ofNat m.toNat = m := Int.toNat_of_nonneg h0
  simp only [pad3ok, e, Bool.and_eq_true, beq_iff_eq] at this
  exact ⟨this.1.1, this.1.2, this.2⟩

theorem neg3 (m : Int) (h0 : -1000 < m) (h1 : m < 0) :
    (∀ v, atoi (fmt03 m) = some v → v < 0) ∧ (47 : UInt8) ∉ fmt03 m ∧ (120 : UInt8) ∉ fmt03 m := by
  have := allBelow_spec neg3ok 999 neg3_all (-m - 1).toNat (by omega)
  have e : -(Int.ofNat (-m - 1).toNat + 1) = m := by
    have : Int.ofNat (-m - 1).toNat = -m - 1 := Int.toNat_of_nonneg (by omega)
    omega
  simp only [neg3ok, e, Bool.and_eq_true, Bool.not_eq_true', List.contains_eq_mem, decide_eq_false_iff_not] at this
  refine ⟨?_, this.1.2, this.2⟩
  intro v hv
  have h := this.1.1
  rw [hv] at h
  simpa using h

/-! ### suffixes and prefixes -/

theorem mem_of_hasSuffix {s suf : Bytes} (h : hasSuffix s suf = true) : ∀ c ∈ suf, c ∈ s := by
  simp only [hasSuffix, Bool.and_eq_true, decide_eq_true_eq, beq_iff_eq] at h
  intro c hc
  rw [← h.2] at hc
  exact List.mem_of_mem_drop hc

theorem hasSuffix_digits {s : Bytes} (h : s.all isDigit = true) : hasSuffix s (ascii ".p") = false := by
  cases hs : hasSuffix s (ascii ".p") with
  | false => rfl
  | true =>
    have := mem_of_hasSuffix hs 112 (by decide)
    have hd : isDigit 112 = true := (List.all_eq_true.mp h) 112 this
    exact absurd hd (by decide)

theorem hasSuffix_xdigits {s : Bytes} (h : s.all isDigit = true) : hasSuffix (120 :: s) (ascii ".p") = false := by
  cases hs : hasSuffix (120 :: s) (ascii ".p") with
  | false => rfl
  | true =>
    have := mem_of_hasSuffix hs 112 (by decide)
    simp only [List.mem_cons] at this
    rcases this with h1 | h1
    · exact absurd h1 (by decide)
    · have hd : isDigit 112 = true := (List.all_eq_true.mp h) 112 h1
      exact absurd hd (by decide)

theorem hasSuffix_append (a b : Bytes) : hasSuffix (a ++ b) b = true := by
  simp [hasSuffix]

theorem take_strip (a b : Bytes) : (a ++ b).take ((a ++ b).length - b.length) = a := by
  simp

theorem noslash_digits {s : Bytes} (h : s.all isDigit = true) : (47 : UInt8) ∉ s := by
  intro hc
  have hd : isDigit 47 = true := (List.all_eq_true.mp h) 47 hc
  exact absurd hd (by decide)

theorem trimPrefix_x (s : Bytes) : trimPrefix (120 :: s) (ascii "x") = s := by
  simp [trimPrefix, cutPrefix, ascii]

theorem trimPrefix_digits {s : Bytes} (h : s.all isDigit = true) : trimPrefix s (ascii "x") = s := by
  cases s with
  | nil => rfl
  | cons c cs =>
    have hc : isDigit c = true := by simp [List.all_cons] at h; exact h.1
    have := (isDigit_ne hc).2.2.2.2.2.1
    simp [trimPrefix, cutPrefix, ascii, this]

theorem wrap64_id {x : Int} (h0 : -9223372036854775808 ≤ x) (h1 : x ≤ 9223372036854775807) : wrap64 x = x := by
  unfold wrap64; omega

theorem wrap64_range (x : Int) : -9223372036854775808 ≤ wrap64 x ∧ wrap64 x ≤ 9223372036854775807 := by
  unfold wrap64; omega

end TilePath

namespace TilePath

theorem goMod_nonneg {n : Int} (h : 0 ≤ n) : goMod n 1000 = n % 1000 := by simp [goMod, h]

/-- the x-groups the `Path` loop puts in front of `acc`, and what `ParseTilePath`'s loop makes of them -/
theorem nStrLoop_struct (fuel : Nat) : ∀ (n : Int) (acc : Bytes), 0 ≤ n → n < 1000 ^ (fuel + 1) → n ≤ 9223372036854775807 →
    ∃ G : List Bytes, nStrLoop fuel n acc = joinSlash G ++ acc ∧
      (∀ g ∈ G, (47 : UInt8) ∉ g ∧ hasSuffix g (ascii ".p") = false) ∧
      (∀ rest, parseN (G ++ rest) 0 = parseN rest (n / 1000)) := by
  induction fuel with
  | zero =>
    intro n acc h0 h1 _
    refine ⟨[], rfl, by simp, ?_⟩
    intro rest
    have : n / 1000 = 0 := by omega
    simp [this]
  | succ fuel ih =>
    intro n acc h0 h1 h2
    by_cases hn : n ≥ 1000
    · have hn' : 0 ≤ n / 1000 := by omega
      have hlt : n / 1000 < 1000 ^ (fuel + 1) := by
        rw [Int.pow_succ] at h1; omega
      obtain ⟨G, hG, hGp, hGn⟩ := ih (n / 1000) (120 :: fmt03 (goMod (n / 1000) pathBase) ++ 47 :: acc) hn' hlt (by omega)
      have hm0 : 0 ≤ n / 1000 % 1000 := by omega
      have hm1 : n / 1000 % 1000 < 1000 := by omega
      obtain ⟨pa, pl, pd⟩ := pad3 (n / 1000 % 1000) hm0 hm1
      refine ⟨G ++ [120 :: fmt03 (n / 1000 % 1000)], ?_, ?_, ?_⟩
      · simp only [nStrLoop, pathBase, hn, if_true]
        simp only [pathBase] at hG
        rw [hG, goMod_nonneg hn', joinSlash_append]
        simp
      · intro g hg
        simp only [List.mem_append, List.mem_singleton] at hg
        rcases hg with hg | hg
        · exact hGp g hg
        · subst hg
          refine ⟨?_, hasSuffix_xdigits pd⟩
          intro hc
          simp only [List.mem_cons] at hc
          rcases hc with hc | hc
          · exact absurd hc (by decide)
          · exact noslash_digits pd hc
      · intro rest
        rw [List.append_assoc, hGn]
        simp only [List.cons_append, List.nil_append, parseN, trimPrefix_x, pa, pathBase]
        rw [if_neg (by omega)]
        rw [wrap64_id (by omega) (by omega)]
        congr 1
        omega
    · refine ⟨[], ?_, by simp, ?_⟩
      · simp [nStrLoop, pathBase, hn, joinSlash]
      · intro rest
        have : n / 1000 = 0 := by omega
        simp [this]

theorem nStrLoop_small (fuel : Nat) (n : Int) (acc : Bytes) (h : n < 1000) : nStrLoop fuel n acc = acc := by
  cases fuel with
  | zero => rfl
  | succ f => simp [nStrLoop, pathBase]; omega

end TilePath

namespace TilePath

theorem atoi_8 : atoi (ascii "8") = some 8 := by decide
theorem atoi_0 : atoi (ascii "0") = some 0 := by decide
theorem shl1_8 : shl1 8 = 256 := by decide

/-- list plumbing of `tlogParsePrelim` once the shape of `strings.Split(path, "/")` is known -/
theorem prelim_core (path l0 e : Bytes) (G tailE : List Bytes) (lval w : Int)
    (hsplit : split 47 path = ascii "tile" :: ascii "8" :: l0 :: (G ++ tailE))
    (hl0 : (l0 = ascii "data" ∧ lval = 0) ∨
           (l0 ≠ ascii "data" ∧ atoi l0 = some lval ∧ 0 ≤ lval ∧ hasSuffix l0 (ascii ".p") = false))
    (hG : ∀ g ∈ G, hasSuffix g (ascii ".p") = false)
    (htail : (tailE = [e] ∧ w = 256) ∨
             (∃ ws, tailE = [e ++ ascii ".p", ws] ∧ atoi ws = some w ∧ 0 < w ∧ w < 256)) :
    tlogParsePrelim path =
      (parseN (G ++ [e]) 0).map fun n => { H := 8, L := if l0 = ascii "data" then -1 else lval, N := n, W := w } := by
  have hne : tailE ≠ [] := by
    rcases htail with ⟨h, _⟩ | ⟨ws, h, _⟩ <;> simp [h]
  have hlen : ¬ ((ascii "tile" :: ascii "8" :: l0 :: (G ++ tailE)).length < 4 ∨
      (ascii "tile" :: ascii "8" :: l0 :: (G ++ tailE)).getD 0 [] ≠ ascii "tile") := by
    have : 0 < tailE.length := List.length_pos_iff.mpr hne
    simp only [List.length_cons, List.length_append, List.getD_cons_zero, ne_eq, not_true_eq_false, or_false]
    omega
  -- the element standing for f[2] after the "data" → "0" replacement
  let f2 : Bytes := if l0 = ascii "data" then ascii "0" else l0
  have hf2 : atoi f2 = some lval ∧ hasSuffix f2 (ascii ".p") = false := by
    rcases hl0 with ⟨h1, h2⟩ | ⟨h1, h2, _, h4⟩
    · simp only [f2, h1, if_true, h2]; exact ⟨atoi_0, by decide⟩
    · simp only [f2, h1, if_false]; exact ⟨h2, h4⟩
  have hfset : (if (ascii "tile" :: ascii "8" :: l0 :: (G ++ tailE)).getD 2 [] = ascii "data"
        then (ascii "tile" :: ascii "8" :: l0 :: (G ++ tailE)).set 2 (ascii "0")
        else ascii "tile" :: ascii "8" :: l0 :: (G ++ tailE)) = ascii "tile" :: ascii "8" :: f2 :: (G ++ tailE) := by
    by_cases hd : l0 = ascii "data"
    · simp [f2, hd]
    · simp [f2, hd]
  have hlnn : ¬ ((8 : Int) < 1 ∨ lval < 0 ∨ (8 : Int) > 30) := by
    rcases hl0 with ⟨_, h2⟩ | ⟨_, _, h3, _⟩ <;> omega
  unfold tlogParsePrelim
  simp only [hsplit]
  rw [if_neg hlen]
  simp only [hfset]
  simp only [List.getD_cons_succ, List.getD_cons_zero, atoi_8, hf2.1]
  rw [if_neg hlnn]
  simp only [shl1_8]
  -- the second-to-last element
  have hmid : ∃ d before, G.reverse ++ [f2, ascii "8", ascii "tile"] = d :: before ∧ hasSuffix d (ascii ".p") = false := by
    cases hr : G.reverse with
    | nil => exact ⟨f2, _, rfl, hf2.2⟩
    | cons g gs =>
      refine ⟨g, gs ++ [f2, ascii "8", ascii "tile"], rfl, hG g ?_⟩
      have : g ∈ G.reverse := by rw [hr]; simp
      simpa using this
  rcases htail with ⟨ht, hw⟩ | ⟨ws, ht, hws, hw0, hw1⟩
  · subst ht; subst hw
    obtain ⟨d, before, hdb, hds⟩ := hmid
    have hrev : (ascii "tile" :: ascii "8" :: f2 :: (G ++ [e])).reverse = e :: d :: before := by
      simp only [List.reverse_cons, List.reverse_append, List.reverse_nil, List.nil_append, List.append_assoc,
        List.cons_append]
      rw [← hdb]
    simp only [hrev, hds, Bool.false_eq_true, if_false, List.drop_succ_cons, List.drop_zero]
    cases parseN (G ++ [e]) 0 <;> rfl
  · subst ht
    have hrev : (ascii "tile" :: ascii "8" :: f2 :: (G ++ [e ++ ascii ".p", ws])).reverse =
        ws :: (e ++ ascii ".p") :: (G.reverse ++ [f2, ascii "8", ascii "tile"]) := by
      simp
    have hcond : ¬ (w ≤ 0 ∨ w ≥ 256) := by omega
    have htake : (e ++ ascii ".p").take ((e ++ ascii ".p").length - 2) = e := take_strip e (ascii ".p")
    simp only [hrev, hasSuffix_append, if_true, hws, hcond, if_false, htake]
    have hback : (e :: (G.reverse ++ [f2, ascii "8", ascii "tile"])).reverse = ascii "tile" :: ascii "8" :: f2 :: (G ++ [e]) := by
      simp
    simp only [hback, List.drop_succ_cons, List.drop_zero]
    cases parseN (G ++ [e]) 0 <;> rfl

end TilePath

namespace TilePath

theorem trimPrefix_nox {s : Bytes} (h : (120 : UInt8) ∉ s) : trimPrefix s (ascii "x") = s := by
  cases s with
  | nil => rfl
  | cons c cs =>
    have : c ≠ 120 := fun hc => h (by simp [hc])
    simp [trimPrefix, cutPrefix, ascii, this]

theorem fmtInt_nonneg {x : Int} (h : 0 ≤ x) : fmtInt x = fmtNat x.toNat := by
  unfold fmtInt
  rw [if_neg (by omega)]
  congr 1
  omega

theorem fmtInt_facts {x : Int} (h0 : 0 ≤ x) (h1 : x ≤ 9223372036854775807) :
    atoi (fmtInt x) = some x ∧ (fmtInt x).all isDigit = true ∧ fmtInt x ≠ [] := by
  rw [fmtInt_nonneg h0]
  refine ⟨?_, fmtNat_digits _, fmtNat_ne_nil _⟩
  rw [atoi_fmtNat _ (by omega)]
  congr 1
  exact Int.toNat_of_nonneg h0

theorem digits_ne_data {s : Bytes} (h : s.all isDigit = true) : s ≠ ascii "data" := by
  intro hc
  rw [hc] at h
  exact absurd h (by decide)

/-- the level element of a path -/
def levelStr (l : Int) : Bytes := if l = -1 then ascii "data" else fmtInt l

theorem tlogPath_eq (t : Tile) (hH : t.H = 8) :
    tlogPath t = ascii "tile" ++ 47 :: (ascii "8" ++ 47 :: (levelStr t.L ++ 47 ::
      (nStr t.N ++ (if t.W ≠ 256 then ascii ".p" ++ 47 :: fmtInt t.W else [])))) := by
  unfold tlogPath levelStr
  rw [hH, shl1_8]
  have h8 : fmtInt 8 = ascii "8" := by decide
  have ht : ascii "tile/" = ascii "tile" ++ [47] := by decide
  have hp : ascii ".p/" = ascii ".p" ++ [47] := by decide
  rw [h8, ht, hp]
  by_cases hw : t.W ≠ 256
  · simp only [hw, if_true]; simp
  · simp only [hw, if_false]; simp

/-- `ParseTilePath`'s preliminary parse applied to the output of `Tile.Path`, for height-8 tiles -/
theorem path_prelim (t : Tile) (hH : t.H = 8) (hL0 : -1 ≤ t.L) (hL1 : t.L ≤ 9223372036854775807)
    (hW0 : 1 ≤ t.W) (hW1 : t.W ≤ 256) (hN1 : t.N ≤ 9223372036854775807) :
    (0 ≤ t.N → tlogParsePrelim (tlogPath t) = some t) ∧
    (t.N < 0 → ∀ t', tlogParsePrelim (tlogPath t) = some t' → t'.N = 0) := by
  -- the last group and the x-groups
  have hstruct : ∃ (G : List Bytes) (e : Bytes), nStr t.N = joinSlash G ++ e ∧ e = fmt03 (goMod t.N 1000) ∧
      (∀ g ∈ G, (47 : UInt8) ∉ g ∧ hasSuffix g (ascii ".p") = false) ∧
      (∀ rest, parseN (G ++ rest) 0 = parseN rest (if 0 ≤ t.N then t.N / 1000 else 0)) := by
    by_cases hn : 0 ≤ t.N
    · obtain ⟨G, h1, h2, h3⟩ := nStrLoop_struct 7 t.N (fmt03 (goMod t.N 1000)) hn (by
        have : (1000 : Int) ^ (7 + 1) = 1000000000000000000000000 := by decide
        omega) hN1
      exact ⟨G, _, h1, rfl, h2, by simpa [hn] using h3⟩
    · refine ⟨[], _, ?_, rfl, by simp, by simp [hn]⟩
      unfold nStr
      rw [nStrLoop_small _ _ _ (by omega)]
      simp [joinSlash]
  obtain ⟨G, e, hnstr, he, hGp, hGn⟩ := hstruct
  have hm : -1000 < goMod t.N 1000 ∧ goMod t.N 1000 < 1000 := by unfold goMod; split <;> omega
  have he_noslash : (47 : UInt8) ∉ e := by
    rw [he]
    by_cases h0 : 0 ≤ goMod t.N 1000
    · exact noslash_digits (pad3 _ h0 hm.2).2.2
    · exact (neg3 _ hm.1 (by omega)).2.1
  -- the level element
  have hlev : (47 : UInt8) ∉ levelStr t.L ∧ ∃ lval : Int,
      ((levelStr t.L = ascii "data" ∧ lval = 0) ∨
       (levelStr t.L ≠ ascii "data" ∧ atoi (levelStr t.L) = some lval ∧ 0 ≤ lval ∧
          hasSuffix (levelStr t.L) (ascii ".p") = false)) ∧
      (if levelStr t.L = ascii "data" then (-1 : Int) else lval) = t.L := by
    by_cases hl : t.L = -1
    · have hs : levelStr t.L = ascii "data" := by simp [levelStr, hl]
      rw [hs]
      exact ⟨by decide, 0, Or.inl ⟨rfl, rfl⟩, by simp [hl]⟩
    · have hs : levelStr t.L = fmtInt t.L := by simp [levelStr, hl]
      rw [hs]
      obtain ⟨a1, a2, a3⟩ := fmtInt_facts (x := t.L) (by omega) hL1
      exact ⟨noslash_digits a2, t.L, Or.inr ⟨digits_ne_data a2, a1, by omega, hasSuffix_digits a2⟩,
        by simp [digits_ne_data a2]⟩
  obtain ⟨hlev_ns, lval, hlev_cases, hlev_L⟩ := hlev
  -- the last group and the width element
  have htailE : ∃ tailE : List Bytes,
      split 47 (e ++ (if t.W ≠ 256 then ascii ".p" ++ 47 :: fmtInt t.W else [])) = tailE ∧
      ((tailE = [e] ∧ t.W = 256) ∨
       (∃ ws, tailE = [e ++ ascii ".p", ws] ∧ atoi ws = some t.W ∧ 0 < t.W ∧ t.W < 256)) := by
    by_cases hw : t.W = 256
    · refine ⟨[e], ?_, Or.inl ⟨rfl, hw⟩⟩
      simp only [hw, ne_eq, not_true_eq_false, if_false, List.append_nil]
      exact split_noslash _ he_noslash
    · obtain ⟨a1, a2, _⟩ := fmtInt_facts (x := t.W) (by omega) (by omega)
      refine ⟨[e ++ ascii ".p", fmtInt t.W], ?_, Or.inr ⟨_, rfl, a1, by omega, by omega⟩⟩
      have hns : (47 : UInt8) ∉ e ++ ascii ".p" := by
        intro hc
        simp only [List.mem_append] at hc
        rcases hc with hc | hc
        · exact he_noslash hc
        · exact absurd hc (by decide)
      simp only [ne_eq, hw, not_false_eq_true, if_true]
      rw [← List.append_assoc, split_cons_noslash _ _ hns, split_noslash _ (noslash_digits a2)]
  obtain ⟨tailE, htsplit, htcases⟩ := htailE
  -- split of the whole path
  have hsplit : split 47 (tlogPath t) = ascii "tile" :: ascii "8" :: levelStr t.L :: (G ++ tailE) := by
    rw [tlogPath_eq t hH, split_cons_noslash _ _ (by decide), split_cons_noslash _ _ (by decide),
      split_cons_noslash _ _ hlev_ns, hnstr, List.append_assoc, split_joinSlash _ _ (fun g hg => (hGp g hg).1),
      htsplit]
  rw [prelim_core (tlogPath t) (levelStr t.L) e G tailE lval t.W hsplit hlev_cases (fun g hg => (hGp g hg).2) htcases,
    hGn, hlev_L]
  constructor
  · intro hn
    have hgm : goMod t.N 1000 = t.N % 1000 := goMod_nonneg hn
    have hm0 : 0 ≤ t.N % 1000 := by omega
    have hm1 : t.N % 1000 < 1000 := by omega
    obtain ⟨pa, _, pd⟩ := pad3 (t.N % 1000) hm0 hm1
    have hpn : parseN [e] (t.N / 1000) = some t.N := by
      rw [he, hgm]
      simp only [parseN, trimPrefix_digits pd, pa, pathBase]
      rw [if_neg (by omega), wrap64_id (by omega) (by omega)]
      congr 1; omega
    rw [if_pos hn, hpn]
    cases t
    simp_all
  · intro hn t' ht'
    have hnn : ¬ 0 ≤ t.N := by omega
    rw [if_neg hnn] at ht'
    by_cases h0 : goMod t.N 1000 = 0
    · rw [he, h0] at ht'
      have hz : parseN [fmt03 0] 0 = some 0 := by decide
      rw [hz] at ht'
      simp only [Option.map_some, Option.some.injEq] at ht'
      rw [← ht']
    · have hneg : goMod t.N 1000 < 0 := by
        unfold goMod at h0 ⊢; rw [if_neg hnn] at h0 ⊢; omega
      obtain ⟨n1, _, n3⟩ := neg3 _ hm.1 hneg
      have hnone : parseN [e] 0 = none := by
        rw [he]
        simp only [parseN, trimPrefix_nox n3]
        cases ha : atoi (fmt03 (goMod t.N 1000)) with
        | none => rfl
        | some v =>
          have := n1 v ha
          simp only
          rw [if_pos (Or.inl this)]
      rw [hnone] at ht'
      simp at ht'

end TilePath

namespace TilePath

theorem parseN_range (l : List Bytes) (a n : Int) (ha : -9223372036854775808 ≤ a ∧ a ≤ 9223372036854775807)
    (h : parseN l a = some n) : -9223372036854775808 ≤ n ∧ n ≤ 9223372036854775807 := by
  induction l generalizing a with
  | nil => simp only [parseN, Option.some.injEq] at h; subst h; exact ha
  | cons s rest ih =>
    simp only [parseN] at h
    split at h
    · cases h
    · split at h
      · cases h
      · exact ih _ (wrap64_range _) h

theorem atoi_range (s : Bytes) (v : Int) (h : atoi s = some v) :
    -9223372036854775808 ≤ v ∧ v ≤ 9223372036854775807 := by
  cases s with
  | nil => simp [atoi] at h
  | cons c rest =>
    simp only [atoi] at h
    repeat' split at h
    all_goals first
      | (cases h; done)
      | (simp only [Option.some.injEq] at h; subst h; simp only [Int.ofNat_eq_natCast]; omega)

/-- what a successful preliminary parse guarantees -/
theorem prelim_bounds (q : Bytes) (t : Tile) (h : tlogParsePrelim q = some t) :
    atoi ((split 47 q).getD 1 []) = some t.H ∧ 1 ≤ t.H ∧ t.H ≤ 30 ∧
    -1 ≤ t.L ∧ t.L ≤ 9223372036854775807 ∧ ((split 47 q).getD 2 [] = ascii "data" → t.L = -1) ∧
    (t.W = shl1 t.H ∨ (0 < t.W ∧ t.W < shl1 t.H)) ∧
    -9223372036854775808 ≤ t.N ∧ t.N ≤ 9223372036854775807 := by
  unfold tlogParsePrelim at h
  simp only at h
  split at h
  · cases h
  · generalize hf : (if (split 47 q).getD 2 [] = ascii "data" then (split 47 q).set 2 (ascii "0") else split 47 q) = f at h
    have hf1 : f.getD 1 [] = (split 47 q).getD 1 [] := by
      rw [← hf]; split <;> simp
    split at h
    · rename_i hv lv hh hl
      split at h
      · cases h
      · rename_i hb
        split at h
        · rename_i last dotP before hrev
          split at h
          · cases h
          · rename_i w f' hwf
            split at h
            · cases h
            · rename_i n hn
              simp only [Option.some.injEq] at h
              subst h
              have hnr := parseN_range _ 0 n (by omega) hn
              have hlr := (atoi_range _ _ hl).2
              have hW : w = shl1 hv ∨ (0 < w ∧ w < shl1 hv) := by
                split at hwf
                · split at hwf
                  · cases hwf
                  · rename_i ww hww
                    split at hwf
                    · cases hwf
                    · rename_i hc
                      simp only [Option.some.injEq, Prod.mk.injEq] at hwf
                      rw [← hwf.1]
                      right; omega
                · simp only [Option.some.injEq, Prod.mk.injEq] at hwf
                  left; exact hwf.1.symm
              dsimp only
              refine ⟨by rw [← hf1]; exact hh, by omega, by omega, ?_, ?_, ?_, hW, hnr.1, hnr.2⟩
              · split <;> omega
              · split <;> omega
              · intro hd; simp only [hd, if_true]
        · cases h
    · cases h

end TilePath

namespace TilePath

theorem cutPrefix_append (pre y : Bytes) : cutPrefix (pre ++ y) pre = some y := by
  simp [cutPrefix]

theorem cutPrefix_some {s pre r : Bytes} (h : cutPrefix s pre = some r) : s = pre ++ r := by
  unfold cutPrefix at h
  split at h
  · rename_i ht
    simp only [Option.some.injEq] at h
    have := List.take_append_drop pre.length s
    rw [ht, h] at this
    exact this.symm
  · cases h

theorem trimPrefix_append (pre y : Bytes) : trimPrefix (pre ++ y) pre = y := by
  simp [trimPrefix, cutPrefix_append]

theorem tlogParse_some {q : Bytes} {t : Tile} (h : tlogParse q = some t) :
    tlogParsePrelim q = some t ∧ q = tlogPath t := by
  unfold tlogParse at h
  split at h
  · cases h
  · rename_i t' ht'
    split at h
    · cases h
    · rename_i hq
      simp only [Option.some.injEq] at h
      subst h
      exact ⟨ht', by simpa using hq⟩

/-- `tlog.ParseTilePath(t.Path()) = t` for height-8 tiles of the domain -/
theorem tlogParse_path (t : Tile) (hH : t.H = 8) (hL0 : -1 ≤ t.L) (hL1 : t.L ≤ 9223372036854775807)
    (hW0 : 1 ≤ t.W) (hW1 : t.W ≤ 256) (hN0 : 0 ≤ t.N) (hN1 : t.N ≤ 9223372036854775807) :
    tlogParse (tlogPath t) = some t := by
  unfold tlogParse
  rw [(path_prelim t hH hL0 hL1 hW0 hW1 hN1).1 hN0]
  simp

/-- a successful `tlog.ParseTilePath` on a path that starts with `tile/8/` yields a tile of the domain -/
theorem tlogParse_dom (q rest : Bytes) (t : Tile) (hq : q = ascii "tile/8/" ++ rest) (h : tlogParse q = some t) :
    t.H = 8 ∧ -1 ≤ t.L ∧ t.L ≤ 9223372036854775807 ∧ 0 ≤ t.N ∧ t.N ≤ 9223372036854775807 ∧ 1 ≤ t.W ∧ t.W ≤ 256 ∧
    ((split 47 rest).getD 0 [] = ascii "data" → t.L = -1) := by
  obtain ⟨hp, hpath⟩ := tlogParse_some h
  obtain ⟨b1, b2, b3, b4, b5, b6, b7, b8, b9⟩ := prelim_bounds q t hp
  have hs : split 47 q = ascii "tile" :: ascii "8" :: split 47 rest := by
    rw [hq]
    have : ascii "tile/8/" ++ rest = ascii "tile" ++ 47 :: (ascii "8" ++ 47 :: rest) := by
      have : ascii "tile/8/" = ascii "tile" ++ 47 :: (ascii "8" ++ [47]) := by decide
      rw [this]; simp
    rw [this, split_cons_noslash _ _ (by decide), split_cons_noslash _ _ (by decide)]
  rw [hs] at b1 b6
  simp only [List.getD_cons_succ, List.getD_cons_zero, atoi_8, Option.some.injEq] at b1 b6
  have hH : t.H = 8 := b1.symm
  rw [hH, shl1_8] at b7
  have hW : 1 ≤ t.W ∧ t.W ≤ 256 := by omega
  refine ⟨hH, b4, b5, ?_, b9, hW.1, hW.2, b6⟩
  -- a negative N cannot survive the canonical-form re-check
  by_cases hn : 0 ≤ t.N
  · exact hn
  · have := (path_prelim t hH b4 b5 hW.1 hW.2 b9).2 (by omega) t (by rw [← hpath]; exact hp)
    omega

end TilePath

namespace TilePath

/-- what follows `tile/8/<level>/` in a path -/
def nwPart (t : Tile) : Bytes := nStr t.N ++ (if t.W ≠ 256 then ascii ".p" ++ 47 :: fmtInt t.W else [])

theorem tlogPath_prefix (t : Tile) (hH : t.H = 8) :
    tlogPath t = ascii "tile/8/" ++ (levelStr t.L ++ 47 :: nwPart t) := by
  rw [tlogPath_eq t hH]
  have : ascii "tile/8/" = ascii "tile" ++ 47 :: (ascii "8" ++ [47]) := by decide
  rw [this]; simp [nwPart]

theorem tlogPath_prefix_data (t : Tile) (hH : t.H = 8) (hL : t.L = -1) :
    tlogPath t = ascii "tile/8/data/" ++ nwPart t := by
  rw [tlogPath_prefix t hH]
  have h1 : levelStr t.L = ascii "data" := by simp [levelStr, hL]
  have h2 : ascii "tile/8/data/" = ascii "tile/8/" ++ (ascii "data" ++ [47]) := by decide
  rw [h1, h2]; simp

theorem not_names_prefix (c : UInt8) (r : Bytes) (hc : c ≠ 110) :
    cutPrefix (ascii "tile/" ++ c :: r) (ascii "tile/names/") = none := by
  have h1 : ascii "tile/" = [116, 105, 108, 101, 47] := by decide
  have h2 : ascii "tile/names/" = [116, 105, 108, 101, 47, 110, 97, 109, 101, 115, 47] := by decide
  rw [h1, h2]
  unfold cutPrefix
  rw [if_neg]
  intro h
  simp at h
  exact hc h.1

theorem levelStr_head (l : Int) (h : -1 ≤ l) : ∃ c r, levelStr l = c :: r ∧ c ≠ 110 := by
  unfold levelStr
  by_cases hl : l = -1
  · rw [if_pos hl]
    exact ⟨100, ascii "ata", by decide, by decide⟩
  · rw [if_neg hl, fmtInt_nonneg (by omega)]
    have hne := fmtNat_ne_nil l.toNat
    have hd := fmtNat_digits l.toNat
    cases hs : fmtNat l.toNat with
    | nil => exact absurd hs hne
    | cons c r =>
      rw [hs] at hd
      have hc : isDigit c = true := by simp [List.all_cons] at hd; exact hd.1
      refine ⟨c, r, rfl, ?_⟩
      intro h110
      rw [h110] at hc
      exact absurd hc (by decide)

theorem sunlight_roundtrip (t : Tile) (h : TileDom t) : ∃ p, sunlightPath t = some p ∧ sunlightParse p = some t := by
  obtain ⟨hH, hL0, hL1, hN0, hN1, hW0, hW1⟩ := h
  unfold sunlightPath
  rw [if_neg (by simp [tileHeight, hH])]
  by_cases hn : t.L = -2
  · -- names tile
    rw [if_pos hn]
    have hp := tlogPath_prefix_data { t with L := -1 } hH rfl
    refine ⟨_, rfl, ?_⟩
    rw [hp, trimPrefix_append]
    unfold sunlightParse
    rw [cutPrefix_append]
    simp only
    rw [← hp, tlogParse_path { t with L := -1 } hH (by simp) (by simp) hW0 hW1 hN0 hN1]
    simp only [Option.some.injEq]
    cases t
    simp_all
  · rw [if_neg hn]
    have hL : -1 ≤ t.L := by omega
    have hp := tlogPath_prefix t hH
    refine ⟨_, rfl, ?_⟩
    rw [hp, trimPrefix_append]
    unfold sunlightParse
    obtain ⟨c, r, hlc, hc⟩ := levelStr_head t.L hL
    have hnn : cutPrefix (ascii "tile/" ++ (levelStr t.L ++ 47 :: nwPart t)) (ascii "tile/names/") = none := by
      rw [hlc]; exact not_names_prefix c _ hc
    rw [hnn]
    simp only
    rw [cutPrefix_append]
    simp only
    rw [← hp]
    exact tlogParse_path t hH hL hL1 hW0 hW1 hN0 hN1

theorem sunlight_canonical (p : Bytes) (t : Tile) (h : sunlightParse p = some t) :
    sunlightPath t = some p ∧ TileDom t := by
  unfold sunlightParse at h
  split at h
  · -- names
    rename_i rest hcut
    split at h
    · cases h
    · rename_i t0 ht0
      simp only [Option.some.injEq] at h
      subst h
      have hq : ascii "tile/8/data/" ++ rest = ascii "tile/8/" ++ (ascii "data" ++ 47 :: rest) := by
        have : ascii "tile/8/data/" = ascii "tile/8/" ++ (ascii "data" ++ [47]) := by decide
        rw [this]; simp
      obtain ⟨hH, hL0, hL1, hN0, hN1, hW0, hW1, hdata⟩ := tlogParse_dom _ _ t0 hq ht0
      have hL : t0.L = -1 := by
        apply hdata
        rw [split_cons_noslash _ _ (by decide)]
        rfl
      obtain ⟨_, hpath⟩ := tlogParse_some ht0
      refine ⟨?_, ⟨hH, by simp, by simp, hN0, hN1, hW0, hW1⟩⟩
      unfold sunlightPath
      rw [if_neg (by simp [tileHeight, hH])]
      simp only [if_true]
      have ht : ({ { t0 with L := -2 } with L := -1 } : Tile) = t0 := by
        cases t0; simp_all
      rw [ht, ← hpath, trimPrefix_append, ← cutPrefix_some hcut]
  · split at h
    · rename_i hnot rest hcut
      obtain ⟨hH, hL0, hL1, hN0, hN1, hW0, hW1, _⟩ := tlogParse_dom _ rest t rfl h
      obtain ⟨_, hpath⟩ := tlogParse_some h
      refine ⟨?_, ⟨hH, by omega, hL1, hN0, hN1, hW0, hW1⟩⟩
      unfold sunlightPath
      rw [if_neg (by simp [tileHeight, hH]), if_neg (by omega)]
      rw [← hpath, trimPrefix_append, ← cutPrefix_some hcut]
    · cases h

end TilePath
