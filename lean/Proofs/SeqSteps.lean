import Proofs.SeqInv2
/-! One-step facts about individual events of the sequencer model, used by several properties. -/
namespace Seq

/-- an acknowledgement is accepted only from the cache or from a round whose checkpoint upload succeeded -/
theorem ack_sources (s s' : Sys) (i eid key idx ts : Nat) (h : step s (.ack i eid key idx ts) = some s') :
    cacheLookup (s.insts i).cache key = some (idx, ts) ∨
    ∃ rd, (s.insts i).phase = .round rd ∧ rd.pc = .done .ok ∧ rd.published = true := by
  simp only [step] at h
  repeat' split at h
  all_goals simp_all

/-- a staging bundle is discarded only by a round that has published its checkpoint, and it is that round's bundle -/
theorem discard_only_after_publish (s s' : Sys) (i : Nat) (k : Key) (r : Res)
    (h : step s (.discard i k r) = some s') :
    ∃ rd, (s.insts i).phase = .round rd ∧ rd.pc = .discard ∧ k = .staging rd.new.leaves := by
  simp only [step] at h
  repeat' split at h
  all_goals simp_all

/-- the checkpoint of a round is uploaded only after every staged tile upload has returned successfully -/
theorem ckpt_after_tiles (s s' : Sys) (i : Nat) (imm : Bool) (o : Obj) (r : Res) (rd : Round)
    (hph : (s.insts i).phase = .round rd) (h : step s (.upload i .ckpt imm o r) = some s') :
    o = .ck rd.new ∧ (rd.pc = .ckpt ∨ ∃ done, rd.pc = .tiles done false ∧ ∀ t ∈ rd.bundle, t ∈ done) := by
  simp only [step, hph] at h
  split at h
  · cases h
  · cases hpc : rd.pc <;> simp only [hpc] at h <;> (try cases h) <;>
      (split at h <;> (try cases h) <;> split at h <;> (try cases h) <;> simp_all)

/-- a submission answered from the pool, the in-sequencing map, the cache or refused changes nothing -/
theorem submitted_noop (s s' : Sys) (i eid key : Nat) (low : Bool) (iss : List Nat) (src : Src)
    (hsrc : src = .pool ∨ src = .cache ∨ src = .ratelimit)
    (h : step s (.submitted i eid key low iss src) = some s') : s' = s := by
  simp only [step] at h
  repeat' split at h
  all_goals (first | cases h | (injection h with h; exact h.symm) | skip)
  all_goals (have hadm := admission_cases s.poolSize (s.insts i).pool low)
  all_goals (rcases hsrc with rfl | rfl | rfl <;> simp_all)

/-- the tree a round proposes is the held tree followed by exactly one leaf per slot of the pool being sequenced -/
theorem round_new_tree (s s' : Sys) (i v : Nat) (rd : Round)
    (hph : (s.insts i).phase = .round rd) (hpc : rd.pc = .clock) (hv : (s.insts i).tree.time < v)
    (h : step s (.clock i v) = some s') :
    ∃ rd', (s'.insts i).phase = .round rd' ∧ rd'.slots = rd.slots ∧
      rd'.new = ⟨(s.insts i).tree.leaves ++ leavesOf rd.slots v, v⟩ := by
  have : ¬ v ≤ (s.insts i).tree.time := by omega
  simp only [step, hph, hpc, this, if_false] at h
  injection h with h; subst h
  simp [Sys.setInst, upd]

/-- loading succeeds only with the lock checkpoint and only if every consulted edge object was the right one -/
theorem loaded_sound (s s' : Sys) (i : Nat) (c : Ck) (h : step s (.loaded i c) = some s') :
    (s.insts i).phase = .loading (.edge c false) ∧ (s'.insts i).tree = c := by
  simp only [step] at h
  repeat' split at h
  all_goals simp_all [Sys.setInst, upd]
  all_goals (subst h; simp [upd])

end Seq
