import Model.Witness
import Proofs.MerkleMore
import Proofs.Checkpoint
/-! Helper lemmas for C14: the normal form of `addCheckpoint` (pure prefix, fetch, pure middle,
CAS, upload), what is known whenever the lock store is written, and the chain invariant. -/
namespace Witness
open Checkpoint

variable (node : Hash → Hash → Hash) (emptyHash : Hash)

/-! ### the interpreter on lists of tests -/

theorem exec_pure {g : Guard} (hg : g.isPure = true) (e : Env) (st : OState) :
    exec node emptyHash g e st = (st, Verdict.ofBool (holds node emptyHash g e st)) := by
  cases g <;> first | rfl | (simp [Guard.isPure] at hg)

theorem runGuards_pure (l : List Step) (hp : ∀ s ∈ l, s.guard.isPure = true) (e : Env) (st : OState) :
    runGuards node emptyHash l e st = (st, firstFail node emptyHash l e st) := by
  induction l with
  | nil => rfl
  | cons s rest ih =>
    have h1 := hp s (by simp)
    have h2 : ∀ s ∈ rest, s.guard.isPure = true := fun s hs => hp s (by simp [hs])
    simp only [runGuards, firstFail, exec_pure node emptyHash h1]
    cases hh : holds node emptyHash s.guard e st
    · simp [Verdict.ofBool]
    · simp [Verdict.ofBool, ih h2]

theorem runGuards_append (a b : List Step) (e : Env) (st : OState) :
    runGuards node emptyHash (a ++ b) e st =
      match runGuards node emptyHash a e st with
      | (st', none) => runGuards node emptyHash b e st'
      | r => r := by
  induction a generalizing st with
  | nil => rfl
  | cons s rest ih =>
    simp only [List.cons_append, runGuards]
    cases hx : exec node emptyHash s.guard e st with
    | mk st' v =>
      cases v
      · simp only []; exact ih st'
      · rfl
      · rfl

theorem firstFail_none {l : List Step} {e : Env} {st : OState}
    (h : firstFail node emptyHash l e st = none) : ∀ s ∈ l, holds node emptyHash s.guard e st = true := by
  induction l with
  | nil => intro s hs; cases hs
  | cons s rest ih =>
    intro s' hs'
    simp only [firstFail] at h
    split at h
    · rename_i hh
      rcases List.mem_cons.1 hs' with rfl | hr
      · exact hh
      · exact ih h s' hr
    · cases h

/-! ### the normal form of one request -/

/-- the tests before the recorded checkpoint is fetched -/
def pre : List Step := programP ++ programU.take 4
/-- the tests between the fetch and the compare-and-swap -/
def mid : List Step := (programU.drop 5).take 5

theorem program_split :
    program = pre ++ (⟨.fetchRecorded, .internal⟩ :: (mid ++ [⟨.lockReplace, .internal⟩, ⟨.upload, .internal⟩])) := by
  decide

theorem pre_pure : ∀ s ∈ pre, s.guard.isPure = true := by decide
theorem mid_pure : ∀ s ∈ mid, s.guard.isPure = true := by decide

def afterUpload (e : Env) (st2 : OState) : OState × Resp :=
  match execUpload e st2 with
  | (st3, .dead) => (st3, .dead)
  | (st3, .fail) => (st3, .err .internal 0)
  | (st3, .pass) => finish e st3

def afterMid (e : Env) (st1 : OState) : OState × Resp :=
  match execReplace e st1 with
  | (st2, .dead) => (st2, .dead)
  | (st2, .fail) => (st2, .err .internal 0)
  | (st2, .pass) => afterUpload e st2

def afterFetch (e : Env) (st1 : OState) : OState × Resp :=
  match firstFail node emptyHash mid e st1 with
  | some r => (st1, r)
  | none => afterMid e st1

theorem addCheckpoint_nf (e : Env) (st : OState) :
    addCheckpoint node emptyHash e st =
      match firstFail node emptyHash pre e st with
      | some r => (st, r)
      | none =>
        match execFetch emptyHash e st with
        | (st1, .dead) => (st1, .dead)
        | (st1, .fail) => (st1, .err .internal 0)
        | (st1, .pass) => afterFetch node emptyHash e st1 := by
  unfold addCheckpoint run
  rw [program_split, runGuards_append, runGuards_pure node emptyHash pre pre_pure]
  cases h1 : firstFail node emptyHash pre e st with
  | some r => rfl
  | none =>
    simp only [runGuards, exec]
    cases h2 : execFetch emptyHash e st with
    | mk st1 v =>
      cases v
      · simp only []
        rw [runGuards_append, runGuards_pure node emptyHash mid mid_pure]
        unfold afterFetch
        cases h3 : firstFail node emptyHash mid e st1 with
        | some r => rfl
        | none =>
          simp only [runGuards, exec]
          unfold afterMid
          cases h4 : execReplace e st1 with
          | mk st2 v2 =>
            cases v2
            · simp only []
              unfold afterUpload
              cases h5 : execUpload e st2 with
              | mk st3 v3 =>
                cases v3 <;> simp [failResp]
            · simp [failResp]
            · rfl
      · simp [failResp]
      · rfl

/-! ### what the tests establish -/

structure PreFacts (e : Env) : Prop where
  body : e.req.body = .ok
  lc : ∃ lc, e.logCfg = some lc
  opened : ∃ sigs, e.opened = .ok sigs
  ck : ∃ c, e.ckpt = some c ∧ c.origin = e.origin ∧ c.ext = []
  le : e.req.old ≤ e.newSize
  zero : e.newSize = 0 → e.newHash = emptyHash

theorem pre_facts {e : Env} {st : OState} (h : firstFail node emptyHash pre e st = none) :
    PreFacts emptyHash e := by
  have hh := firstFail_none node emptyHash h
  have g : ∀ g c, (⟨g, c⟩ : Step) ∈ pre → holds node emptyHash g e st = true := fun g c hm => hh _ hm
  have h1 := g .bodyCut .badRequest (by decide)
  have h3 := g .oldPrefix .badRequest (by decide)
  have h4 := g .oldNumber .badRequest (by decide)
  have h5 := g .proofHashes .badRequest (by decide)
  have h6 := g .knownOrigin .unknownLog (by decide)
  have h8 := g .noteOther .badRequest (by decide)
  have h9 := g .parseCkpt .badCheckpoint (by decide)
  have h10 := g .originCoherent .internal (by decide)
  have h11 := g .noExtension .extensions (by decide)
  have h12 := g .oldLeNew .badRequest (by decide)
  have h13 := g .zeroRoot .proof (by decide)
  simp only [holds] at h1 h3 h4 h5 h6 h8 h9 h10 h11 h12 h13
  refine ⟨?_, ?_, ?_, ?_, ?_, ?_⟩
  · cases hb : e.req.body <;> simp_all
  · exact Option.isSome_iff_exists.1 h6
  · cases ho : e.opened with
    | ok sigs => exact ⟨sigs, rfl⟩
    | error x => rw [ho] at h8; cases h8
  · cases hc : e.ckpt with
    | none => rw [hc] at h9; cases h9
    | some c =>
      rw [hc] at h10 h11
      exact ⟨c, rfl, by simpa using h10, by simpa using h11⟩
  · simpa using h12
  · intro hz
    simp only [hz, BEq.rfl, Bool.true_and, Bool.not_eq_eq_eq_not, Bool.not_true, bne_eq_false_iff_eq] at h13
    exact h13

structure MidFacts (e : Env) (st : OState) : Prop where
  known : ∃ k, known emptyHash e st = some k ∧ k.1 = e.req.old ∧
    (e.req.old ≠ 0 → Merkle.checkTree node e.req.proof.reverse e.newSize e.newHash k.1 k.2 = true) ∧
    (e.req.old = 0 → e.req.proof = [])
  signed : ∃ s, e.signed = some s

theorem mid_facts {e : Env} {st : OState} (h : firstFail node emptyHash mid e st = none) :
    MidFacts node emptyHash e st := by
  have hh := firstFail_none node emptyHash h
  have g : ∀ g c, (⟨g, c⟩ : Step) ∈ mid → holds node emptyHash g e st = true := fun g c hm => hh _ hm
  have h1 := g .sizeMatches .conflict (by decide)
  have h2 := g .consistency .proof (by decide)
  have h3 := g .sign .internal (by decide)
  simp only [holds] at h1 h2 h3
  refine ⟨?_, Option.isSome_iff_exists.1 h3⟩
  cases hk : known emptyHash e st with
  | none => rw [hk] at h1; cases h1
  | some k =>
    rw [hk] at h1 h2
    simp only [beq_iff_eq] at h1
    refine ⟨k, rfl, h1, ?_, ?_⟩
    · intro hne; simpa [hne] using h2
    · intro he; simpa [he] using h2

/-! ### the three effectful steps -/

/-- the part of the state the safety theorems talk about (everything but the caches and the operation log) -/
def SameCore (a b : OState) : Prop :=
  a.lock = b.lock ∧ a.hist = b.hist ∧ a.released = b.released ∧ a.pub = b.pub ∧ a.signedMsgs = b.signedMsgs

theorem SameCore.rfl' (a : OState) : SameCore a a := ⟨rfl, rfl, rfl, rfl, rfl⟩

theorem execFetch_core (e : Env) (st : OState) : SameCore (execFetch emptyHash e st).1 st := by
  unfold execFetch
  split
  · exact SameCore.rfl' _
  · split <;> exact ⟨rfl, rfl, rfl, rfl, rfl⟩

/-- after a fetch that passes, the cached copy is either the copy cached before or the stored value -/
theorem execFetch_pass {e : Env} {st st1 : OState} (h : execFetch emptyHash e st = (st1, .pass)) :
    ∃ v, st1.cache e.inst = some v ∧ (st.cache e.inst = some v ∨ (st.cache e.inst = none ∧ v = st.lock)) ∧
      st1.lock = st.lock := by
  unfold execFetch at h
  split at h
  · rename_i v hv
    simp only [Prod.mk.injEq] at h
    obtain ⟨rfl, _⟩ := h
    exact ⟨v, hv, Or.inl hv, rfl⟩
  · rename_i hv
    split at h
    · cases h
    · cases h
    · simp only [Prod.mk.injEq] at h
      obtain ⟨rfl, _⟩ := h
      exact ⟨st.lock, by simp [OState.setCache], Or.inr ⟨hv, rfl⟩, rfl⟩

/-- the compare-and-swap: either nothing the safety theorems look at changes (except that two
messages were signed), or the cached copy WAS the stored value and the signed note replaces it -/
theorem execReplace_cases (e : Env) (st : OState) :
    ((execReplace e st).1.lock = st.lock ∧ (execReplace e st).1.hist = st.hist ∧ (execReplace e st).2 ≠ .pass) ∨
    (∃ s, e.signed = some s ∧ st.cache e.inst = some st.lock ∧ e.replaceOut.applied = true ∧
      (execReplace e st).1.lock = some (s, st.signedMsgs.length) ∧ (execReplace e st).1.hist = st.hist ++ [(e.newSize, e.newHash)] ∧
      ((execReplace e st).2 = .pass → e.replaceOut = .ok)) := by
  unfold execReplace
  cases hc : st.cache e.inst with
  | none => left; exact ⟨rfl, rfl, by simp⟩
  | some v =>
    cases hs : e.signed with
    | none => left; exact ⟨rfl, rfl, by simp⟩
    | some s =>
      by_cases hv : v = st.lock
      · cases ha : e.replaceOut.applied
        · left
          cases ho : e.replaceOut <;> simp_all [Out.applied, Out.seen, OState.setCache]
        · right
          refine ⟨s, rfl, by rw [hv], rfl, ?_⟩
          cases ho : e.replaceOut <;> simp_all [Out.applied, Out.seen, OState.setCache]
      · left
        cases ho : e.replaceOut <;> simp_all [Out.applied, Out.seen, OState.setCache]

theorem execReplace_rest (e : Env) (st : OState) :
    (execReplace e st).1.released = st.released ∧ (execReplace e st).1.pub = st.pub := by
  unfold execReplace
  cases hc : st.cache e.inst with
  | none => exact ⟨rfl, rfl⟩
  | some v =>
    cases hs : e.signed with
    | none => exact ⟨rfl, rfl⟩
    | some s =>
      by_cases hv : v = st.lock <;>
        cases ho : e.replaceOut <;> simp_all [Out.applied, Out.seen, OState.setCache]

theorem execUpload_cases (e : Env) (st : OState) :
    (execUpload e st).1.lock = st.lock ∧ (execUpload e st).1.hist = st.hist ∧
    (execUpload e st).1.released = st.released ∧ (execUpload e st).1.signedMsgs = st.signedMsgs ∧
    ((execUpload e st).1.pub = st.pub ∨ ∃ s, e.signed = some s ∧ (execUpload e st).1.pub = some s) ∧
    ((execUpload e st).2 = .pass → e.uploadOut = .ok ∧ ∃ s, e.signed = some s ∧ (execUpload e st).1.pub = some s) := by
  unfold execUpload
  cases hs : e.signed with
  | none => exact ⟨rfl, rfl, rfl, rfl, Or.inl rfl, by simp⟩
  | some s =>
    cases ho : e.uploadOut <;> simp [Out.applied, Out.seen]

/-! ### one request, summarised -/

theorem firstFail_err {l : List Step} {e : Env} {st : OState} {r : Resp}
    (h : firstFail node emptyHash l e st = some r) : ∃ c k, r = .err c k := by
  induction l with
  | nil => cases h
  | cons s rest ih =>
    simp only [firstFail] at h
    split at h
    · exact ih h
    · simp only [Option.some.injEq] at h
      exact ⟨_, _, h.symm⟩

/-- what is known whenever a request makes the witness write the lock store: it is well formed, for a
configured log, carries a verified signature of that log, has no extension lines, its old size is
the size of the value *in the lock store*, and the proof (or the empty-proof rule) links the two -/
structure Accepted (e : Env) (st : OState) (s : Note) : Prop where
  pre : PreFacts emptyHash e
  signed : e.signed = some s
  known : ∃ k, openStored emptyHash e.cfg e.origin st.lock = some k ∧ k.1 = e.req.old ∧
    (e.req.old ≠ 0 → Merkle.checkTree node e.req.proof.reverse e.newSize e.newHash k.1 k.2 = true) ∧
    (e.req.old = 0 → e.req.proof = [])

theorem addCheckpoint_summary (e : Env) (st : OState) :
    ∀ r, r = addCheckpoint node emptyHash e st →
    (r.1.lock = st.lock ∧ r.1.hist = st.hist ∧ r.1.released = st.released ∧ r.1.pub = st.pub ∧
        ∀ sigs, r.2 ≠ .ok sigs) ∨
    (∃ s, Accepted node emptyHash e st s ∧ r.1.lock = some (s, st.signedMsgs.length) ∧
        r.1.hist = st.hist ++ [(e.newSize, e.newHash)] ∧ (r.1.pub = st.pub ∨ r.1.pub = some s) ∧
        ((r.1.released = st.released ∧ ∀ sigs, r.2 ≠ .ok sigs) ∨
         (r.1.released = st.released ++ [(e.newSize, e.newHash)] ∧ r.2 = .ok (ownLines e.cfg s) ∧
            e.replaceOut = .ok ∧ e.uploadOut = .ok ∧ r.1.pub = some s))) := by
  intro r hr
  rw [addCheckpoint_nf] at hr
  cases h1 : firstFail node emptyHash pre e st with
  | some x =>
    obtain ⟨c, k, rfl⟩ := firstFail_err node emptyHash h1
    rw [h1] at hr
    left; subst hr; exact ⟨rfl, rfl, rfl, rfl, by simp⟩
  | none =>
    have hpre := pre_facts node emptyHash h1
    rw [h1] at hr
    simp only [] at hr
    have hcore := execFetch_core emptyHash e st
    cases h2 : execFetch emptyHash e st with
    | mk st1 v =>
      rw [h2] at hr hcore
      obtain ⟨c1, c2, c3, c4, c5⟩ := hcore
      simp only [] at c1 c2 c3 c4 c5
      cases v with
      | dead => left; subst hr; exact ⟨c1, c2, c3, c4, by simp⟩
      | fail => left; subst hr; exact ⟨c1, c2, c3, c4, by simp⟩
      | pass =>
        simp only [afterFetch] at hr
        cases h3 : firstFail node emptyHash mid e st1 with
        | some x =>
          obtain ⟨c, k, rfl⟩ := firstFail_err node emptyHash h3
          rw [h3] at hr
          left; subst hr; exact ⟨c1, c2, c3, c4, by simp⟩
        | none =>
          have hmid := mid_facts node emptyHash h3
          rw [h3] at hr
          simp only [afterMid] at hr
          have hrest := execReplace_rest e st1
          rcases execReplace_cases e st1 with ⟨l1, l2, l3⟩ | ⟨s, hs, hcache, happ, l1, l2, l3⟩
          · left
            cases h4 : execReplace e st1 with
            | mk st2 v2 =>
              rw [h4] at hr l1 l2 l3 hrest
              simp only [] at l1 l2 l3 hrest
              cases v2 with
              | pass => exact absurd rfl l3
              | fail => subst hr; exact ⟨l1.trans c1, l2.trans c2, hrest.1.trans c3, hrest.2.trans c4, by simp⟩
              | dead => subst hr; exact ⟨l1.trans c1, l2.trans c2, hrest.1.trans c3, hrest.2.trans c4, by simp⟩
          · right
            rw [c5] at l1
            refine ⟨s, ⟨hpre, hs, ?_⟩, ?_⟩
            · obtain ⟨k, hk, r1, r2, r3⟩ := hmid.known
              refine ⟨k, ?_, r1, r2, r3⟩
              simp only [known, hcache] at hk
              rw [← c1]; exact hk
            · cases h4 : execReplace e st1 with
              | mk st2 v2 =>
                rw [h4] at hr l1 l2 l3 hrest
                simp only [] at l1 l2 l3 hrest
                cases v2 with
                | fail => subst hr; exact ⟨l1, by rw [l2, c2], Or.inl (hrest.2.trans c4), Or.inl ⟨hrest.1.trans c3, by simp⟩⟩
                | dead => subst hr; exact ⟨l1, by rw [l2, c2], Or.inl (hrest.2.trans c4), Or.inl ⟨hrest.1.trans c3, by simp⟩⟩
                | pass =>
                  have hok := l3 rfl
                  simp only [afterUpload] at hr
                  obtain ⟨u1, u2, u3, _, u5, u6⟩ := execUpload_cases e st2
                  cases h5 : execUpload e st2 with
                  | mk st3 v3 =>
                    rw [h5] at hr u1 u2 u3 u5 u6
                    simp only [] at u1 u2 u3 u5 u6
                    have hpub : st3.pub = st.pub ∨ st3.pub = some s := by
                      rcases u5 with h | ⟨s', hs', h⟩
                      · left; rw [h, hrest.2, c4]
                      · right; rw [hs] at hs'; cases hs'; exact h
                    cases v3 with
                    | fail => subst hr; exact ⟨u1.trans l1, by rw [u2, l2, c2], hpub, Or.inl ⟨by rw [u3, hrest.1, c3], by simp⟩⟩
                    | dead => subst hr; exact ⟨u1.trans l1, by rw [u2, l2, c2], hpub, Or.inl ⟨by rw [u3, hrest.1, c3], by simp⟩⟩
                    | pass =>
                      obtain ⟨hu, s', hs', hp⟩ := u6 rfl
                      rw [hs] at hs'; cases hs'
                      simp only [finish, hs] at hr
                      subst hr
                      refine ⟨u1.trans l1, by simp only []; rw [u2, l2, c2], Or.inr hp, Or.inr ⟨?_, rfl, hok, hu, hp⟩⟩
                      simp only []; rw [u3, hrest.1, c3]

/-! ### the stored note parses back to what was signed -/

theorem cutLine_no_nl : ∀ {t l r : Bytes}, cutLine t = some (l, r) → (10 : UInt8) ∉ l := by
  intro t
  induction t with
  | nil => intro l r h; cases h
  | cons b bs ih =>
    intro l r h
    simp only [cutLine] at h
    split at h
    · simp only [Option.some.injEq, Prod.mk.injEq] at h
      obtain ⟨rfl, _⟩ := h
      simp
    · rename_i hb
      cases hc : cutLine bs with
      | none => rw [hc] at h; cases h
      | some pr =>
        obtain ⟨l', r'⟩ := pr
        rw [hc] at h
        simp only [Option.map_some, Option.some.injEq, Prod.mk.injEq] at h
        obtain ⟨rfl, _⟩ := h
        intro hm
        rcases List.mem_cons.1 hm with h10 | h10
        · exact hb h10.symm
        · exact ih hc h10

theorem parseCheckpoint_origin {t : Bytes} {c : Checkpoint} (h : parseCheckpoint t = some c) :
    (10 : UInt8) ∉ c.origin := by
  unfold parseCheckpoint at h
  repeat' split at h
  all_goals first
    | (cases h; done)
    | skip
  rename_i hc0 _ _ _ _ _ _ _ _ _ _ _ _ _ _ _ _ _
  simp only [Option.some.injEq] at h
  subst h
  exact cutLine_no_nl hc0

/-- the note the witness stores parses back to the origin, size and root it checked -/
theorem signed_parse {e : Env} {s : Note} {c : Checkpoint} (hs : e.signed = some s) (hc : e.ckpt = some c) :
    parseCheckpoint s.text = some { origin := c.origin, n := c.n, hash := c.hash, ext := [] } := by
  unfold Env.signed at hs
  cases ho : e.opened with
  | error x => rw [ho] at hs; cases hs
  | ok sigs =>
    rw [ho] at hs
    simp only [Env.reCkpt, hc, Option.map_some] at hs
    split at hs
    · rename_i hsig
      simp only [Option.some.injEq] at hs
      subst hs
      simp only [signable, Bool.and_eq_true, decide_eq_true_eq] at hsig
      have hb := parseCheckpoint_bounds hc
      exact parse_format c.origin c.hash c.n (parseCheckpoint_origin hc) (by omega) hb.1 hb.2.1 hb.2.2
    · cases hs

/-! ### the chain invariant -/

theorem openStored_ckOf {cfg : Cfg} {o : Bytes} {v : LockVal} {k : Nat × Hash}
    (h : openStored emptyHash cfg o v = some k) : ckOf emptyHash o v = some k := by
  cases v with
  | none => exact h
  | some nt =>
    obtain ⟨note, stamp⟩ := nt
    simp only [openStored] at h
    split at h
    · cases h
    · exact h

theorem Consistent.refl (a : Nat × Hash) : Consistent node emptyHash a a :=
  ⟨Nat.le_refl _, fun B hB => by
    obtain ⟨h1, h2⟩ := hB
    rw [List.take_of_length_le (by omega)]; exact ⟨h1, h2⟩⟩

theorem Consistent.trans {a b c : Nat × Hash} (h1 : Consistent node emptyHash a b)
    (h2 : Consistent node emptyHash b c) : Consistent node emptyHash a c :=
  ⟨Nat.le_trans h1.1 h2.1, fun B hB => by
    have := h1.2 _ (h2.2 B hB)
    rwa [List.take_take, Nat.min_eq_left h1.1] at this⟩

/-- an accepted request extends the recorded tree head -/
theorem accepted_consistent (inj : Merkle.NodeInj node) {e : Env} {st : OState} {s : Note}
    (ha : Accepted node emptyHash e st s) {k : Nat × Hash}
    (hk : openStored emptyHash e.cfg e.origin st.lock = some k) (hz : k.1 = 0 → k.2 = emptyHash) :
    Consistent node emptyHash k (e.newSize, e.newHash) := by
  obtain ⟨k', hk', r1, r2, r3⟩ := ha.known
  rw [hk] at hk'; cases hk'
  refine ⟨by rw [r1]; exact ha.pre.le, ?_⟩
  intro B hB
  obtain ⟨hl, hm⟩ := hB
  simp only [] at hl hm
  by_cases h0 : e.req.old = 0
  · have hk0 : k.1 = 0 := by rw [r1, h0]
    refine ⟨by simp [hk0], ?_⟩
    rw [hk0, List.take_zero, hz hk0]; exact Merkle.mth_nil node emptyHash
  · have := Merkle.checkTree_sound node emptyHash inj _ _ _ _ _ (r2 h0) B hl hm
    refine ⟨?_, this⟩
    rw [List.length_take, hl, r1]; exact Nat.min_eq_left ha.pre.le

structure Inv (o : Bytes) (st : OState) : Prop where
  chain : st.hist.Pairwise (Consistent node emptyHash)
  last : ∀ k, ckOf emptyHash o st.lock = some k → st.hist.getLast? = some k
  zero : ∀ c ∈ st.hist, c.1 = 0 → c.2 = emptyHash
  rel : ∀ c ∈ st.released, c ∈ st.hist
  pub : ∀ s, st.pub = some s → ∀ k, ckOfNote o s = some k → k ∈ st.hist

theorem inv_init (o : Bytes) : Inv node emptyHash o (OState.init emptyHash) where
  chain := by simp [OState.init]
  last := by intro k hk; simp only [OState.init, ckOf] at hk ⊢; cases hk; rfl
  zero := by intro c hc h0; simp [OState.init] at hc; subst hc; rfl
  rel := by intro c hc; simp [OState.init] at hc
  pub := by intro s hs; simp [OState.init] at hs

theorem inv_restart {o : Bytes} {st : OState} (h : Inv node emptyHash o st) (i : Nat) :
    Inv node emptyHash o (st.restart i) := ⟨h.chain, h.last, h.zero, h.rel, h.pub⟩

/-- the tree head of the note an accepted request stores is the one it checked -/
theorem accepted_ckOf {e : Env} {st : OState} {s : Note} (ha : Accepted node emptyHash e st s)
    {k : Nat × Hash} (hk : ckOfNote e.origin s = some k) : k = (e.newSize, e.newHash) := by
  obtain ⟨c, hc, ho, _⟩ := ha.pre.ck
  have hp := signed_parse ha.signed hc
  simp only [ckOfNote, hp] at hk
  split at hk
  · cases hk
  · simp only [Option.some.injEq] at hk
    simp only [Env.newSize, Env.newHash, hc]; exact hk.symm

theorem inv_add (inj : Merkle.NodeInj node) {st : OState} (e : Env) (h : Inv node emptyHash e.origin st) :
    Inv node emptyHash e.origin (addCheckpoint node emptyHash e st).1 := by
  rcases addCheckpoint_summary node emptyHash e st _ rfl with ⟨h1, h2, h3, h4, _⟩ | ⟨s, ha, h1, h2, h4, h3⟩
  · exact ⟨by rw [h2]; exact h.chain, by rw [h1, h2]; exact h.last, by rw [h2]; exact h.zero,
      by rw [h2, h3]; exact h.rel, by rw [h2, h4]; exact h.pub⟩
  · obtain ⟨k, hk, _⟩ := ha.known
    have hlast := h.last k (openStored_ckOf emptyHash hk)
    obtain ⟨ys, hys⟩ := List.getLast?_eq_some_iff.1 hlast
    have hkc : Consistent node emptyHash k (e.newSize, e.newHash) :=
      accepted_consistent node emptyHash inj ha hk (h.zero k (by rw [hys]; simp))
    refine ⟨?_, ?_, ?_, ?_, ?_⟩
    · rw [h2, List.pairwise_append]
      refine ⟨h.chain, by simp, ?_⟩
      intro a ha' b hb
      simp only [List.mem_singleton] at hb
      subst hb
      have hch := h.chain
      rw [hys, List.pairwise_append] at hch
      rw [hys] at ha'
      rcases List.mem_append.1 ha' with hin | hin
      · exact Consistent.trans node emptyHash (hch.2.2 a hin k (by simp)) hkc
      · simp only [List.mem_singleton] at hin; subst hin; exact hkc
    · intro k' hk'
      rw [h1] at hk'
      have hk'' : ckOfNote e.origin s = some k' := by simpa [ckOf] using hk'
      rw [h2, accepted_ckOf node emptyHash ha hk'']; simp
    · intro c hc h0
      rw [h2] at hc
      rcases List.mem_append.1 hc with hin | hin
      · exact h.zero c hin h0
      · simp only [List.mem_singleton] at hin; subst hin; exact ha.pre.zero h0
    · intro c hc
      rw [h2]
      rcases h3 with ⟨h3, _⟩ | ⟨h3, _⟩
      · rw [h3] at hc; exact List.mem_append_left _ (h.rel c hc)
      · rw [h3] at hc
        rcases List.mem_append.1 hc with hin | hin
        · exact List.mem_append_left _ (h.rel c hin)
        · exact List.mem_append_right _ hin
    · intro s' hs' k' hk'
      rw [h2]
      rcases h4 with h4 | h4
      · rw [h4] at hs'; exact List.mem_append_left _ (h.pub s' hs' k' hk')
      · rw [h4] at hs'; cases hs'
        rw [accepted_ckOf node emptyHash ha hk']; simp

theorem reachable_inv (inj : Merkle.NodeInj node) {cfg : Cfg} {o : Bytes} {st : OState}
    (hr : Reachable node emptyHash cfg o st) : Inv node emptyHash o st := by
  induction hr with
  | init => exact inv_init node emptyHash o
  | add e st _ _ ho ih => subst ho; exact inv_add node emptyHash inj e ih
  | restart i st _ ih => exact inv_restart node emptyHash ih i

/-! ### what was signed, and the operation log of a successful request -/

theorem execFetch_signedMsgs (e : Env) (st : OState) : (execFetch emptyHash e st).1.signedMsgs = st.signedMsgs :=
  (execFetch_core emptyHash e st).2.2.2.2

theorem execReplace_signedMsgs (e : Env) (st : OState) :
    (execReplace e st).1.signedMsgs = st.signedMsgs ∨
    ∃ s, e.signed = some s ∧
      (execReplace e st).1.signedMsgs = st.signedMsgs ++ [(e.cfg.k1.key, s.text), (e.cfg.k2.key, s.text)] := by
  unfold execReplace
  cases hc : st.cache e.inst with
  | none => left; rfl
  | some v =>
    cases hs : e.signed with
    | none => left; rfl
    | some s =>
      right
      refine ⟨s, rfl, ?_⟩
      by_cases hv : v = st.lock <;>
        cases ho : e.replaceOut <;> simp_all [Out.applied, Out.seen, OState.setCache]

theorem finish_signedMsgs (e : Env) (st : OState) : (finish e st).1.signedMsgs = st.signedMsgs := by
  unfold finish; split <;> rfl

/-- one request signs nothing, or (after every test before the fetch has passed) the re-encoded
checkpoint with both witness keys -/
theorem addCheckpoint_signedMsgs (e : Env) (st : OState) :
    (addCheckpoint node emptyHash e st).1.signedMsgs = st.signedMsgs ∨
    ∃ s, e.signed = some s ∧ PreFacts emptyHash e ∧ (addCheckpoint node emptyHash e st).1.signedMsgs =
      st.signedMsgs ++ [(e.cfg.k1.key, s.text), (e.cfg.k2.key, s.text)] := by
  rw [addCheckpoint_nf]
  cases h1 : firstFail node emptyHash pre e st with
  | some x => left; rfl
  | none =>
    have hpre := pre_facts node emptyHash h1
    simp only []
    have hf := execFetch_signedMsgs emptyHash e st
    cases h2 : execFetch emptyHash e st with
    | mk st1 v =>
      rw [h2] at hf
      simp only [] at hf
      cases v with
      | dead => left; exact hf
      | fail => left; exact hf
      | pass =>
        simp only [afterFetch]
        cases h3 : firstFail node emptyHash mid e st1 with
        | some x => left; exact hf
        | none =>
          simp only [afterMid]
          have hrp := execReplace_signedMsgs e st1
          cases h4 : execReplace e st1 with
          | mk st2 v2 =>
            rw [h4] at hrp
            simp only [] at hrp
            have hfin : ∀ st3 : OState × Resp, st3.1.signedMsgs = st2.signedMsgs →
                st3.1.signedMsgs = st.signedMsgs ∨ ∃ s, e.signed = some s ∧ PreFacts emptyHash e ∧
                  st3.1.signedMsgs = st.signedMsgs ++ [(e.cfg.k1.key, s.text), (e.cfg.k2.key, s.text)] := by
              intro st3 h3'
              rcases hrp with h | ⟨s, hs, h⟩
              · left; rw [h3', h, hf]
              · right; exact ⟨s, hs, hpre, by rw [h3', h, hf]⟩
            cases v2 with
            | dead => exact hfin _ rfl
            | fail => exact hfin _ rfl
            | pass =>
              simp only [afterUpload]
              have hu := (execUpload_cases e st2).2.2.2.1
              cases h5 : execUpload e st2 with
              | mk st3 v3 =>
                rw [h5] at hu
                simp only [] at hu
                cases v3 with
                | dead => exact hfin _ hu
                | fail => exact hfin _ hu
                | pass => exact hfin _ (by rw [finish_signedMsgs]; exact hu)

/-- the store operations of a request answered 200, in order: at most one fetch, then the
compare-and-swap taking effect and returning success, then the upload taking effect and returning
success; nothing after -/
theorem addCheckpoint_log_ok {e : Env} {st : OState} {sigs : List SigLine}
    (h : (addCheckpoint node emptyHash e st).2 = .ok sigs) :
    ∃ s pre', e.signed = some s ∧ (pre' = [] ∨ pre' = [Effect.lockFetch e.inst .ok]) ∧
      (addCheckpoint node emptyHash e st).1.log =
        st.log ++ pre' ++ [.lockReplace e.inst s true .ok, .upload e.inst s true .ok] := by
  rw [addCheckpoint_nf] at h ⊢
  cases h1 : firstFail node emptyHash pre e st with
  | some x =>
    obtain ⟨c, k, rfl⟩ := firstFail_err node emptyHash h1
    rw [h1] at h; cases h
  | none =>
    rw [h1] at h
    simp only [] at h ⊢
    -- the fetch
    have hfetch : ∀ st1, execFetch emptyHash e st = (st1, .pass) →
        ∃ pre', (pre' = [] ∨ pre' = [Effect.lockFetch e.inst .ok]) ∧ st1.log = st.log ++ pre' := by
      intro st1 hf
      unfold execFetch at hf
      split at hf
      · simp only [Prod.mk.injEq] at hf; obtain ⟨rfl, _⟩ := hf; exact ⟨[], Or.inl rfl, by simp⟩
      · cases ho : e.fetchOut <;> simp_all [Out.seen, OState.setCache]
        all_goals (obtain ⟨rfl, _⟩ := hf; simp)
    cases h2 : execFetch emptyHash e st with
    | mk st1 v =>
      rw [h2] at h
      cases v with
      | dead => cases h
      | fail => cases h
      | pass =>
        obtain ⟨pre', hpre', hlog1⟩ := hfetch st1 h2
        simp only [afterFetch] at h ⊢
        cases h3 : firstFail node emptyHash mid e st1 with
        | some x =>
          obtain ⟨c, k, rfl⟩ := firstFail_err node emptyHash h3
          rw [h3] at h; cases h
        | none =>
          rw [h3] at h
          simp only [afterMid] at h ⊢
          have hmid := mid_facts node emptyHash h3
          obtain ⟨s, hs⟩ := hmid.signed
          cases h4 : execReplace e st1 with
          | mk st2 v2 =>
            rw [h4] at h
            cases v2 with
            | dead => cases h
            | fail => cases h
            | pass =>
              simp only [afterUpload] at h ⊢
              cases h5 : execUpload e st2 with
              | mk st3 v3 =>
                rw [h5] at h
                cases v3 with
                | dead => cases h
                | fail => cases h
                | pass =>
                  refine ⟨s, pre', hs, hpre', ?_⟩
                  -- the two operations
                  have hlog2 : st2.log = st1.log ++ [.lockReplace e.inst s true .ok] := by
                    unfold execReplace at h4
                    cases hc : st1.cache e.inst with
                    | none => simp [hc] at h4
                    | some v =>
                      simp only [hc, hs] at h4
                      by_cases hv : v = st1.lock <;>
                        cases ho : e.replaceOut <;> simp_all [Out.applied, Out.seen, OState.setCache]
                      all_goals (obtain ⟨rfl, _⟩ := h4; simp)
                  have hlog3 : st3.log = st2.log ++ [.upload e.inst s true .ok] := by
                    unfold execUpload at h5
                    simp only [hs] at h5
                    cases ho : e.uploadOut <;> simp_all [Out.applied, Out.seen]
                    obtain ⟨rfl, _⟩ := h5; simp
                  simp only [finish, hs]
                  rw [hlog3, hlog2, hlog1]; simp

/-! ### the tests, spelled out -/


/-- which test before the fetch fails first, spelled out -/
theorem pre_eval (e : Env) (st : OState) :
    firstFail node emptyHash pre e st =
      if e.req.body ≠ .ok then some (.err .badRequest 0)
      else if e.logCfg = none then some (.err .unknownLog 0)
      else match e.opened with
        | .error .unverified | .error .invalidSignature => some (.err .invalidSignature 0)
        | .error _ => some (.err .badRequest 0)
        | .ok _ =>
          match e.ckpt with
          | none => some (.err .badCheckpoint 0)
          | some c =>
            if c.origin ≠ e.origin then some (.err .internal 0)
            else if c.ext ≠ [] then some (.err .extensions 0)
            else if e.newSize < e.req.old then some (.err .badRequest 0)
            else if e.newSize = 0 ∧ e.newHash ≠ emptyHash then some (.err .proof 0)
            else none := by
  simp only [pre, programP, programU, List.take, List.cons_append, List.nil_append, firstFail, holds, failResp]
  cases hb : e.req.body <;> simp
  cases hl : e.logCfg <;> simp
  cases ho : e.opened with
  | error x => cases x <;> simp
  | ok sigs =>
    simp
    cases hc : e.ckpt with
    | none => simp
    | some c =>
      simp
      by_cases h1 : c.origin = e.origin <;> simp [h1]
      by_cases h2 : c.ext = [] <;> simp [h2]
      by_cases h3 : e.req.old ≤ e.newSize
      · have h3' : ¬ e.newSize < e.req.old := by omega
        simp only [h3, h3', decide_true, if_true, if_false]
        by_cases h4 : e.newSize = 0 <;> by_cases h5 : e.newHash = emptyHash <;> simp [h4, h5]
      · have h3' : e.newSize < e.req.old := by omega
        simp [h3, h3']


theorem mid_eval (e : Env) (st : OState) :
    firstFail node emptyHash mid e st =
      match known emptyHash e st with
      | none => some (.err .conflict 0)
      | some k =>
        if k.1 ≠ e.req.old then some (.err .conflict k.1)
        else if (if e.req.old ≠ 0 then Merkle.checkTree node e.req.proof.reverse e.newSize e.newHash k.1 k.2
                 else e.req.proof.isEmpty) = false then some (.err .proof 0)
        else if e.signed = none then some (.err .internal 0)
        else none := by
  simp only [mid, programU, List.drop, List.take, firstFail, holds, failResp]
  cases hk : known emptyHash e st with
  | none => simp
  | some k =>
    simp only []
    by_cases h1 : k.1 = e.req.old
    · simp only [h1, beq_self_eq_true, if_true, ne_eq, not_true_eq_false, if_false]
      split
      · cases hb : Merkle.checkTree node e.req.proof.reverse e.newSize e.newHash e.req.old k.2 <;>
          cases hs : e.signed <;> simp
      · cases hb : e.req.proof.isEmpty <;> cases hs : e.signed <;> simp
    · simp [h1]

/-- after a fetch that passes the cached copy opens -/
theorem execFetch_known {e : Env} {st st1 : OState} (h : execFetch emptyHash e st = (st1, .pass)) :
    ∃ k, known emptyHash e st1 = some k := by
  unfold execFetch at h
  split at h
  · simp only [Prod.mk.injEq, Verdict.ofBool] at h
    obtain ⟨rfl, hv⟩ := h
    split at hv
    · rename_i hh; exact Option.isSome_iff_exists.1 hh
    · cases hv
  · split at h
    · cases h
    · cases h
    · simp only [Prod.mk.injEq, Verdict.ofBool] at h
      obtain ⟨rfl, hv⟩ := h
      split at hv
      · rename_i hh; exact Option.isSome_iff_exists.1 hh
      · cases hv


/-- the response classes possible once every test before the fetch has passed -/
theorem tail_resp (e : Env) (st : OState) (h1 : firstFail node emptyHash pre e st = none) :
    let r := (addCheckpoint node emptyHash e st).2
    r = .dead ∨ r = .err .internal 0 ∨ (∃ n, r = .err .conflict n) ∨ r = .err .proof 0 ∨ ∃ sigs, r = .ok sigs := by
  intro r
  have hr : r = (addCheckpoint node emptyHash e st).2 := rfl
  clear_value r
  rw [addCheckpoint_nf, h1] at hr
  simp only [] at hr
  cases h2 : execFetch emptyHash e st with
  | mk st1 v =>
    rw [h2] at hr
    cases v with
    | dead => left; exact hr
    | fail => right; left; exact hr
    | pass =>
      simp only [afterFetch] at hr
      cases h3 : firstFail node emptyHash mid e st1 with
      | some x =>
        rw [h3] at hr
        simp only [] at hr
        subst hr
        simp only [mid, programU, List.drop, List.take, firstFail, holds] at h3
        repeat' split at h3
        all_goals first
          | (cases h3; done)
          | (simp only [Option.some.injEq] at h3; subst h3; simp [failResp])
      | none =>
        rw [h3] at hr
        simp only [afterMid] at hr
        cases h4 : execReplace e st1 with
        | mk st2 v2 =>
          rw [h4] at hr
          cases v2 with
          | dead => left; exact hr
          | fail => right; left; exact hr
          | pass =>
            simp only [afterUpload] at hr
            cases h5 : execUpload e st2 with
            | mk st3 v3 =>
              rw [h5] at hr
              cases v3 with
              | dead => left; exact hr
              | fail => right; left; exact hr
              | pass =>
                simp only [finish] at hr
                split at hr
                · right; right; right; right; exact ⟨_, hr⟩
                · right; left; exact hr

/-! ### views -/


/-- the view an instance has of the recorded tree head once `checkpointLocked` has run: its cached
copy, or (nothing cached, fetch succeeded) the stored value -/
def View (e : Env) (st : OState) (v : LockVal) : Prop :=
  st.cache e.inst = some v ∨ (st.cache e.inst = none ∧ e.fetchOut = .ok ∧ v = st.lock)

theorem execFetch_view {e : Env} {st : OState} {v : LockVal} {k : Nat × Hash} (hv : View e st v)
    (hk : openStored emptyHash e.cfg e.origin v = some k) :
    ∃ st1, execFetch emptyHash e st = (st1, .pass) ∧ known emptyHash e st1 = some k ∧
      st1.cache e.inst = some v ∧ st1.lock = st.lock := by
  unfold execFetch
  rcases hv with hc | ⟨hc, hf, rfl⟩
  · refine ⟨st, ?_, by simp [known, hc, hk], hc, rfl⟩
    simp [hc, known, hk, Verdict.ofBool]
  · let st2 : OState := ({ st with log := st.log ++ [Effect.lockFetch e.inst .ok] } : OState).setCache e.inst (some st.lock)
    have hkn : known emptyHash e st2 = some k := by simp [st2, known, OState.setCache, hk]
    refine ⟨st2, ?_, hkn, by simp [st2, OState.setCache], rfl⟩
    simp only [hc, hf, Out.seen]
    show (st2, Verdict.ofBool (known emptyHash e st2).isSome) = _
    rw [hkn]; rfl

theorem resp_of_pre {e : Env} {st : OState} {r : Resp} (h : firstFail node emptyHash pre e st = some r) :
    addCheckpoint node emptyHash e st = (st, r) := by
  rw [addCheckpoint_nf, h]

theorem resp_of_mid {e : Env} {st st1 : OState} {r : Resp} (h1 : firstFail node emptyHash pre e st = none)
    (h2 : execFetch emptyHash e st = (st1, .pass)) (h3 : firstFail node emptyHash mid e st1 = some r) :
    addCheckpoint node emptyHash e st = (st1, r) := by
  rw [addCheckpoint_nf, h1]
  simp only [h2, afterFetch, h3]


theorem pre_none_of_facts {e : Env} (st : OState) (h : PreFacts emptyHash e) :
    firstFail node emptyHash pre e st = none := by
  rw [pre_eval]
  obtain ⟨lc, hlc⟩ := h.lc
  obtain ⟨vs, hvs⟩ := h.opened
  obtain ⟨c, hc, hco, hce⟩ := h.ck
  have hle := h.le
  have hz := h.zero
  simp only [h.body, hlc, hvs, hc, hco, hce, ne_eq, not_true_eq_false, if_false, reduceCtorEq]
  rw [if_neg (by omega), if_neg (by intro ⟨h0, hne⟩; exact hne (hz h0))]

/-! ### note.Open -/


/-- every signature `note.Open` reports as verified is a line of the note, carries the name and key
hash of one of the known verifiers, and that verifier accepts it over the note text -/
theorem openLoop_sound (known : List NoteVerifier) (text : Bytes) :
    ∀ (sigs : List SigLine) (cnt : Nat) (seen : List (Bytes × Nat)) (acc out : List SigLine),
      openLoop known text sigs cnt seen acc = .ok out →
      ∀ (P : SigLine → Prop), (∀ s ∈ acc, P s) →
        (∀ s ∈ sigs, ∀ v ∈ known, v.name = s.name → v.hash = s.hash → v.verify text s.sig = true → P s) →
        ∀ s ∈ out, P s := by
  intro sigs
  induction sigs with
  | nil =>
    intro cnt seen acc out h P hacc _ s hs
    simp only [openLoop, Except.ok.injEq] at h
    subst h
    exact hacc s (List.mem_reverse.1 hs)
  | cons x rest ih =>
    intro cnt seen acc out h P hacc hsig s hs
    simp only [openLoop] at h
    split at h
    · cases h
    · have hrest : ∀ s ∈ rest, ∀ v ∈ known, v.name = s.name → v.hash = s.hash → v.verify text s.sig = true → P s :=
        fun s hs' => hsig s (List.mem_cons_of_mem _ hs')
      split at h
      · exact ih _ _ _ _ h P hacc hrest s hs
      · rename_i v hf
        split at h
        · exact ih _ _ _ _ h P hacc hrest s hs
        · split at h
          · rename_i hv
            refine ih _ _ _ _ h P ?_ hrest s hs
            intro s' hs'
            rcases List.mem_cons.1 hs' with rfl | hin
            · have hvm : v ∈ known.filter (fun v => v.name = s'.name ∧ v.hash = s'.hash) := by rw [hf]; simp
              have hvk := List.mem_filter.1 hvm
              simp only [decide_eq_true_eq] at hvk
              exact hsig s' (by simp) v hvk.1 hvk.2.1 hvk.2.2 hv
            · exact hacc s' hin
          · cases h
      · cases h

theorem noteOpen_sound {known : List NoteVerifier} {note : Note} {out : List SigLine}
    (h : noteOpen known note = .ok out) :
    out ≠ [] ∧ ∀ s ∈ out, s ∈ note.sigs ∧
      ∃ v ∈ known, v.name = s.name ∧ v.hash = s.hash ∧ v.verify note.text s.sig = true := by
  unfold noteOpen at h
  split at h
  · cases h
  · cases h
  · rename_i l hne hl
    simp only [Except.ok.injEq] at h
    subst h
    refine ⟨hne, ?_⟩
    intro s hs
    exact openLoop_sound known note.text note.sigs 0 [] [] _ hl
      (fun s => s ∈ note.sigs ∧ ∃ v ∈ known, v.name = s.name ∧ v.hash = s.hash ∧ v.verify note.text s.sig = true)
      (by intro s hs; cases hs)
      (fun s hs v hv h1 h2 h3 => ⟨hs, v, hv, h1, h2, h3⟩) s hs

end Witness
