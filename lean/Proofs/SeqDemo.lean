import Proofs.SeqInv
/-! A concrete accepted run (create, load, one submission, a round with tiles, an empty round): the
non-vacuity witness for the sequencer theorems. -/
namespace Seq.Demo
open Seq
def c0 : Ck := ⟨[], 100⟩
def c1 : Ck := ⟨[⟨7, 7, 105⟩], 105⟩
def c2 : Ck := ⟨[⟨7, 7, 105⟩], 110⟩
def t1 : TileId := ⟨.data, 0, 1⟩
def demo : List Ev := [
  .launchCreate 0, .lockFetch 0 .nf, .fetch 0 .ckpt .nf, .clock 0 100, .lockCreate 0 c0 .ok,
  .upload 0 .ckpt false (.ck c0) .ok, .upload 0 .roots false (.blob 0) .ok, .created 0,
  .launchLoad 0, .lockFetch 0 (.ok c0), .clock 0 101, .fetch 0 .ckpt (.ok (.ck c0)), .clock 0 101,
  .fetch 0 .roots (.ok (.blob 0)), .loaded 0 c0,
  .launchSubmit 0, .submitted 0 7 7 false [] .sequencer,
  .launchRound 0, .clock 0 105,
  .upload 0 (.staging c1.leaves) true (.bundle [(⟨.data,0,1⟩, c1.leaves), (⟨.names,0,1⟩, c1.leaves), (⟨.hash 0,0,1⟩, c1.leaves)]) .ok,
  .lockReplace 0 c0 c1 .ok,
  .upload 0 (.tile ⟨.data,0,1⟩) true (.slice c1.leaves) .ok,
  .upload 0 (.tile ⟨.names,0,1⟩) true (.slice c1.leaves) .ok,
  .upload 0 (.tile ⟨.hash 0,0,1⟩) true (.slice c1.leaves) .ok,
  .upload 0 .ckpt false (.ck c1) .ok,
  .discard 0 (.staging c1.leaves) .ok,
  .ack 0 7 7 0 105,
  .roundEnd 0 .ok,
  .launchRound 0, .clock 0 110, .lockReplace 0 c1 c2 .ok, .upload 0 .ckpt false (.ck c2) .ok, .roundEnd 0 .ok]
theorem demo_runs : ∃ s, run (init 0) demo = some s ∧ s.lockHist = [c2, c1, c0] ∧ s.pubHist = [c2, c1, c0] ∧ s.acks.length = 1 := by
  refine ⟨_, rfl, rfl, rfl, rfl⟩

theorem demo_untampered : ∃ s, run (init 0) demo = some s ∧ s.tampered = false ∧
    s.store .ckpt = some (.ck c2, false) ∧ s.store (.tile ⟨.data, 0, 1⟩) = some (.slice c1.leaves, true) := by
  refine ⟨_, rfl, rfl, rfl, rfl⟩

theorem demo_reachable : ∃ s, Reachable s ∧ s.lockHist = [c2, c1, c0] :=
  let ⟨s, h, hl, _⟩ := demo_runs
  ⟨s, ⟨0, demo, h⟩, hl⟩

end Seq.Demo
