import Model.Skylight
/-! Lemmas for C20 (`Props/C20.lean`): `firstFail`, and which lines of `/health` are failures. -/
namespace Skylight.Health

theorem firstFail_none_iff {κ : Type} (holds : κ → Bool) (l : List κ) :
    firstFail holds l = none ↔ ∀ k ∈ l, holds k = true := by
  induction l with
  | nil => simp [firstFail]
  | cons a rest ih =>
    simp only [firstFail]
    by_cases h : holds a = true
    · simp [h, ih]
    · simp [h]

theorem firstFail_some_mem {κ : Type} (holds : κ → Bool) (l : List κ) (k : κ) (h : firstFail holds l = some k) :
    k ∈ l ∧ holds k = false := by
  induction l with
  | nil => simp [firstFail] at h
  | cons a rest ih =>
    simp only [firstFail] at h
    by_cases ha : holds a = true
    · simp only [ha, if_true] at h
      obtain ⟨h1, h2⟩ := ih h
      exact ⟨List.mem_cons_of_mem _ h1, h2⟩
    · simp only [ha] at h
      simp only [Bool.false_eq_true, if_false, Option.some.injEq] at h
      subst h
      exact ⟨by simp, by simpa using ha⟩

/-- if `k` is the only condition of the list that fails, it is the one reported -/
theorem firstFail_single {κ : Type} [DecidableEq κ] (holds : κ → Bool) (l : List κ) (k : κ) (hk : k ∈ l)
    (hf : holds k = false) (hothers : ∀ k' ∈ l, k' ≠ k → holds k' = true) : firstFail holds l = some k := by
  induction l with
  | nil => cases hk
  | cons a rest ih =>
    simp only [firstFail]
    by_cases hak : a = k
    · subst hak; simp [hf]
    · have ha : holds a = true := hothers a (by simp) hak
      simp only [ha, if_true]
      have hk' : k ∈ rest := by
        rcases List.mem_cons.mp hk with h | h
        · exact absurd h.symm hak
        · exact h
      exact ih hk' (fun k' hk'' => hothers k' (List.mem_cons_of_mem _ hk''))

theorem report_failed_iff (staging : Bool) (k : ErrKind) : (report staging k).isFailed = true ↔ staging = false := by
  cases staging <;> simp [report, Outcome.isFailed]

/-- a log line is a failure iff the entry is not staging and some applicable condition does not hold -/
theorem logLine_failed_iff (e : LogEntry) :
    (logLine e).2.isFailed = true ↔ e.staging = false ∧ ∃ k ∈ LogCond.applicable e.past, e.holds k = false := by
  unfold logLine checkLog
  cases hff : firstFail e.holds (LogCond.applicable e.past) with
  | none =>
    have hall := (firstFail_none_iff _ _).mp hff
    simp only
    constructor
    · intro h
      cases hp : e.past <;> simp [hp, Outcome.isFailed] at h
    · rintro ⟨_, k, hk, hf⟩
      rw [hall k hk] at hf; cases hf
  | some k =>
    obtain ⟨hk, hf⟩ := firstFail_some_mem _ _ _ hff
    simp only [report_failed_iff]
    exact ⟨fun h => ⟨h, k, hk, hf⟩, fun h => h.1⟩

theorem wlogLine_failed_iff (w : WitEntry) (l : WLog) :
    (wlogLine w l).2.isFailed = true ↔ w.staging = false ∧ ∃ k ∈ WLogCond.applicable w.mirror, l.holds k = false := by
  unfold wlogLine
  cases hff : firstFail l.holds (WLogCond.applicable w.mirror) with
  | none =>
    have hall := (firstFail_none_iff _ _).mp hff
    simp only [Outcome.isFailed]
    constructor
    · intro h; cases h
    · rintro ⟨_, k, hk, hf⟩
      rw [hall k hk] at hf; cases hf
  | some k =>
    obtain ⟨hk, hf⟩ := firstFail_some_mem _ _ _ hff
    simp only [report_failed_iff]
    exact ⟨fun h => ⟨h, k, hk, hf⟩, fun h => h.1⟩

/-- all conditions of a witness entry: the directory-level ones and those of every log directory -/
def WitEntry.allHold (w : WitEntry) : Prop :=
  (∀ k ∈ WitCond.applicable w.mirror, w.holds k = true) ∧
  ∀ l ∈ w.logs, ∀ k ∈ WLogCond.applicable w.mirror, l.holds k = true

theorem witLines_failed_iff (w : WitEntry) :
    (witLines w).any (·.2.isFailed) = true ↔ w.staging = false ∧ ¬ w.allHold := by
  unfold witLines WitEntry.allHold
  cases hff : firstFail w.holds (WitCond.applicable w.mirror) with
  | some k =>
    obtain ⟨hk, hf⟩ := firstFail_some_mem _ _ _ hff
    simp only [List.any_cons, List.any_nil, Bool.or_false, report_failed_iff]
    constructor
    · intro h
      refine ⟨h, fun hall => ?_⟩
      rw [hall.1 k hk] at hf; cases hf
    · intro h; exact h.1
  | none =>
    have hall := (firstFail_none_iff _ _).mp hff
    simp only [List.any_map, List.any_eq_true, Function.comp]
    constructor
    · rintro ⟨l, hl, hfail⟩
      obtain ⟨hs, k, hk, hf⟩ := (wlogLine_failed_iff w l).mp hfail
      refine ⟨hs, fun hh => ?_⟩
      rw [hh.2 l hl k hk] at hf; cases hf
    · rintro ⟨hs, hn⟩
      -- some log directory has a failing condition
      have : ∃ l ∈ w.logs, ∃ k ∈ WLogCond.applicable w.mirror, l.holds k = false := by
        apply Classical.byContradiction
        intro hc
        apply hn
        refine ⟨hall, fun l hl k hk => ?_⟩
        cases hv : l.holds k with
        | true => rfl
        | false => exact absurd ⟨l, hl, k, hk, hv⟩ hc
      obtain ⟨l, hl, k, hk, hf⟩ := this
      exact ⟨l, hl, (wlogLine_failed_iff w l).mpr ⟨hs, k, hk, hf⟩⟩

theorem status_eq (c : Config) : status c = 200 ∨ status c = 500 := by
  unfold status; split <;> simp

theorem status_200_iff (c : Config) : status c = 200 ↔ (lines c).any (·.2.isFailed) = false := by
  unfold status
  cases h : (lines c).any (·.2.isFailed) <;> simp

theorem lines_any_failed (c : Config) :
    (lines c).any (·.2.isFailed) = true ↔
      (∃ e ∈ c.logs, (logLine e).2.isFailed = true) ∨ (∃ w ∈ c.wits, (witLines w).any (·.2.isFailed) = true) := by
  unfold lines
  simp only [List.any_append, Bool.or_eq_true, List.any_map, List.any_eq_true, Function.comp, List.mem_flatMap]
  constructor
  · rintro (h | ⟨ln, ⟨w, hw, hln⟩, hf⟩)
    · exact Or.inl h
    · exact Or.inr ⟨w, hw, ln, hln, hf⟩
  · rintro (h | ⟨w, hw, ln, hln, hf⟩)
    · exact Or.inl h
    · exact Or.inr ⟨ln, ⟨w, hw, hln⟩, hf⟩

end Skylight.Health
