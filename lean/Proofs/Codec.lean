import Model.Codec
/-!
Helper lemmas for the codec models: big-endian arithmetic, generic round-trip (`dec_enc`) and
canonicity (`dec_canonical`) for every flat schema, and the small structural facts the property
theorems of `Props/C10.lean` / `Props/C11.lean` need. Core Lean only.
-/
namespace Codec

theorem toBE_length (k n : Nat) : (toBE k n).length = k := by
  induction k generalizing n with
  | zero => rfl
  | succ k ih => simp [toBE, ih]

theorem fromBE_lt (bs : Bytes) : fromBE bs < 256 ^ bs.length := by
  induction bs with
  | nil => simp [fromBE]
  | cons b bs ih =>
    simp only [fromBE, List.length_cons, Nat.pow_succ]
    have hb := b.toNat_lt
    have : b.toNat * 256 ^ bs.length ≤ 255 * 256 ^ bs.length := Nat.mul_le_mul_right _ (by omega)
    omega

theorem fromBE_toBE (k n : Nat) (h : n < 256 ^ k) : fromBE (toBE k n) = n := by
  induction k generalizing n with
  | zero => simp [toBE, fromBE] at *; omega
  | succ k ih =>
    simp only [toBE, fromBE, toBE_length]
    have hp : 0 < 256 ^ k := Nat.pow_pos (by decide)
    have h1 : n / 256 ^ k < 256 := by
      rw [Nat.pow_succ] at h
      exact Nat.div_lt_of_lt_mul h
    have h2 : n % 256 ^ k < 256 ^ k := Nat.mod_lt _ hp
    rw [ih _ h2]
    have : (UInt8.ofNat (n / 256 ^ k % 256)).toNat = n / 256 ^ k := by
      simp [UInt8.toNat_ofNat']; omega
    rw [this]
    have := Nat.div_add_mod n (256 ^ k)
    rw [Nat.mul_comm] at this
    exact this

theorem toBE_fromBE (bs : Bytes) : toBE bs.length (fromBE bs) = bs := by
  induction bs with
  | nil => rfl
  | cons b bs ih =>
    simp only [List.length_cons, toBE, fromBE]
    have hp : 0 < 256 ^ bs.length := Nat.pow_pos (by decide)
    have hlt := fromBE_lt bs
    have hb := b.toNat_lt
    have h1 : (b.toNat * 256 ^ bs.length + fromBE bs) / 256 ^ bs.length = b.toNat := by
      rw [Nat.mul_comm, Nat.mul_add_div hp, Nat.div_eq_of_lt hlt]; omega
    have h2 : (b.toNat * 256 ^ bs.length + fromBE bs) % 256 ^ bs.length = fromBE bs := by
      rw [Nat.mul_comm, Nat.mul_add_mod, Nat.mod_eq_of_lt hlt]
    rw [h1, h2, ih]
    congr 1
    have : b.toNat % 256 = b.toNat := Nat.mod_eq_of_lt hb
    rw [this]
    simp

theorem decField_encField (f : Field) (v rest : Bytes) (h : f.fits v) :
    decField f (encField f v ++ rest) = some (v, rest) := by
  cases f with
  | fixed n =>
    simp only [Field.fits] at h
    subst h
    simp [decField, encField]
  | lenp k =>
    simp only [Field.fits] at h
    have hl := toBE_length k v.length
    simp only [decField, encField, List.append_assoc]
    have h1 : k ≤ (toBE k v.length ++ (v ++ rest)).length := by simp [hl]
    rw [if_pos h1]
    have h2 : (toBE k v.length ++ (v ++ rest)).take k = toBE k v.length := by
      rw [List.take_append_of_le_length (by omega)]
      exact List.take_of_length_le (by omega)
    have h3 : (toBE k v.length ++ (v ++ rest)).drop k = v ++ rest := by
      rw [List.drop_append_of_le_length (by omega)]
      rw [List.drop_of_length_le (by omega)]; simp
    simp only [h2, h3, fromBE_toBE k _ h]
    rw [if_pos (by simp)]
    simp

theorem dec_enc (fs : List Field) (vs : List Bytes) (rest : Bytes) (h : Fits fs vs) :
    dec fs (enc fs vs ++ rest) = some (vs, rest) := by
  induction fs generalizing vs with
  | nil => cases vs with
    | nil => simp [dec, enc]
    | cons _ _ => simp [Fits] at h
  | cons f fs ih => cases vs with
    | nil => simp [Fits] at h
    | cons v vs =>
      obtain ⟨h1, h2⟩ := h
      simp only [enc, dec, List.append_assoc]
      rw [decField_encField f v _ h1]
      simp only
      rw [ih vs h2]

theorem decField_canonical (f : Field) (bs v r : Bytes) (h : decField f bs = some (v, r)) :
    encField f v ++ r = bs ∧ f.fits v := by
  cases f with
  | fixed n =>
    simp only [decField] at h
    split at h
    · rename_i hn
      simp only [Option.some.injEq, Prod.mk.injEq] at h
      obtain ⟨rfl, rfl⟩ := h
      simp [encField, Field.fits, List.length_take]; omega
    · cases h
  | lenp k =>
    simp only [decField] at h
    split at h
    · rename_i hk
      split at h
      · rename_i hl
        simp only [Option.some.injEq, Prod.mk.injEq] at h
        obtain ⟨rfl, rfl⟩ := h
        constructor
        · simp only [encField, List.length_take]
          have hm : min (fromBE (List.take k bs)) (List.drop k bs).length = fromBE (List.take k bs) :=
            Nat.min_eq_left hl
          rw [hm]
          have hlen : (List.take k bs).length = k := by simp [List.length_take]; omega
          have := toBE_fromBE (List.take k bs)
          rw [hlen] at this
          rw [this, List.append_assoc, List.take_append_drop, List.take_append_drop]
        · simp only [Field.fits, List.length_take]
          have hlen : (List.take k bs).length = k := by simp [List.length_take]; omega
          have := fromBE_lt (List.take k bs)
          rw [hlen] at this
          omega
      · cases h
    · cases h

theorem dec_canonical (fs : List Field) (bs : Bytes) (vs : List Bytes) (r : Bytes)
    (h : dec fs bs = some (vs, r)) : enc fs vs ++ r = bs ∧ Fits fs vs := by
  induction fs generalizing bs vs with
  | nil =>
    simp only [dec, Option.some.injEq, Prod.mk.injEq] at h
    obtain ⟨rfl, rfl⟩ := h
    simp [enc, Fits]
  | cons f fs ih =>
    simp only [dec] at h
    cases h1 : decField f bs with
    | none => rw [h1] at h; cases h
    | some p =>
      obtain ⟨v, r1⟩ := p
      rw [h1] at h
      simp only at h
      cases h2 : dec fs r1 with
      | none => rw [h2] at h; cases h
      | some q =>
        obtain ⟨vs', r2⟩ := q
        rw [h2] at h
        simp only [Option.some.injEq, Prod.mk.injEq] at h
        obtain ⟨rfl, rfl⟩ := h
        obtain ⟨e1, f1⟩ := decField_canonical f bs v r1 h1
        obtain ⟨e2, f2⟩ := ih r1 vs' h2
        constructor
        · simp only [enc, List.append_assoc]; rw [e2, e1]
        · exact ⟨f1, f2⟩

/-! ### more big-endian facts -/

theorem toBE_inj {k a b : Nat} (ha : a < 256 ^ k) (hb : b < 256 ^ k) (h : toBE k a = toBE k b) : a = b := by
  have := congrArg fromBE h
  rwa [fromBE_toBE k a ha, fromBE_toBE k b hb] at this

theorem fromBE_eq_of_toBE {k n : Nat} {bs : Bytes} (hl : bs.length = k) (h : fromBE bs = n) : bs = toBE k n := by
  subst h; subst hl; exact (toBE_fromBE bs).symm

theorem u64_of_nonneg {x : Int} (h0 : 0 ≤ x) (h1 : x ≤ 9223372036854775807) : u64 x = x.toNat := by
  unfold u64
  have : x % 18446744073709551616 = x := Int.emod_eq_of_lt h0 (by omega)
  rw [this]

theorem u64_lt (x : Int) : u64 x < 256 ^ 8 := by
  unfold u64
  have h1 : 0 ≤ x % 18446744073709551616 := Int.emod_nonneg _ (by decide)
  have h2 : x % 18446744073709551616 < 18446744073709551616 := Int.emod_lt_of_pos _ (by decide)
  have : (256 : Nat) ^ 8 = 18446744073709551616 := by decide
  omega

/-! ### structure of `dec` / `enc` -/

theorem Fits_length {fs : List Field} {vs : List Bytes} (h : Fits fs vs) : vs.length = fs.length := by
  induction fs generalizing vs with
  | nil => cases vs with
    | nil => rfl
    | cons _ _ => simp [Fits] at h
  | cons f fs ih => cases vs with
    | nil => simp [Fits] at h
    | cons v vs => simp [ih h.2]

theorem dec_length {fs : List Field} {bs : Bytes} {vs : List Bytes} {r : Bytes} (h : dec fs bs = some (vs, r)) :
    vs.length = fs.length := Fits_length (dec_canonical fs bs vs r h).2

theorem enc_append {fs1 fs2 : List Field} {vs1 vs2 : List Bytes} (h : vs1.length = fs1.length) :
    enc (fs1 ++ fs2) (vs1 ++ vs2) = enc fs1 vs1 ++ enc fs2 vs2 := by
  induction fs1 generalizing vs1 with
  | nil => cases vs1 with
    | nil => simp [enc]
    | cons _ _ => simp at h
  | cons f fs ih => cases vs1 with
    | nil => simp at h
    | cons v vs =>
      simp only [List.cons_append, enc, List.append_assoc]
      rw [ih (by simpa using h)]

theorem Fits_append {fs1 fs2 : List Field} {vs1 vs2 : List Bytes} (h1 : Fits fs1 vs1) (h2 : Fits fs2 vs2) :
    Fits (fs1 ++ fs2) (vs1 ++ vs2) := by
  induction fs1 generalizing vs1 with
  | nil => cases vs1 with
    | nil => simpa using h2
    | cons _ _ => simp [Fits] at h1
  | cons f fs ih => cases vs1 with
    | nil => simp [Fits] at h1
    | cons v vs => exact ⟨h1.1, ih h1.2⟩

/-- reading a prefix schema off an encoding of a longer schema leaves the encoding of the rest -/
theorem dec_enc_append (fs1 fs2 : List Field) (vs1 vs2 : List Bytes) (rest : Bytes) (h1 : Fits fs1 vs1) :
    dec fs1 (enc (fs1 ++ fs2) (vs1 ++ vs2) ++ rest) = some (vs1, enc fs2 vs2 ++ rest) := by
  rw [enc_append (Fits_length h1), List.append_assoc]
  exact dec_enc fs1 vs1 _ h1

theorem encChecked_eq_some {fs : List Field} {vs : List Bytes} {b : Bytes} :
    encChecked fs vs = some b ↔ Fits fs vs ∧ b = enc fs vs := by
  unfold encChecked
  split <;> simp_all [eq_comm]

/-! ### fingerprints -/

theorem splitFps_flatten (l : List Bytes) (h : ∀ f ∈ l, f.length = 32) (fuel : Nat) (hf : l.flatten.length ≤ fuel) :
    splitFps fuel l.flatten = some l := by
  induction l generalizing fuel with
  | nil => cases fuel <;> simp [splitFps]
  | cons x xs ih =>
    have hx : x.length = 32 := h x (by simp)
    have hxs : ∀ f ∈ xs, f.length = 32 := fun f hf => h f (by simp [hf])
    cases fuel with
    | zero => simp [hx] at hf
    | succ fuel =>
      have hne : (x :: xs).flatten ≠ [] := by
        intro hc
        have := congrArg List.length hc
        simp [hx] at this
      have hlen : 32 ≤ (x :: xs).flatten.length := by simp [hx]
      simp only [splitFps, hne, if_false, hlen, if_true]
      have ht : List.take 32 (x :: xs).flatten = x := by
        simp only [List.flatten_cons]
        rw [List.take_append_of_le_length (by omega)]
        exact List.take_of_length_le (by omega)
      have hd : List.drop 32 (x :: xs).flatten = xs.flatten := by
        simp only [List.flatten_cons]
        rw [List.drop_append_of_le_length (by omega)]
        rw [List.drop_of_length_le (by omega)]; simp
      have hl2 : (x :: xs).flatten.length = 32 + xs.flatten.length := by
        simp only [List.flatten_cons, List.length_append, hx]
      rw [ht, hd, ih hxs fuel (by omega)]
      rfl

theorem splitFps_sound (fuel : Nat) (bs : Bytes) (l : List Bytes) (h : splitFps fuel bs = some l) :
    l.flatten = bs ∧ ∀ f ∈ l, f.length = 32 := by
  induction fuel generalizing bs l with
  | zero =>
    simp only [splitFps] at h
    split at h
    · rename_i hb; cases h; simp [hb]
    · cases h
  | succ fuel ih =>
    simp only [splitFps] at h
    split at h
    · rename_i hb; cases h; simp [hb]
    · split at h
      · rename_i hlen
        cases hr : splitFps fuel (bs.drop 32) with
        | none => rw [hr] at h; cases h
        | some l' =>
          rw [hr] at h
          simp only [Option.map_some, Option.some.injEq] at h
          subst h
          obtain ⟨e1, e2⟩ := ih _ _ hr
          constructor
          · simp [e1]
          · intro f hf
            simp only [List.mem_cons] at hf
            rcases hf with rfl | hf
            · simp [List.length_take]; omega
            · exact e2 f hf
      · cases h

theorem flatten_length_32 (l : List Bytes) (h : ∀ f ∈ l, f.length = 32) : l.flatten.length = 32 * l.length := by
  induction l with
  | nil => rfl
  | cons x xs ih =>
    have hx : x.length = 32 := h x (by simp)
    have := ih (fun f hf => h f (by simp [hf]))
    simp [hx, this]; omega

end Codec
