import Proofs.SeqInv2
import Proofs.SeqTiles
/-! Store invariants of the sequencer model (I3, I5): without tampering, every published checkpoint is
completely backed by tile objects with the prescribed content; a loaded / idle / sequencing instance
sits on a completely rendered tree; a staged bundle always belongs to a completely rendered base tree. -/
namespace Seq

abbrev Store := Key → Option (Obj × Bool)

/-- tile `t` is in the store, immutable, with the content prescribed for tree `tr` -/
def Good (st : Store) (tr : Tree) (t : TileId) : Prop := st (.tile t) = some (.slice (t.slice tr), true)

/-- every tile the Static CT layout needs for `tr` (levels a 64-bit tree can have) is `Good` -/
def Complete (st : Store) (tr : Tree) : Prop :=
  ∀ t, Req tr.length t = true → t.kind.level < 8 → Good st tr t

/-- immutable tile objects are kept -/
def TileLe (st st' : Store) : Prop := ∀ t o, st (.tile t) = some (o, true) → st' (.tile t) = some (o, true)

theorem TileLe.refl (st : Store) : TileLe st st := fun _ _ h => h

theorem Good.mono {st st' : Store} (h : TileLe st st') {tr : Tree} {t : TileId} (g : Good st tr t) : Good st' tr t :=
  h _ _ g

theorem Complete.mono {st st' : Store} (h : TileLe st st') {tr : Tree} (c : Complete st tr) : Complete st' tr :=
  fun t hr hl => (c t hr hl).mono h

theorem complete_nil (st : Store) : Complete st [] := by
  intro t hr _
  unfold Req at hr
  simp at hr
  omega

/-- a completely rendered tree plus the tiles of the growth step is a completely rendered larger tree -/
theorem complete_extend {st : Store} {old new : Tree} (hc : Complete st old) (hp : old <+: new)
    (hn : ∀ t, NewAt old.length new.length t = true → t.kind.level < 8 → Good st new t) : Complete st new := by
  intro t hr hl
  rcases req_cover hp.length_le hr with h | h
  · exact hn t h hl
  · have := hc t h hl
    unfold Good at *
    rw [slice_stable hp h]; exact this

theorem complete_congr {st : Store} {a b : Tree} (h : a = b) (hc : Complete st a) : Complete st b := h ▸ hc

/-- an accepted upload keeps every immutable tile object -/
theorem storeUpload_tileLe {st st' : Store} {k : Key} {imm : Bool} {o : Obj} {r : Res}
    (h : storeUpload st k imm o r = some st') (himm : ∀ t, k = .tile t → imm = true) : TileLe st st' := by
  intro t old hold
  by_cases hk : Key.tile t = k
  · subst hk
    have hi := himm t rfl
    subst hi
    simp only [storeUpload, hold] at h
    split at h
    · rename_i heq; subst heq
      cases r <;> simp at h <;> (subst h) <;> simp_all [updK]
    · cases r <;> simp at h <;> (subst h; exact hold)
  · unfold storeUpload at h
    split at h
    · split at h
      · cases r <;> simp at h <;> (subst h) <;> simp [updK, hk, hold] <;> (intro hh; exact absurd hh.symm hk)
      · cases r <;> simp at h <;> (subst h; exact hold)
    · cases r <;> simp at h <;> (subst h) <;> simp [updK, hk, hold] <;> (intro hh; exact absurd hh.symm hk)

/-- what an applied upload of an immutable object leaves at its key -/
theorem storeUpload_applied {st st' : Store} {k : Key} {o : Obj} {r : Res}
    (h : storeUpload st k true o r = some st') (hr : r = .ok ∨ r = .errA) : st' k = some (o, true) := by
  unfold storeUpload at h
  split at h
  · split at h
    · rcases hr with rfl | rfl <;> simp at h <;> (subst h; simp [updK])
    · rcases hr with rfl | rfl <;> simp at h
  · rcases hr with rfl | rfl <;> simp at h <;> (subst h; simp [updK])

end Seq

namespace Seq

theorem step_tampered (s s' : Sys) (e : Ev) (h : step s e = some s') (ht : s'.tampered = false) :
    s.tampered = false ∧ ∀ k o, e ≠ .tamper k o := by
  cases e <;> simp only [step] at h <;> (repeat' split at h) <;>
    simp_all [Sys.setInst] <;> (try (subst h; simp_all))

/-- an accepted upload event changes the store exactly by `storeUpload`, and tile objects are always immutable -/
theorem upload_store (s s' : Sys) (i : Nat) (k : Key) (imm : Bool) (o : Obj) (r : Res)
    (h : step s (.upload i k imm o r) = some s') :
    storeUpload s.store k imm o r = some s'.store ∧ (∀ t, k = Key.tile t → imm = true) := by
  simp only [step] at h
  split at h
  · cases h
  · rename_i st' heq
    repeat' split at h
    all_goals (first | cases h | skip)
    all_goals (try (injection h with h; subst h))
    all_goals (refine ⟨by first | simpa [Sys.setInst] using heq | (split <;> simpa [Sys.setInst] using heq), ?_⟩)
    all_goals (intro t ht)
    all_goals (first | (cases ht; done) | (cases imm <;> simp_all))

set_option maxHeartbeats 4000000 in
/-- how a step without tampering can change the object store -/
theorem step_store (s s' : Sys) (e : Ev) (h : step s e = some s') (ht : s'.tampered = false) :
    s'.store = s.store ∨
    (∃ k imm o r, storeUpload s.store k imm o r = some s'.store ∧ (∀ t, k = Key.tile t → imm = true)) ∨
    (∃ t, s'.store = updK s.store (.staging t) none) := by
  cases e
  case upload i k imm o r =>
    exact Or.inr (Or.inl ⟨k, imm, o, r, upload_store s s' i k imm o r h⟩)
  case discard i k r =>
    simp only [step] at h
    repeat' split at h
    all_goals (first | cases h | skip)
    all_goals (try (injection h with h; subst h))
    all_goals (first
      | (left; rfl)
      | (right; right; exact ⟨_, rfl⟩)
      | (split <;> first | (left; rfl) | (right; right; exact ⟨_, rfl⟩)))
  all_goals (simp only [step] at h <;> (repeat' split at h) <;>
    simp_all [Sys.setInst] <;> (try (subst h; simp_all)))

theorem tileLe_discard (st : Store) (t : Tree) : TileLe st (updK st (.staging t) none) := by
  intro tl o h
  simp [updK, h]

theorem step_tileLe (s s' : Sys) (e : Ev) (h : step s e = some s') (ht : s'.tampered = false) :
    TileLe s.store s'.store := by
  rcases step_store s s' e h ht with h1 | ⟨k, imm, o, r, h1, h2⟩ | ⟨t, h1⟩
  · rw [h1]; exact TileLe.refl _
  · exact storeUpload_tileLe h1 h2
  · rw [h1]; exact tileLe_discard _ _

end Seq

namespace Seq

/-- the staged bundle of a round: exactly the tiles of the growth step, with the new tree's slices -/
def BundleFacts (rd : Round) : Prop :=
  rd.old.leaves <+: rd.new.leaves ∧
  ∃ items, rd.bundle = items.map (·.1) ∧ bundleOK rd.old.leaves.length rd.new.leaves items = true

/-- per-instance store invariant -/
def SOK (st : Store) (x : Inst) : Prop :=
  match x.phase with
  | .idle => Complete st x.tree.leaves
  | .creating (.lockCreate c) => c.leaves = []
  | .creating (.ckptUpload c) => c.leaves = []
  | .round rd => (match rd.pc with
     | .clock => Complete st x.tree.leaves
     | .stage => Complete st x.tree.leaves ∧ rd.slots ≠ []
     | .cas => Complete st x.tree.leaves ∧ (rd.slots = [] → rd.new.leaves = x.tree.leaves) ∧ (rd.slots ≠ [] → BundleFacts rd)
     | .tiles done failed => Complete st rd.old.leaves ∧ BundleFacts rd ∧ (failed = false → ∀ t ∈ done, Good st rd.new.leaves t)
     | .ckpt => Complete st x.tree.leaves
     | .discard => Complete st x.tree.leaves
     | .done .ok => Complete st x.tree.leaves
     | .done .failed => Complete st x.tree.leaves
     | .done .fatal => True)
  | .loading (.clock2 _ c1) => Complete st c1.leaves
  | .loading (.apply c rem failed) =>
      ∃ old items, bundleOK old.length c.leaves items = true ∧ old <+: c.leaves ∧ Complete st old ∧
        (∀ p ∈ rem, p ∈ items) ∧ (failed = false → ∀ p ∈ items, p ∉ rem → Good st c.leaves p.1)
  | .loading (.edge c _) => Complete st c.leaves
  | _ => True

theorem SOK.mono {st st' : Store} (h : TileLe st st') {x : Inst} (g : SOK st x) : SOK st' x := by
  unfold SOK at *
  cases hph : x.phase with
  | down => simp only [hph] at g ⊢
  | stopped => simp only [hph] at g ⊢
  | idle => simp only [hph] at g ⊢; exact g.mono h
  | creating pc => cases pc <;> simp only [hph] at g ⊢ <;> exact g
  | loading pc =>
    cases pc <;> simp only [hph] at g ⊢
    · exact g.mono h
    · obtain ⟨old, items, h1, h2, h3, h4, h5⟩ := g
      exact ⟨old, items, h1, h2, h3.mono h, h4, fun hf p hp hn => (h5 hf p hp hn).mono h⟩
    · exact g.mono h
  | round rd =>
    simp only [hph] at g ⊢
    cases hpc : rd.pc with
    | clock => simp only [hpc] at g ⊢; exact g.mono h
    | stage => simp only [hpc] at g ⊢; exact ⟨g.1.mono h, g.2⟩
    | cas => simp only [hpc] at g ⊢; exact ⟨g.1.mono h, g.2⟩
    | tiles done failed =>
      simp only [hpc] at g ⊢
      exact ⟨g.1.mono h, g.2.1, fun hf t ht => (g.2.2 hf t ht).mono h⟩
    | ckpt => simp only [hpc] at g ⊢; exact g.mono h
    | discard => simp only [hpc] at g ⊢; exact g.mono h
    | done c => cases c <;> simp only [hpc] at g ⊢ <;> first | exact g.mono h | trivial

structure Inv3 (s : Sys) : Prop where
  pub : ∀ c ∈ s.pubHist, Complete s.store c.leaves
  ckpt : ∀ c imm, s.store .ckpt = some (.ck c, imm) → c ∈ s.pubHist
  staged : ∀ tr items imm, s.store (.staging tr) = some (.bundle items, imm) →
    ∃ old, bundleOK (List.length old) tr items = true ∧ old <+: tr ∧ Complete s.store old
  inst : ∀ i, SOK s.store (s.insts i)

macro "seq3_brute" h:ident : tactic => `(tactic|
  (simp only [step] at $h:ident <;> (repeat' split at $h:ident) <;>
    simp_all [Sys.setInst, upd, SOK, leavesOf] <;>
    (try (subst $h:ident; simp_all [upd, SOK, leavesOf])) <;>
    (try (exact Complete.mono (tileLe_discard _ _) (by assumption)))))
theorem sok_launchCreate (s s' : Sys) {i : _} (hinv : Inv3 s) (h1 : Inv s)
    (h : step s (.launchCreate i) = some s') : SOK s'.store (s'.insts i) := by
  have hi := hinv.inst i
  have h1i := h1.inst i
  seq3_brute h
theorem sok_launchLoad (s s' : Sys) {i : _} (hinv : Inv3 s) (h1 : Inv s)
    (h : step s (.launchLoad i) = some s') : SOK s'.store (s'.insts i) := by
  have hi := hinv.inst i
  have h1i := h1.inst i
  seq3_brute h
theorem sok_launchRound (s s' : Sys) {i : _} (hinv : Inv3 s) (h1 : Inv s)
    (h : step s (.launchRound i) = some s') : SOK s'.store (s'.insts i) := by
  have hi := hinv.inst i
  have h1i := h1.inst i
  seq3_brute h
theorem sok_launchSubmit (s s' : Sys) {i : _} (hinv : Inv3 s) (h1 : Inv s)
    (h : step s (.launchSubmit i) = some s') : SOK s'.store (s'.insts i) := by
  have hi := hinv.inst i
  have h1i := h1.inst i
  seq3_brute h
theorem sok_config (s s' : Sys) {i bad : _} (hinv : Inv3 s) (h1 : Inv s)
    (h : step s (.config i bad) = some s') : SOK s'.store (s'.insts i) := by
  have hi := hinv.inst i
  have h1i := h1.inst i
  seq3_brute h
theorem sok_clock (s s' : Sys) {i v : _} (hinv : Inv3 s) (h1 : Inv s)
    (h : step s (.clock i v) = some s') : SOK s'.store (s'.insts i) := by
  have hi := hinv.inst i
  have h1i := h1.inst i
  seq3_brute h
theorem sok_lockFetch (s s' : Sys) {i r : _} (hinv : Inv3 s) (h1 : Inv s)
    (h : step s (.lockFetch i r) = some s') : SOK s'.store (s'.insts i) := by
  have hi := hinv.inst i
  have h1i := h1.inst i
  seq3_brute h
theorem sok_lockCreate (s s' : Sys) {i c r : _} (hinv : Inv3 s) (h1 : Inv s)
    (h : step s (.lockCreate i c r) = some s') : SOK s'.store (s'.insts i) := by
  have hi := hinv.inst i
  have h1i := h1.inst i
  seq3_brute h
theorem sok_discard (s s' : Sys) {i k r : _} (hinv : Inv3 s) (h1 : Inv s)
    (h : step s (.discard i k r) = some s') : SOK s'.store (s'.insts i) := by
  have hi := hinv.inst i
  have h1i := h1.inst i
  seq3_brute h
theorem sok_ack (s s' : Sys) {i eid key idx ts : _} (hinv : Inv3 s) (h1 : Inv s)
    (h : step s (.ack i eid key idx ts) = some s') : SOK s'.store (s'.insts i) := by
  have hi := hinv.inst i
  have h1i := h1.inst i
  seq3_brute h
theorem sok_nackEvicted (s s' : Sys) {i eid key : _} (hinv : Inv3 s) (h1 : Inv s)
    (h : step s (.nackEvicted i eid key) = some s') : SOK s'.store (s'.insts i) := by
  have hi := hinv.inst i
  have h1i := h1.inst i
  seq3_brute h
theorem sok_nack (s s' : Sys) {i eid imm : _} (hinv : Inv3 s) (h1 : Inv s)
    (h : step s (.nack i eid imm) = some s') : SOK s'.store (s'.insts i) := by
  have hi := hinv.inst i
  have h1i := h1.inst i
  seq3_brute h
theorem sok_created (s s' : Sys) {i : _} (hinv : Inv3 s) (h1 : Inv s)
    (h : step s (.created i) = some s') : SOK s'.store (s'.insts i) := by
  have hi := hinv.inst i
  have h1i := h1.inst i
  seq3_brute h
theorem sok_createFail (s s' : Sys) {i : _} (hinv : Inv3 s) (h1 : Inv s)
    (h : step s (.createFail i) = some s') : SOK s'.store (s'.insts i) := by
  have hi := hinv.inst i
  have h1i := h1.inst i
  seq3_brute h
theorem sok_loaded (s s' : Sys) {i c : _} (hinv : Inv3 s) (h1 : Inv s)
    (h : step s (.loaded i c) = some s') : SOK s'.store (s'.insts i) := by
  have hi := hinv.inst i
  have h1i := h1.inst i
  seq3_brute h
theorem sok_loadFail (s s' : Sys) {i : _} (hinv : Inv3 s) (h1 : Inv s)
    (h : step s (.loadFail i) = some s') : SOK s'.store (s'.insts i) := by
  have hi := hinv.inst i
  have h1i := h1.inst i
  seq3_brute h
theorem sok_roundEnd (s s' : Sys) {i c : _} (hinv : Inv3 s) (h1 : Inv s)
    (h : step s (.roundEnd i c) = some s') : SOK s'.store (s'.insts i) := by
  have hi := hinv.inst i
  have h1i := h1.inst i
  seq3_brute h
theorem sok_crash (s s' : Sys) {i : _} (hinv : Inv3 s) (h1 : Inv s)
    (h : step s (.crash i) = some s') : SOK s'.store (s'.insts i) := by
  have hi := hinv.inst i
  have h1i := h1.inst i
  seq3_brute h
theorem sok_cacheLose (s s' : Sys) {i : _} (hinv : Inv3 s) (h1 : Inv s)
    (h : step s (.cacheLose i) = some s') : SOK s'.store (s'.insts i) := by
  have hi := hinv.inst i
  have h1i := h1.inst i
  seq3_brute h

end Seq

namespace Seq

theorem sok_submitted (s s' : Sys) {i eid key low iss src : _} (hinv : Inv3 s) (_h1 : Inv s)
    (h : step s (.submitted i eid key low iss src) = some s') : SOK s'.store (s'.insts i) := by
  have hi := hinv.inst i
  obtain ⟨_, hc⟩ := submitted_char s s' i eid key low iss src h
  rcases hc with rfl | rfl | ⟨_, rfl⟩ | ⟨_, _, rfl⟩ <;> simpa [SOK, Sys.setInst, upd] using hi

theorem sok_lockReplace (s s' : Sys) {i old new r : _} (hinv : Inv3 s) (h1 : Inv s)
    (h : step s (.lockReplace i old new r) = some s') : SOK s'.store (s'.insts i) := by
  have hi := hinv.inst i
  have h1i := h1.inst i
  cases hph : (s.insts i).phase with
  | round rd =>
    cases hpc : rd.pc with
    | cas =>
      simp only [SOK, hph, hpc] at hi
      simp only [InstOK, RoundOK, hph, hpc] at h1i
      obtain ⟨hcomp, hempty, hne⟩ := hi
      obtain ⟨_, hold, _, _⟩ := h1i
      simp only [step, hph, hpc] at h
      split at h
      · cases h
      · rename_i hguard
        simp only [not_or, ne_eq, Decidable.not_not] at hguard
        obtain ⟨_, hnew⟩ := hguard
        subst hnew
        cases r <;> simp only at h
        · -- ok
          split at h
          · injection h with h; subst h
            by_cases hs : rd.slots = []
            · have hl := hempty hs
              simp only [Sys.setInst, upd, if_true, SOK, hs, List.isEmpty_nil]
              exact complete_congr hl.symm hcomp
            · have hb := hne hs
              have : rd.slots.isEmpty = false := by cases hh : rd.slots <;> simp_all
              simp only [Sys.setInst, upd, if_true, SOK, this]
              refine ⟨by rw [hold]; exact hcomp, hb, ?_⟩
              intro _ t ht; cases ht
          · cases h
        · split at h
          · injection h with h; subst h; simp [Sys.setInst, upd, SOK]
          · cases h
        · injection h with h; subst h; simp [Sys.setInst, upd, SOK]
        · split at h
          · cases h
          · injection h with h; subst h; simp [Sys.setInst, upd, SOK]
    | _ => simp [step, hph, hpc] at h
  | _ => simp [step, hph] at h

end Seq

namespace Seq

theorem sok_fetch (s s' : Sys) {i k r : _} (hinv : Inv3 s) (h1 : Inv s)
    (h : step s (.fetch i k r) = some s') : SOK s'.store (s'.insts i) := by
  have hi := hinv.inst i
  have hck := hinv.ckpt
  have hpub := hinv.pub
  have hst := hinv.staged
  simp only [step] at h
  repeat' split at h
  all_goals (first | cases h | skip)
  all_goals (try (injection h with h; subst h))
  all_goals (simp_all [Sys.setInst, upd, SOK])
  obtain ⟨old, a, b, c⟩ := hinv.staged _ _ _ (by assumption)
  exact ⟨old, _, a, b, c, fun _ _ h => h, fun _ _ h hn => absurd h hn⟩

end Seq
