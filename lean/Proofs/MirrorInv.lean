import Proofs.MirrorTiles
import Proofs.Witness
/-! The invariant of the mirror transition system (`Model/Mirror.lean`) and its preservation by the
primitive state transformers the steps are built from. Core only. -/
namespace Mirror
open Merkle Witness Checkpoint

variable (node : Hash → Hash → Hash) (emptyHash : Hash) (leaf : Entry → Hash)

/-! ### the chain of recorded tree heads -/

/-- `E` is the log as far as the chain `hist` of recorded tree heads goes -/
def TruthH (hist : List (Nat × Hash)) (E : List Entry) : Prop :=
  ∃ k, hist.getLast? = some k ∧ Opens node emptyHash k (E.map leaf)

theorem truth_iff (st : MState) (E : List Entry) :
    Truth node emptyHash leaf st E ↔ TruthH node emptyHash leaf st.w.hist E := Iff.rfl

theorem consistent_last {hist : List (Nat × Hash)} (hc : hist.Pairwise (Consistent node emptyHash))
    {k kl : Nat × Hash} (hk : k ∈ hist) (hl : hist.getLast? = some kl) : Consistent node emptyHash k kl := by
  obtain ⟨ys, hys⟩ := List.getLast?_eq_some_iff.1 hl
  rw [hys] at hk hc
  rcases List.mem_append.1 hk with h | h
  · exact (List.pairwise_append.1 hc).2.2 k h kl (by simp)
  · simp only [List.mem_singleton] at h; subst h; exact Consistent.refl node emptyHash _

/-- under `TruthH`, every recorded tree head is the head of a prefix of the log -/
theorem truth_mem {hist : List (Nat × Hash)} (hc : hist.Pairwise (Consistent node emptyHash))
    {E : List Entry} (ht : TruthH node emptyHash leaf hist E) {k : Nat × Hash} (hk : k ∈ hist) :
    k.1 ≤ E.length ∧ k.2 = mth node emptyHash ((E.map leaf).take k.1) := by
  obtain ⟨kl, hl, ho⟩ := ht
  have hcons := consistent_last node emptyHash hc hk hl
  obtain ⟨h1, h2⟩ := hcons.2 _ ho
  have hlen : kl.1 = E.length := by rw [← ho.1]; simp
  exact ⟨by rw [← hlen]; exact hcons.1, h2.symm⟩

theorem mem_le_last {hist : List (Nat × Hash)} (hc : hist.Pairwise (Consistent node emptyHash))
    {k kl : Nat × Hash} (hk : k ∈ hist) (hl : hist.getLast? = some kl) : k.1 ≤ kl.1 :=
  (consistent_last node emptyHash hc hk hl).1

/-! ### definitions of the invariant -/

def payloadCk (o : Bytes) : Payload → Option (Nat × Hash)
  | .empty => none
  | .pend note _ => ckOfNote o note
  | .mir ck _ => some ck

def top (st : MState) : Nat := max (st.next.getD 0) (mirrorCk emptyHash st.mlock).1

def DataOK (E : List Entry) (dataT : Nat → Nat → Option (List Entry)) : Prop :=
  ∀ n w es, dataT n w = some es → es = bundleOf E n w ∧ 256 * n + w ≤ E.length

def Complete (st : MState) (M : Nat) : Prop :=
  ∀ l n w, IsTile M l n w → (st.hash l n w).isSome ∧ (l = 0 → (st.data n w).isSome)

structure ReqInv (c : MCfg) (st : MState) (r : Req) : Prop where
  ck : r.ck ∈ st.w.hist
  stop : r.stop = r.ck.1
  le : r.start ≤ r.stop
  pay : ∀ k, payloadCk c.origin r.payload = some k → k ∈ st.w.hist
  ile : r.i ≤ r.numPackages
  nx : ∃ x, st.next = some x ∧ (r.i < r.numPackages → r.rs + 256 * r.i ≤ x)
  ovlen : r.rs + r.ov.length = min (r.rs + 256 * r.i) r.stop
  ov : ∀ E, TruthH node emptyHash leaf st.w.hist E → r.ov = rng (E.map leaf) r.rs (r.rs + r.ov.length)

/-- the part of the invariant that does not look at the tile store -/
structure CtlInv (c : MCfg) (st : MState) : Prop where
  wi : Witness.Inv node emptyHash c.origin st.w
  hne : st.w.hist ≠ []
  cache : ∀ v k, st.w.cache 0 = some v → ckOf emptyHash c.origin v = some k → k ∈ st.w.hist
  mh : ∀ k ∈ st.mhist, k ∈ st.w.hist
  mlast : st.mhist.getLast? = st.mlock.map (·.1)
  mmono : st.mhist.Pairwise (fun a b => a.1 ≤ b.1)
  mc : ∀ v, st.mcache = some v → v = st.mlock
  nx : ∀ x, st.next = some x → (mirrorCk emptyHash st.mlock).1 ≤ x ∧ ∃ k ∈ st.w.hist, x ≤ k.1
  rq : ∀ rid r, st.reqs rid = some r → ReqInv node emptyHash leaf c st r
  tk : ∀ t ∈ st.issued, ∀ k, payloadCk c.origin t.payload = some k → k ∈ st.w.hist
  rel : ∀ k ∈ st.released, k ∈ st.mhist
  pub : ∀ k, st.mpub = some k → k ∈ st.mhist

/-- the part about the tile store -/
structure StoreInv (st : MState) : Prop where
  data : ∀ E, TruthH node emptyHash leaf st.w.hist E → DataOK E st.data
  hash : ∀ E, TruthH node emptyHash leaf st.w.hist E → HashOK node emptyHash (E.map leaf) st.hash
  comp : ∀ M, M % 256 = 0 → M ≤ top emptyHash st → Complete st M
  cut : ∀ k ∈ st.mhist, k.1 % 256 ≠ 0 → (st.hash 0 (k.1 / 256) (k.1 % 256)).isSome
  h2d : ∀ n w, (st.hash 0 n w).isSome → (st.data n w).isSome

structure MInv (c : MCfg) (st : MState) : Prop where
  ctl : CtlInv node emptyHash leaf c st
  store : StoreInv node emptyHash leaf st

/-! ### states that differ only in the tile store (and the operation log) -/

structure SameCtl (a b : MState) : Prop where
  w : b.w = a.w
  mlock : b.mlock = a.mlock
  mpub : b.mpub = a.mpub
  enforce : b.enforce = a.enforce
  key : b.key = a.key
  mcache : b.mcache = a.mcache
  next : b.next = a.next
  reqs : b.reqs = a.reqs
  serial : b.serial = a.serial
  mhist : b.mhist = a.mhist
  issued : b.issued = a.issued
  released : b.released = a.released

theorem SameCtl.refl (a : MState) : SameCtl a a := ⟨rfl, rfl, rfl, rfl, rfl, rfl, rfl, rfl, rfl, rfl, rfl, rfl⟩

theorem SameCtl.trans {a b c : MState} (h1 : SameCtl a b) (h2 : SameCtl b c) : SameCtl a c :=
  ⟨h2.w.trans h1.w, h2.mlock.trans h1.mlock, h2.mpub.trans h1.mpub, h2.enforce.trans h1.enforce,
   h2.key.trans h1.key, h2.mcache.trans h1.mcache, h2.next.trans h1.next, h2.reqs.trans h1.reqs,
   h2.serial.trans h1.serial, h2.mhist.trans h1.mhist, h2.issued.trans h1.issued, h2.released.trans h1.released⟩

theorem reqInv_sameCtl {c : MCfg} {a b : MState} (h : SameCtl a b) {r : Req}
    (hr : ReqInv node emptyHash leaf c a r) : ReqInv node emptyHash leaf c b r := by
  obtain ⟨h1, h2, h3, h4, h5, h6, h7, h8⟩ := hr
  exact ⟨by rw [h.w]; exact h1, h2, h3, by rw [h.w]; exact h4, h5, by rw [h.next]; exact h6, h7, by rw [h.w]; exact h8⟩

theorem ctlInv_sameCtl {c : MCfg} {a b : MState} (h : SameCtl a b)
    (hi : CtlInv node emptyHash leaf c a) : CtlInv node emptyHash leaf c b := by
  obtain ⟨i1, i2, i3, i4, i5, i6, i7, i8, i9, i10, i11, i12⟩ := hi
  refine ⟨by rw [h.w]; exact i1, by rw [h.w]; exact i2, by rw [h.w]; exact i3, by rw [h.w, h.mhist]; exact i4,
    by rw [h.mhist, h.mlock]; exact i5, by rw [h.mhist]; exact i6, by rw [h.mcache, h.mlock]; exact i7,
    by rw [h.next, h.mlock, h.w]; exact i8, ?_, by rw [h.issued, h.w]; exact i10,
    by rw [h.released, h.mhist]; exact i11, by rw [h.mpub, h.mhist]; exact i12⟩
  intro rid r hr
  rw [h.reqs] at hr
  exact reqInv_sameCtl node emptyHash leaf h (i9 rid r hr)

theorem top_sameCtl {a b : MState} (h : SameCtl a b) : top emptyHash b = top emptyHash a := by
  unfold top; rw [h.next, h.mlock]

/-- the tile store only grew -/
structure StoreLe (a b : MState) : Prop where
  data : ∀ n w, (a.data n w).isSome → (b.data n w).isSome
  hash : ∀ l n w, (a.hash l n w).isSome → (b.hash l n w).isSome

theorem StoreLe.refl (a : MState) : StoreLe a a := ⟨fun _ _ h => h, fun _ _ _ h => h⟩

theorem StoreLe.trans {a b c : MState} (h1 : StoreLe a b) (h2 : StoreLe b c) : StoreLe a c :=
  ⟨fun n w h => h2.data n w (h1.data n w h), fun l n w h => h2.hash l n w (h1.hash l n w h)⟩

theorem complete_le {a b : MState} (h : StoreLe a b) {M : Nat} (hc : Complete a M) : Complete b M := by
  intro l n w ht
  obtain ⟨h1, h2⟩ := hc l n w ht
  exact ⟨h.hash l n w h1, fun hl => h.data n w (h2 hl)⟩

/-! ### the two tile uploads -/

theorem putData_sameCtl (st : MState) (n w : Nat) (es : List Entry) (f : Fault) :
    SameCtl st (putData st n w es f).1 := by
  unfold putData; exact ⟨rfl, rfl, rfl, rfl, rfl, rfl, rfl, rfl, rfl, rfl, rfl, rfl⟩

theorem putHash_sameCtl (st : MState) (l n w : Nat) (hs : List Hash) (f : Fault) :
    SameCtl st (putHash st l n w hs f).1 := by
  unfold putHash; exact ⟨rfl, rfl, rfl, rfl, rfl, rfl, rfl, rfl, rfl, rfl, rfl, rfl⟩

theorem putData_hash (st : MState) (n w : Nat) (es : List Entry) (f : Fault) :
    (putData st n w es f).1.hash = st.hash := by
  unfold putData; rfl

theorem putHash_data (st : MState) (l n w : Nat) (hs : List Hash) (f : Fault) :
    (putHash st l n w hs f).1.data = st.data := by
  unfold putHash; rfl

/-- what a data-tile upload leaves in the store: at the key either the old object or the new one, every
other key untouched; after a successful return the key holds an object -/
theorem putData_spec (st : MState) (n w : Nat) (es : List Entry) (f : Fault) :
    (∀ n' w', (putData st n w es f).1.data n' w' = st.data n' w' ∨
      (n' = n ∧ w' = w ∧ (putData st n w es f).1.data n' w' = some es)) ∧
    ((putData st n w es f).2 = true → ((putData st n w es f).1.data n w).isSome) := by
  unfold putData
  simp only []
  generalize (st.enforce && match st.data n w with | some old => old != es | none => false) = clash
  have hfa : f.isOk = true → f.applied = true := by cases f <;> simp [Fault.isOk, Fault.applied]
  cases hA : (f.applied && !clash)
  · refine ⟨fun n' w' => Or.inl (by simp), ?_⟩
    intro hok
    simp only [Bool.and_eq_true, Bool.not_eq_true'] at hok
    rw [hfa hok.1, hok.2] at hA
    simp at hA
  · refine ⟨?_, fun _ => by simp⟩
    intro n' w'
    by_cases h : n' = n ∧ w' = w
    · right; exact ⟨h.1, h.2, by simp [h]⟩
    · left; simp [h]

theorem putHash_spec (st : MState) (l n w : Nat) (hs : List Hash) (f : Fault) :
    (∀ l' n' w', (putHash st l n w hs f).1.hash l' n' w' = st.hash l' n' w' ∨
      (l' = l ∧ n' = n ∧ w' = w ∧ (putHash st l n w hs f).1.hash l' n' w' = some hs)) ∧
    ((putHash st l n w hs f).2 = true → ((putHash st l n w hs f).1.hash l n w).isSome) := by
  unfold putHash
  simp only []
  generalize (st.enforce && match st.hash l n w with | some old => old != hs | none => false) = clash
  have hfa : f.isOk = true → f.applied = true := by cases f <;> simp [Fault.isOk, Fault.applied]
  cases hA : (f.applied && !clash)
  · refine ⟨fun l' n' w' => Or.inl (by simp), ?_⟩
    intro hok
    simp only [Bool.and_eq_true, Bool.not_eq_true'] at hok
    rw [hfa hok.1, hok.2] at hA
    simp at hA
  · refine ⟨?_, fun _ => by simp⟩
    intro l' n' w'
    by_cases h : l' = l ∧ n' = n ∧ w' = w
    · right; exact ⟨h.1, h.2.1, h.2.2, by simp [h]⟩
    · left; simp [h]

theorem putData_le (st : MState) (n w : Nat) (es : List Entry) (f : Fault) :
    StoreLe st (putData st n w es f).1 := by
  refine ⟨?_, by rw [putData_hash]; exact fun _ _ _ h => h⟩
  intro n' w' h
  rcases (putData_spec st n w es f).1 n' w' with e | ⟨_, _, e⟩
  · rw [e]; exact h
  · rw [e]; rfl

theorem putHash_le (st : MState) (l n w : Nat) (hs : List Hash) (f : Fault) :
    StoreLe st (putHash st l n w hs f).1 := by
  refine ⟨by rw [putHash_data]; exact fun _ _ h => h, ?_⟩
  intro l' n' w' h
  rcases (putHash_spec st l n w hs f).1 l' n' w' with e | ⟨_, _, _, e⟩
  · rw [e]; exact h
  · rw [e]; rfl

/-- a store-only change keeps the store invariant when what it wrote is the log's and it did not
put a level-0 hash tile without its entry bundle -/
theorem storeInv_of {a b : MState} (hs : SameCtl a b) (hle : StoreLe a b)
    (hd : ∀ E, TruthH node emptyHash leaf a.w.hist E → ∀ n w es, b.data n w = some es →
      a.data n w = some es ∨ (es = bundleOf E n w ∧ 256 * n + w ≤ E.length))
    (hh : ∀ E, TruthH node emptyHash leaf a.w.hist E → ∀ l n w x, b.hash l n w = some x →
      a.hash l n w = some x ∨ (x = tileOf node emptyHash (E.map leaf) l n w ∧ (256 * n + w) * 256 ^ l ≤ (E.map leaf).length))
    (h2 : ∀ n w, (b.hash 0 n w).isSome → (a.hash 0 n w).isSome ∨ (b.data n w).isSome)
    (hi : StoreInv node emptyHash leaf a) : StoreInv node emptyHash leaf b := by
  obtain ⟨i1, i2, i3, i4, i5⟩ := hi
  refine ⟨?_, ?_, ?_, ?_, ?_⟩
  · intro E hE n w es he
    rw [hs.w] at hE
    rcases hd E hE n w es he with h | h
    · exact i1 E hE n w es h
    · exact h
  · intro E hE l n w x hx
    rw [hs.w] at hE
    rcases hh E hE l n w x hx with h | h
    · exact i2 E hE l n w x h
    · exact h
  · intro M hM hle'
    rw [top_sameCtl emptyHash hs] at hle'
    exact complete_le hle (i3 M hM hle')
  · intro k hk hk'
    rw [hs.mhist] at hk
    exact hle.hash _ _ _ (i4 k hk hk')
  · intro n w h
    rcases h2 n w h with h' | h'
    · exact hle.data n w (i5 n w h')
    · exact h'

end Mirror
