import Model.Submit
/-! Helper lemmas for `Props/C09.lean` (core Lean only). -/
namespace Submit

theorem isAdmit_iff (c : Config) (roots : List Bytes) (r : Req) :
    (admission c roots r).isAdmit = true ↔ ∀ k ∈ checks, Check.fails c roots r k = false := by
  unfold admission
  cases h : checks.find? (·.fails c roots r) with
  | none =>
    simp only [Outcome.isAdmit, true_iff]
    intro k hk
    have := List.find?_eq_none.1 h k hk
    simpa using this
  | some k =>
    simp only [Outcome.isAdmit]
    have h1 := List.find?_some h
    have h2 := List.mem_of_find?_eq_some h
    constructor
    · intro hf; cases hf
    · intro hall
      have := hall k h2
      simp_all

/-- what an admitted request looks like -/
theorem admit_inv {c : Config} {roots : List Bytes} {r : Req} {e : Pending} {ch : List Cert}
    (h : admission c roots r = .admit e ch) :
    (∀ k ∈ checks, Check.fails c roots r k = false) ∧ ch = vchain c roots r ∧ e = entryOf r ch := by
  have hadm : (admission c roots r).isAdmit = true := by rw [h]; rfl
  refine ⟨(isAdmit_iff c roots r).1 hadm, ?_⟩
  unfold admission at h
  cases hf : checks.find? (·.fails c roots r) with
  | some k => rw [hf] at h; cases h
  | none =>
    rw [hf] at h
    simp only [Outcome.admit.injEq] at h
    obtain ⟨h1, h2⟩ := h
    subst h2
    exact ⟨rfl, h1.symm⟩

/-- a rejection names a check of the table that fails -/
theorem reject_inv {c : Config} {roots : List Bytes} {r : Req} {k : Check}
    (h : admission c roots r = .reject k) : k ∈ checks ∧ k.fails c roots r = true := by
  unfold admission at h
  cases hf : checks.find? (·.fails c roots r) with
  | none => rw [hf] at h; cases h
  | some k' =>
    rw [hf] at h
    cases h
    exact ⟨List.mem_of_find?_eq_some hf, by simpa using List.find?_some hf⟩

theorem validate_isSome (c : Config) (roots : List Bytes) (r : Req) (ch : List Cert) :
    validateChain c roots r = some ch ↔
      (c.start ≤ r.notAfter ∧ r.notAfter < c.limit ∧ r.serverAuth = true ∧ verifiesToRoot roots r = some ch) := by
  unfold validateChain inWindow windowGuards
  simp only [List.all_cons, List.all_nil, Bool.and_true, Bool.not_not]
  by_cases hp : r.parses = true
  · by_cases hs : r.serverAuth = true
    · by_cases h1 : r.notAfter < c.start
      · simp [hp, hs, h1]; omega
      · by_cases h2 : r.notAfter < c.limit
        · simp [hp, hs, h1, h2]; omega
        · simp [hp, hs, h1, h2]
    · simp [hp, hs]
  · have : verifiesToRoot roots r = none := by
      unfold verifiesToRoot; simp [hp]
    simp [hp, this]

/-! ### issuer uploads -/

def addIssuer (acc : List Bytes) (i : Bytes) : List Bytes := if i ∈ acc then acc else acc ++ [i]

theorem foldl_addIssuer (l : List Bytes) : ∀ acc : List Bytes,
    (∀ x ∈ acc, x ∈ l.foldl addIssuer acc) ∧ (∀ x ∈ l, x ∈ l.foldl addIssuer acc) := by
  induction l with
  | nil => intro acc; simp
  | cons i rest ih =>
    intro acc
    simp only [List.foldl_cons, List.mem_cons]
    obtain ⟨h1, h2⟩ := ih (addIssuer acc i)
    have hsub : ∀ x ∈ acc, x ∈ addIssuer acc i := by
      intro x hx; unfold addIssuer; split
      · exact hx
      · exact List.mem_append_left _ hx
    have hi : i ∈ addIssuer acc i := by
      unfold addIssuer; split
      · assumption
      · simp
    refine ⟨fun x hx => h1 x (hsub x hx), ?_⟩
    rintro x (rfl | hx)
    · exact h1 _ hi
    · exact h2 x hx

theorem uploadIssuers_issuers (s : State) (e : Pending) :
    (uploadIssuers s e).issuers = e.issuers.foldl addIssuer s.issuers := rfl

theorem uploadIssuers_mono (s : State) (e : Pending) : ∀ x ∈ s.issuers, x ∈ (uploadIssuers s e).issuers :=
  (foldl_addIssuer e.issuers s.issuers).1

theorem uploadIssuers_has (s : State) (e : Pending) : ∀ x ∈ e.issuers, x ∈ (uploadIssuers s e).issuers :=
  (foldl_addIssuer e.issuers s.issuers).2

theorem uploadIssuers_pool (s : State) (e : Pending) : (uploadIssuers s e).pool = s.pool := rfl
theorem uploadIssuers_roots (s : State) (e : Pending) : (uploadIssuers s e).roots = s.roots := rfl

theorem enterPool_issuers (s : State) (e : Pending) : (enterPool s e).issuers = s.issuers := by
  unfold enterPool; split <;> rfl
theorem enterPool_roots (s : State) (e : Pending) : (enterPool s e).roots = s.roots := by
  unfold enterPool; split <;> rfl
theorem enterPool_mem (s : State) (e x : Pending) (h : x ∈ (enterPool s e).pool) : x ∈ s.pool ∨ x = e := by
  unfold enterPool at h
  split at h
  · exact Or.inl h
  · simp only [List.mem_append, List.mem_singleton] at h; exact h

/-! ### the root pool -/

theorem mem_dedup (l : List Bytes) (x : Bytes) : x ∈ dedup l ↔ x ∈ l := by
  induction l with
  | nil => simp [dedup]
  | cons y ys ih =>
    unfold dedup
    split
    · rename_i hy
      simp only [List.mem_cons, ih]
      constructor
      · exact Or.inr
      · rintro (rfl | h)
        · exact ih.1 hy
        · exact h
    · simp only [List.mem_cons, ih]

theorem nodup_dedup (l : List Bytes) : (dedup l).Nodup := by
  induction l with
  | nil => simp [dedup]
  | cons y ys ih =>
    unfold dedup
    split
    · exact ih
    · rename_i hy
      exact List.nodup_cons.2 ⟨hy, ih⟩

theorem mem_poolOrder (l : List Bytes) (x : Bytes) : x ∈ poolOrder l ↔ x ∈ l := by
  unfold poolOrder; simp [mem_dedup]

theorem nodup_poolOrder (l : List Bytes) : (poolOrder l).Nodup := by
  unfold poolOrder
  have h := nodup_dedup l.reverse
  unfold List.Nodup at *
  rw [List.pairwise_reverse]
  exact h.imp (fun hab => fun hba => hab hba.symm)

theorem handle_roots (c : Config) (s : State) (r : Req) (w : Wait) : (handle c s r w).1.roots = s.roots := by
  unfold handle
  cases r.method <;> simp only
  cases admission c s.roots r with
  | reject k => rfl
  | admit e ch =>
    cases w <;> simp only [enterPool_roots, uploadIssuers_roots]

end Submit
