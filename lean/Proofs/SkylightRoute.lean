import Model.Skylight
import Proofs.TilePath
/-! Lemmas for C19 (`Props/C19.lean`): net/http path cleaning on segment lists, the router only
re-assembles request segments, and the segment structure of layout paths. -/
namespace Skylight.Route
open TilePath

/-- a path segment that survives `path.Clean`: not empty, not `.`, not `..` -/
def Normal (s : Bytes) : Prop := s ≠ [] ∧ s ≠ dot ∧ s ≠ dotdot

instance (s : Bytes) : Decidable (Normal s) := by unfold Normal; exact inferInstance

theorem normal_of_head {c : UInt8} {r : Bytes} (h : c ≠ 46) : Normal (c :: r) := by
  refine ⟨by simp, ?_, ?_⟩ <;> (intro hc; simp [dot, dotdot] at hc; exact h hc.1)

/-! ### cleanSegs -/

theorem cleanStep_inv (ss : List Bytes) (st : List Bytes) (s : Bytes) (hs : s ∈ ss)
    (h : ∀ x ∈ st, Normal x ∧ x ∈ ss) : ∀ x ∈ cleanStep st s, Normal x ∧ x ∈ ss := by
  unfold cleanStep
  split
  · exact h
  · rename_i h1
    split
    · intro x hx
      exact h x (List.mem_of_mem_drop hx)
    · rename_i h2
      intro x hx
      rcases List.mem_cons.mp hx with hx | hx
      · subst hx
        exact ⟨⟨fun hc => h1 (Or.inl hc), fun hc => h1 (Or.inr hc), h2⟩, hs⟩
      · exact h x hx

theorem foldl_cleanStep_inv (all : List Bytes) : ∀ (ss st : List Bytes), (∀ s ∈ ss, s ∈ all) →
    (∀ x ∈ st, Normal x ∧ x ∈ all) → ∀ x ∈ ss.foldl cleanStep st, Normal x ∧ x ∈ all := by
  intro ss
  induction ss with
  | nil => intro st _ h; simpa using h
  | cons a rest ih =>
    intro st hss h
    simp only [List.foldl_cons]
    exact ih _ (fun s hs => hss s (List.mem_cons_of_mem _ hs))
      (cleanStep_inv all st a (hss a (by simp)) h)

/-- every segment of a cleaned path is normal and is one of the segments of the request path -/
theorem cleanSegs_normal (ss : List Bytes) : ∀ x ∈ cleanSegs ss, Normal x ∧ x ∈ ss := by
  intro x hx
  unfold cleanSegs at hx
  exact foldl_cleanStep_inv ss ss [] (fun s hs => hs) (by simp) x (List.mem_reverse.mp hx)

theorem foldl_cleanStep_id : ∀ (ss st : List Bytes), (∀ s ∈ ss, Normal s) →
    ss.foldl cleanStep st = ss.reverse ++ st := by
  intro ss
  induction ss with
  | nil => intro st _; rfl
  | cons a rest ih =>
    intro st h
    have ha := h a (by simp)
    have : cleanStep st a = a :: st := by
      unfold cleanStep
      rw [if_neg (by intro hc; rcases hc with hc | hc; exact ha.1 hc; exact ha.2.1 hc), if_neg ha.2.2]
    simp only [List.foldl_cons, this]
    rw [ih _ (fun s hs => h s (List.mem_cons_of_mem _ hs))]
    simp

/-- a list of normal segments is left alone -/
theorem cleanSegs_id (ss : List Bytes) (h : ∀ s ∈ ss, Normal s) : cleanSegs ss = ss := by
  unfold cleanSegs
  rw [foldl_cleanStep_id ss [] h]
  simp

/-! ### split / join -/

theorem split_mem_noslash : ∀ (q : Bytes), ∀ s ∈ split 47 q, (47 : UInt8) ∉ s := by
  intro q
  induction q with
  | nil => intro s hs; simp [split] at hs; subst hs; simp
  | cons b bs ih =>
    intro s hs
    simp only [split] at hs
    split at hs
    · rcases List.mem_cons.mp hs with h | h
      · subst h; simp
      · exact ih s h
    · rename_i hb
      split at hs
      · simp at hs; subst hs
        intro hm
        simp at hm
        exact hb hm.symm
      · rename_i x xs hx
        rcases List.mem_cons.mp hs with h | h
        · subst h
          intro hm
          rcases List.mem_cons.mp hm with h1 | h1
          · exact hb h1.symm
          · exact ih x (by rw [hx]; simp) h1
        · exact ih s (by rw [hx]; simp [h])

theorem split_relPath : ∀ (S : List Bytes), S ≠ [] → (∀ s ∈ S, (47 : UInt8) ∉ s) → split 47 (relPath S) = S := by
  intro S
  induction S with
  | nil => intro h; exact absurd rfl h
  | cons a rest ih =>
    intro _ hs
    cases rest with
    | nil => simp only [relPath]; exact split_noslash a (hs a (by simp))
    | cons b r =>
      simp only [relPath]
      rw [split_cons_noslash a _ (hs a (by simp))]
      rw [ih (by simp) (fun s h => hs s (List.mem_cons_of_mem _ h))]

theorem joinSegs_cons_relPath : ∀ (S : List Bytes), S ≠ [] → joinSegs S = 47 :: relPath S := by
  intro S
  induction S with
  | nil => intro h; exact absurd rfl h
  | cons a rest ih =>
    intro _
    cases rest with
    | nil => simp [joinSegs, relPath]
    | cons b r =>
      have h2 := ih (by simp)
      simp only [joinSegs] at h2
      simp only [joinSegs, relPath]
      rw [h2]
      simp

theorem getLast?_append_ne {α : Type} (a b : List α) (h : b ≠ []) : (a ++ b).getLast? = b.getLast? := by
  rw [List.getLast?_append]
  cases b with
  | nil => exact absurd rfl h
  | cons x xs =>
    cases hg : (x :: xs).getLast? with
    | none => simp at hg
    | some v => rfl

theorem getLast_joinSegs : ∀ (S : List Bytes), S ≠ [] → (∀ s ∈ S, s ≠ [] ∧ (47 : UInt8) ∉ s) →
    (joinSegs S).getLast? ≠ some 47 := by
  intro S
  induction S with
  | nil => intro h; exact absurd rfl h
  | cons a rest ih =>
    intro _ hs
    cases rest with
    | nil =>
      obtain ⟨hne, hns⟩ := hs a (by simp)
      simp only [joinSegs, List.append_nil]
      intro hc
      have : (47 :: a).getLast? = a.getLast? := by
        cases a with
        | nil => exact absurd rfl hne
        | cons x xs => simp [List.getLast?_cons_cons]
      rw [this] at hc
      exact hns (List.mem_of_getLast? hc)
    | cons b r =>
      have hrec := ih (by simp) (fun s h => hs s (List.mem_cons_of_mem _ h))
      simp only [joinSegs] at hrec ⊢
      intro hc
      apply hrec
      have hne : (47 :: b ++ joinSegs r) ≠ [] := by simp
      rw [show (47 :: a ++ (47 :: b ++ joinSegs r)) = (47 :: a) ++ (47 :: b ++ joinSegs r) by simp] at hc
      rw [getLast?_append_ne _ _ hne] at hc
      exact hc

/-- the canonical spelling of a list of normal, slash-free segments is a fixed point of `cleanPath` -/
theorem cleanParts_joinSegs (S : List Bytes) (hne : S ≠ []) (hs : ∀ s ∈ S, Normal s ∧ (47 : UInt8) ∉ s) :
    cleanParts (joinSegs S) = (S, false) := by
  have hj := joinSegs_cons_relPath S hne
  unfold cleanParts
  rw [hj]
  simp only
  rw [split_relPath S hne (fun s h => (hs s h).2), cleanSegs_id S (fun s h => (hs s h).1)]
  have hl : (47 :: relPath S).getLast? ≠ some 47 := by
    rw [← hj]; exact getLast_joinSegs S hne (fun s h => ⟨(hs s h).1.1, (hs s h).2⟩)
  cases hg : (47 :: relPath S).getLast? with
  | none => simp
  | some c =>
    have : c ≠ 47 := fun hc => hl (by rw [hg, hc])
    simp [this]

theorem cleanPath_joinSegs (S : List Bytes) (hne : S ≠ []) (hs : ∀ s ∈ S, Normal s ∧ (47 : UInt8) ∉ s) :
    cleanPath (joinSegs S) = joinSegs S := by
  unfold cleanPath
  rw [cleanParts_joinSegs S hne hs]
  unfold render
  cases S with
  | nil => exact absurd rfl hne
  | cons a r => simp

/-- segments of the cleaned request path are normal and contain no slash -/
theorem cleanParts_normal (p : Bytes) : ∀ s ∈ (cleanParts p).1, Normal s ∧ (47 : UInt8) ∉ s := by
  intro s hs
  unfold cleanParts at hs
  simp only at hs
  obtain ⟨hn, hm⟩ := cleanSegs_normal _ s hs
  exact ⟨hn, split_mem_noslash _ s hm⟩

/-! ### the router only re-assembles request segments -/

theorem logMux_file {home : Bool} {root root' : RootId} {fp R rel : List Bytes} {tr tr' : Bool} {k : Kind} {h : Hdrs}
    (hf : logMux home root fp R tr = .file root' rel tr' k h) : root' = root ∧ rel = fp ++ R := by
  unfold logMux at hf
  split at hf
  · split at hf <;> cases hf
  · rename_i c
    split at hf
    · cases hf; exact ⟨rfl, rfl⟩
    · split at hf
      · cases hf; exact ⟨rfl, rfl⟩
      · split at hf <;> cases hf
  · rename_i i x
    split at hf
    · cases hf; exact ⟨rfl, rfl⟩
    · split at hf
      · cases hf; exact ⟨rfl, rfl⟩
      · cases hf
  · rename_i t rest tr0 _ _ _
    split at hf
    · cases hf; exact ⟨rfl, rfl⟩
    · cases hf

theorem witnessRoute_file {home : Bool} {j : Nat} {R rel : List Bytes} {tr tr' : Bool} {root : RootId} {k : Kind} {h : Hdrs}
    (hf : witnessRoute home j R tr = some (.file root rel tr' k h)) : root = .wit j ∧ rel = R := by
  unfold witnessRoute at hf
  split at hf
  · cases hf
  · rename_i w
    split at hf
    · simp only [Option.some.injEq] at hf; cases hf; exact ⟨rfl, rfl⟩
    · simp only [Option.some.injEq] at hf; cases hf
  · rename_i m x
    split at hf
    · split at hf
      · simp only [Option.some.injEq] at hf; cases hf; exact ⟨rfl, rfl⟩
      · simp only [Option.some.injEq] at hf; cases hf
    · simp only [Option.some.injEq] at hf
      obtain ⟨h1, h2⟩ := logMux_file hf
      exact ⟨h1, by rw [h2]; rfl⟩
  · rename_i m o R' tr0 _ _
    split at hf
    · simp only [Option.some.injEq] at hf
      obtain ⟨h1, h2⟩ := logMux_file hf
      exact ⟨h1, by rw [h2]; rfl⟩
    · simp only [Option.some.injEq] at hf
      obtain ⟨h1, h2⟩ := logMux_file hf
      exact ⟨h1, by rw [h2]; rfl⟩
  · rename_i o
    simp only [Option.some.injEq] at hf
    obtain ⟨h1, h2⟩ := logMux_file hf
    exact ⟨h1, by rw [h2]; rfl⟩

theorem hostless_not_file {home : Bool} {S : List Bytes} {tr tr' : Bool} {root : RootId} {rel : List Bytes} {k : Kind} {h : Hdrs} :
    hostless home S tr ≠ .file root rel tr' k h := by
  unfold hostless
  intro hf
  split at hf
  · split at hf <;> cases hf
  · split at hf
    · cases hf
    · split at hf
      · cases hf
      · split at hf <;> cases hf
  · cases hf

theorem findEntry_some {host : Bytes} {S : List Bytes} : ∀ {es : List Entry} {i0 i : Nat} {e : Entry},
    findEntry host S es i0 = some (i, e) → i0 ≤ i ∧ es[i - i0]? = some e ∧ e.host = host ∧ isPrefix e.pfx S = true := by
  intro es
  induction es with
  | nil => intro i0 i e h; simp [findEntry] at h
  | cons a rest ih =>
    intro i0 i e h
    simp only [findEntry] at h
    split at h
    · rename_i hc
      simp only [Option.some.injEq, Prod.mk.injEq] at h
      obtain ⟨h1, h2⟩ := h
      subst h1 h2
      simp only [Bool.and_eq_true, beq_iff_eq] at hc
      exact ⟨Nat.le_refl _, by simp, hc.1, hc.2⟩
    · obtain ⟨h1, h2, h3, h4⟩ := ih h
      refine ⟨by omega, ?_, h3, h4⟩
      have : i - i0 = (i - (i0 + 1)) + 1 := by omega
      rw [this]
      simpa using h2

/-- **what a served file is named after.** If a request is handed to a file server, the path was
clean, an entry with that host and a prefix of the path was selected, and the file name is made of
exactly the remaining segments of the request path. -/
theorem route_file {c : Cfg} {host p : Bytes} {root : RootId} {rel : List Bytes} {tr : Bool} {k : Kind} {h : Hdrs}
    (hf : route c host p = .file root rel tr k h) :
    cleanPath p = p ∧ ∃ e : Entry,
      ((∃ i, root = .log i ∧ c.logs[i]? = some e) ∨ (∃ j, root = .wit j ∧ c.wits[j]? = some e)) ∧
      e.host = host ∧ isPrefix e.pfx (cleanParts p).1 = true ∧ rel = (cleanParts p).1.drop e.pfx.length := by
  unfold route at hf
  split at hf
  · cases hf
  · rename_i hclean
    refine ⟨by simpa using hclean, ?_⟩
    unfold routeSegs at hf
    split at hf
    · rename_i i e hfe
      obtain ⟨_, hidx, hhost, hpre⟩ := findEntry_some hfe
      simp only at hf
      split at hf
      · cases hf
      · obtain ⟨h1, h2⟩ := logMux_file hf
        exact ⟨e, Or.inl ⟨i, h1, by simpa using hidx⟩, hhost, hpre, by simpa using h2⟩
    · split at hf
      · rename_i j e hfe
        obtain ⟨_, hidx, hhost, hpre⟩ := findEntry_some hfe
        split at hf
        · rename_i o ho
          rw [hf] at ho
          obtain ⟨h1, h2⟩ := witnessRoute_file ho
          exact ⟨e, Or.inr ⟨j, h1, by simpa using hidx⟩, hhost, hpre, h2⟩
        · exact absurd hf hostless_not_file
      · exact absurd hf hostless_not_file

/-! ### segment structure of tile paths -/

theorem fmtNat_chars (n : Nat) : ∀ b ∈ fmtNat n, isDigit b = true := by
  intro b hb
  exact List.all_eq_true.mp (fmtNat_digits n) b hb

theorem fmt03_chars (x : Int) : ∀ b ∈ fmt03 x, isDigit b = true ∨ b = 45 := by
  intro b hb
  unfold fmt03 at hb
  split at hb
  · rcases List.mem_cons.mp hb with h | h
    · exact Or.inr h
    · unfold padLeft at h
      rcases List.mem_append.mp h with h1 | h1
      · have := List.eq_of_mem_replicate h1; subst this; exact Or.inl (by decide)
      · exact Or.inl (fmtNat_chars _ b h1)
  · unfold padLeft at hb
    rcases List.mem_append.mp hb with h1 | h1
    · have := List.eq_of_mem_replicate h1; subst this; exact Or.inl (by decide)
    · exact Or.inl (fmtNat_chars _ b h1)

theorem digitOrMinus_ne {b : UInt8} (h : isDigit b = true ∨ b = 45) : b ≠ 47 ∧ b ≠ 46 := by
  rcases h with h | h
  · exact ⟨(isDigit_ne h).2.2.1, (isDigit_ne h).2.2.2.1⟩
  · subst h; decide

theorem fmt03_ne_nil (x : Int) : fmt03 x ≠ [] := by
  unfold fmt03
  split
  · simp
  · unfold padLeft
    intro hc
    have := List.append_eq_nil_iff.mp hc
    exact fmtNat_ne_nil _ this.2

/-- a segment made of digits / '-' (optionally behind an `x`, optionally followed by `.p`) is normal and has no slash -/
theorem seg_ok (pre : Bytes) (body suf : Bytes) (hpre : pre = [] ∨ pre = [120]) (hb : ∀ b ∈ body, isDigit b = true ∨ b = 45)
    (hne : body ≠ []) (hsuf : suf = [] ∨ suf = ascii ".p") : Normal (pre ++ body ++ suf) ∧ (47 : UInt8) ∉ (pre ++ body ++ suf) := by
  constructor
  · cases body with
    | nil => exact absurd rfl hne
    | cons c r =>
      have hc := (digitOrMinus_ne (hb c (by simp))).2
      rcases hpre with h | h <;> subst h
      · exact normal_of_head (r := r ++ suf) hc
      · exact normal_of_head (c := 120) (r := (c :: r) ++ suf) (by decide)
  · intro hm
    rcases List.mem_append.mp hm with h | h
    · rcases List.mem_append.mp h with h1 | h1
      · rcases hpre with hp | hp <;> subst hp <;> simp at h1
      · exact (digitOrMinus_ne (hb _ h1)).1 rfl
    · rcases hsuf with hs | hs <;> subst hs
      · simp at h
      · exact absurd h (by decide)

/-- the `x…` groups that `Tile.Path` puts in front: each is `x` followed by three digits -/
theorem nStrLoop_groups (fuel : Nat) : ∀ (n : Int) (acc : Bytes),
    ∃ G : List Bytes, nStrLoop fuel n acc = joinSlash G ++ acc ∧ ∀ g ∈ G, Normal g ∧ (47 : UInt8) ∉ g := by
  induction fuel with
  | zero => intro n acc; exact ⟨[], rfl, by simp⟩
  | succ f ih =>
    intro n acc
    simp only [nStrLoop]
    split
    · obtain ⟨G, hG, hGp⟩ := ih (n / pathBase) (120 :: fmt03 (goMod (n / pathBase) pathBase) ++ 47 :: acc)
      refine ⟨G ++ [120 :: fmt03 (goMod (n / pathBase) pathBase)], ?_, ?_⟩
      · rw [hG, joinSlash_append]; simp
      · intro g hg
        rcases List.mem_append.mp hg with h | h
        · exact hGp g h
        · simp at h; subst h
          have := seg_ok [120] (fmt03 (goMod (n / pathBase) pathBase)) [] (Or.inr rfl) (fmt03_chars _) (fmt03_ne_nil _) (Or.inl rfl)
          simpa using this
    · exact ⟨[], rfl, by simp⟩

theorem relPath_joinSlash (G tail : List Bytes) (ht : tail ≠ []) : relPath (G ++ tail) = joinSlash G ++ relPath tail := by
  induction G with
  | nil => rfl
  | cons g gs ih =>
    have hne : gs ++ tail ≠ [] := by simp [ht]
    cases hgt : gs ++ tail with
    | nil => exact absurd hgt hne
    | cons x xs =>
      simp only [List.cons_append, hgt, relPath, joinSlash]
      rw [← hgt, ih]
      simp

/-- what follows `tile/<level>/` in a tile path, as segments -/
theorem nwPart_segs (t : Tile) (hW0 : 1 ≤ t.W) (hW1 : t.W ≤ 9223372036854775807) :
    ∃ S : List Bytes, S ≠ [] ∧ nwPart t = relPath S ∧ ∀ s ∈ S, Normal s ∧ (47 : UInt8) ∉ s := by
  obtain ⟨G, hG, hGp⟩ := nStrLoop_groups 7 t.N (fmt03 (goMod t.N 1000))
  have he := seg_ok [] (fmt03 (goMod t.N 1000)) [] (Or.inl rfl) (fmt03_chars _) (fmt03_ne_nil _) (Or.inl rfl)
  have hep := seg_ok [] (fmt03 (goMod t.N 1000)) (ascii ".p") (Or.inl rfl) (fmt03_chars _) (fmt03_ne_nil _) (Or.inr rfl)
  simp only [List.nil_append, List.append_nil] at he hep
  unfold nwPart nStr
  by_cases hw : t.W ≠ 256
  · refine ⟨G ++ [fmt03 (goMod t.N 1000) ++ ascii ".p", fmtInt t.W], by simp, ?_, ?_⟩
    · rw [if_pos hw, hG, relPath_joinSlash _ _ (by simp)]
      simp [relPath]
    · intro s hs
      rcases List.mem_append.mp hs with h | h
      · exact hGp s h
      · simp at h
        rcases h with h | h
        · subst h; exact hep
        · subst h
          have hd := (fmtInt_facts (x := t.W) (by omega) hW1)
          have := seg_ok [] (fmtInt t.W) [] (Or.inl rfl) (fun b hb => Or.inl (List.all_eq_true.mp hd.2.1 b hb)) hd.2.2 (Or.inl rfl)
          simpa using this
  · refine ⟨G ++ [fmt03 (goMod t.N 1000)], by simp, ?_, ?_⟩
    · rw [if_neg hw, hG, relPath_joinSlash _ _ (by simp)]
      simp [relPath]
    · intro s hs
      rcases List.mem_append.mp hs with h | h
      · exact hGp s h
      · simp at h; subst h; exact he

/-- a level directory name: `data`, `names`, `entries`, or the decimal level -/
theorem levelStr_ok (l : Int) (h : -1 ≤ l) (h1 : l ≤ 9223372036854775807) : Normal (levelStr l) ∧ (47 : UInt8) ∉ levelStr l := by
  unfold levelStr
  split
  · exact ⟨by decide, by decide⟩
  · have hd := fmtInt_facts (x := l) (by omega) h1
    have := seg_ok [] (fmtInt l) [] (Or.inl rfl) (fun b hb => Or.inl (List.all_eq_true.mp hd.2.1 b hb)) hd.2.2 (Or.inl rfl)
    simpa using this

/-- a layout path as a request sees it: `tile`, a level name, and at least one coordinate segment -/
def TileSegs (lp : Bytes) (S : List Bytes) : Prop :=
  lp = relPath S ∧ (∃ lv rest, S = ascii "tile" :: lv :: rest ∧ rest ≠ []) ∧ ∀ s ∈ S, Normal s ∧ (47 : UInt8) ∉ s

theorem tileSegs_of (lvl : Bytes) (hl : Normal lvl ∧ (47 : UInt8) ∉ lvl) (t : Tile) (hW0 : 1 ≤ t.W) (hW1 : t.W ≤ 9223372036854775807) :
    ∃ S, TileSegs (ascii "tile/" ++ (lvl ++ 47 :: nwPart t)) S := by
  obtain ⟨X, hne, hX, hXp⟩ := nwPart_segs t hW0 hW1
  refine ⟨ascii "tile" :: lvl :: X, ?_, ⟨lvl, X, rfl, hne⟩, ?_⟩
  · cases X with
    | nil => exact absurd rfl hne
    | cons x xs =>
      rw [hX]
      have : ascii "tile/" = ascii "tile" ++ [47] := by decide
      simp [relPath, this]
  · intro s hs
    rcases List.mem_cons.mp hs with h | h
    · subst h; exact ⟨by decide, by decide⟩
    · rcases List.mem_cons.mp h with h | h
      · subst h; exact hl
      · exact hXp s h

/-- `sunlight.TilePath` of a tile of the domain, as segments -/
theorem sunlightPath_segs (t : Tile) (h : TileDom t) : ∃ lp S, sunlightPath t = some lp ∧ TileSegs lp S := by
  obtain ⟨hH, hL0, hL1, hN0, hN1, hW0, hW1⟩ := h
  unfold sunlightPath
  rw [if_neg (by simp [tileHeight, hH])]
  by_cases hn : t.L = -2
  · rw [if_pos hn]
    have hp := tlogPath_prefix_data { t with L := -1 } hH rfl
    rw [hp, trimPrefix_append]
    obtain ⟨S, hS⟩ := tileSegs_of (ascii "names") ⟨by decide, by decide⟩ t hW0 (by omega)
    refine ⟨_, S, rfl, ?_⟩
    have e1 : ascii "tile/names/" = ascii "tile/" ++ (ascii "names" ++ [47]) := by decide
    have e2 : nwPart { t with L := -1 } = nwPart t := rfl
    rw [e1, e2]
    simpa using hS
  · rw [if_neg hn]
    rw [tlogPath_prefix t hH, trimPrefix_append]
    obtain ⟨S, hS⟩ := tileSegs_of (levelStr t.L) (levelStr_ok t.L (by omega) hL1) t hW0 (by omega)
    exact ⟨_, S, rfl, hS⟩

/-- `torchwood.TilePath` (mirror directories): `tile/entries/…` for level −1 -/
theorem torchwoodPath_segs (t : Tile) (hH : t.H = 8) (hL0 : -1 ≤ t.L) (hL1 : t.L ≤ 9223372036854775807)
    (hW0 : 1 ≤ t.W) (hW1 : t.W ≤ 256) : ∃ lp S, torchwoodPath t = some lp ∧ TileSegs lp S := by
  unfold torchwoodPath
  rw [if_neg (by simp [tileHeight, hH])]
  by_cases hn : t.L = -1
  · rw [if_pos hn, tlogPath_prefix_data t hH hn, trimPrefix_append]
    obtain ⟨S, hS⟩ := tileSegs_of (ascii "entries") ⟨by decide, by decide⟩ t hW0 (by omega)
    refine ⟨_, S, rfl, ?_⟩
    have e1 : ascii "tile/entries/" = ascii "tile/" ++ (ascii "entries" ++ [47]) := by decide
    rw [e1]
    simpa using hS
  · rw [if_neg hn, tlogPath_prefix t hH, trimPrefix_append]
    obtain ⟨S, hS⟩ := tileSegs_of (levelStr t.L) (levelStr_ok t.L hL0 hL1) t hW0 (by omega)
    exact ⟨_, S, rfl, hS⟩

/-! ### canonical requests -/

theorem isPrefix_append (a b : List Bytes) : isPrefix a (a ++ b) = true := by
  induction a with
  | nil => rfl
  | cons x xs ih => simp [isPrefix, ih]

/-- the entry at position `i` is the one selected if no earlier entry of the list has the same host and
a prefix of the path (in particular when the (host, prefix) pairs are prefix-free) -/
theorem findEntry_first {host : Bytes} {S : List Bytes} : ∀ (es : List Entry) (i0 i : Nat) (e : Entry),
    es[i]? = some e → e.host = host → isPrefix e.pfx S = true →
    (∀ j e', j < i → es[j]? = some e' → ¬ (e'.host = host ∧ isPrefix e'.pfx S = true)) →
    findEntry host S es i0 = some (i0 + i, e) := by
  intro es
  induction es with
  | nil => intro i0 i e h; simp at h
  | cons a rest ih =>
    intro i0 i e hi hh hp hno
    cases i with
    | zero =>
      simp only [List.getElem?_cons_zero, Option.some.injEq] at hi
      subst hi
      simp [findEntry, hh, hp]
    | succ n =>
      have ha := hno 0 a (by omega) (by simp)
      have : (a.host == host && isPrefix a.pfx S) = false := by
        cases hc : (a.host == host && isPrefix a.pfx S) with
        | false => rfl
        | true =>
          simp only [Bool.and_eq_true, beq_iff_eq] at hc
          exact absurd hc ha
      simp only [findEntry, this]
      have hrec := ih (i0 + 1) n e (by simpa using hi) hh hp
        (fun j e' hj hje => hno (j + 1) e' (by omega) (by simpa using hje))
      rw [hrec]
      have : i0 + 1 + n = i0 + (n + 1) := by omega
      rw [this]
      simp

/-- a canonically spelled request for `prefix ++ X` on a log entry reaches `logMux` with `X` -/
theorem route_log_layout (c : Cfg) (i : Nat) (e : Entry) (X : List Bytes) (hX : X ≠ [])
    (hs : ∀ s ∈ e.pfx ++ X, Normal s ∧ (47 : UInt8) ∉ s)
    (hsel : findEntry e.host (e.pfx ++ X) c.logs 0 = some (i, e)) :
    route c e.host (joinSegs (e.pfx ++ X)) = logMux c.home (.log i) [] X false := by
  have hne : e.pfx ++ X ≠ [] := by simp [hX]
  unfold route
  rw [cleanPath_joinSegs _ hne hs, if_neg (by simp), cleanParts_joinSegs _ hne hs]
  unfold routeSegs
  simp only [hsel, List.drop_left']
  have : X.isEmpty = false := by cases X with | nil => exact absurd rfl hX | cons _ _ => rfl
  simp [this]

/-- the same for a witness entry (no log entry claims the host and path) -/
theorem route_wit_layout (c : Cfg) (j : Nat) (e : Entry) (X : List Bytes) (hX : X ≠ [])
    (hs : ∀ s ∈ e.pfx ++ X, Normal s ∧ (47 : UInt8) ∉ s)
    (hnolog : findEntry e.host (e.pfx ++ X) c.logs 0 = none)
    (hsel : findEntry e.host (e.pfx ++ X) c.wits 0 = some (j, e)) (o : Outcome)
    (ho : witnessRoute c.home j X false = some o) :
    route c e.host (joinSegs (e.pfx ++ X)) = o := by
  have hne : e.pfx ++ X ≠ [] := by simp [hX]
  unfold route
  rw [cleanPath_joinSegs _ hne hs, if_neg (by simp), cleanParts_joinSegs _ hne hs]
  unfold routeSegs
  simp only [hnolog, hsel, List.drop_left', ho]

/-- `logMux` on the segments of a tile path -/
theorem logMux_tile (home : Bool) (root : RootId) (fp : List Bytes) (lp : Bytes) (S : List Bytes) (hS : TileSegs lp S) :
    logMux home root fp S false = .file root (fp ++ S) false (tileHeaders (tileOf lp)).1 (tileHeaders (tileOf lp)).2 := by
  obtain ⟨hlp, ⟨lv, rest, hSeq, hrest⟩, _⟩ := hS
  subst hSeq
  cases rest with
  | nil => exact absurd rfl hrest
  | cons r0 rs =>
    simp only [logMux, hlp]
    simp

theorem tileOf_sunlight (t : Tile) (h : TileDom t) (lp : Bytes) (hp : sunlightPath t = some lp) : tileOf lp = t := by
  obtain ⟨p, h1, h2⟩ := sunlight_roundtrip t h
  rw [hp] at h1
  cases h1
  unfold tileOf
  rw [h2]

/-- the header table of the tile handler -/
theorem tileHeaders_table (t : Tile) :
    ((tileHeaders t).2.gzip = true ↔ (t.L = -1 ∨ t.L = -2)) ∧
    (tileHeaders t).2.cache = immutableCC ∧
    ((tileHeaders t).2.ctype = (if t.L = -2 then "application/jsonl; charset=utf-8" else "application/octet-stream")) ∧
    ((tileHeaders t).1 = .names ↔ t.L = -2) ∧
    (((tileHeaders t).1 = .data ∨ (tileHeaders t).1 = .partialData) ↔ t.L = -1) := by
  unfold tileHeaders
  by_cases h1 : t.L = -1
  · have h2 : ¬ t.L = -2 := by omega
    simp only [h1, if_true]
    by_cases hw : t.W < 256 <;> simp [hw, immutableCC]
  · by_cases h2 : t.L = -2
    · simp [h1, h2]
    · simp [h1, h2]

/-- every (kind, headers) pair the router produces is in the table -/
def InTable (k : Kind) (h : Hdrs) : Prop :=
  (k = .checkpoint ∧ h = checkpointHdrs) ∨ (k = .logJSON ∧ h = jsonHdrs) ∨ (k = .witnessJSON ∧ h = jsonHdrs) ∨
  (k = .mirrorJSON ∧ h = jsonHdrs) ∨ (k = .issuer ∧ h = issuerHdrs) ∨ (∃ t, (k, h) = tileHeaders t)

theorem logMux_table {home : Bool} {root root' : RootId} {fp R rel : List Bytes} {tr tr' : Bool} {k : Kind} {h : Hdrs}
    (hf : logMux home root fp R tr = .file root' rel tr' k h) : InTable k h := by
  unfold logMux at hf
  split at hf
  · split at hf <;> cases hf
  · split at hf
    · cases hf; exact Or.inl ⟨rfl, rfl⟩
    · split at hf
      · cases hf; exact Or.inr (Or.inl ⟨rfl, rfl⟩)
      · split at hf <;> cases hf
  · split at hf
    · cases hf; exact Or.inr (Or.inr (Or.inr (Or.inr (Or.inl ⟨rfl, rfl⟩))))
    · split at hf
      · cases hf; exact Or.inr (Or.inr (Or.inr (Or.inr (Or.inr ⟨_, rfl⟩))))
      · cases hf
  · split at hf
    · cases hf; exact Or.inr (Or.inr (Or.inr (Or.inr (Or.inr ⟨_, rfl⟩))))
    · cases hf

theorem witnessRoute_table {home : Bool} {j : Nat} {R rel : List Bytes} {tr tr' : Bool} {root : RootId} {k : Kind} {h : Hdrs}
    (hf : witnessRoute home j R tr = some (.file root rel tr' k h)) : InTable k h := by
  unfold witnessRoute at hf
  split at hf
  · cases hf
  · split at hf
    · simp only [Option.some.injEq] at hf; cases hf; exact Or.inr (Or.inr (Or.inl ⟨rfl, rfl⟩))
    · simp only [Option.some.injEq] at hf; cases hf
  · split at hf
    · split at hf
      · simp only [Option.some.injEq] at hf; cases hf; exact Or.inr (Or.inr (Or.inr (Or.inl ⟨rfl, rfl⟩)))
      · simp only [Option.some.injEq] at hf; cases hf
    · simp only [Option.some.injEq] at hf; exact logMux_table hf
  · split at hf
    · simp only [Option.some.injEq] at hf; exact logMux_table hf
    · simp only [Option.some.injEq] at hf; exact logMux_table hf
  · simp only [Option.some.injEq] at hf; exact logMux_table hf

theorem route_table {c : Cfg} {host p : Bytes} {root : RootId} {rel : List Bytes} {tr : Bool} {k : Kind} {h : Hdrs}
    (hf : route c host p = .file root rel tr k h) : InTable k h := by
  unfold route at hf
  split at hf
  · cases hf
  · unfold routeSegs at hf
    split at hf
    · simp only at hf
      split at hf
      · cases hf
      · exact logMux_table hf
    · split at hf
      · split at hf
        · rename_i o ho
          rw [hf] at ho
          exact witnessRoute_table ho
        · exact absurd hf hostless_not_file
      · exact absurd hf hostless_not_file

/-! ### entry bundles of a mirror: parsed by the torchwood fallback -/

theorem sunlightParse_entries (x : Bytes) : sunlightParse (ascii "tile/entries/" ++ x) = none := by
  have e1 : ascii "tile/entries/" ++ x = ascii "tile/" ++ (101 :: (ascii "ntries/" ++ x)) := by
    have : ascii "tile/entries/" = ascii "tile/" ++ (101 :: ascii "ntries/") := by decide
    rw [this]; simp
  unfold sunlightParse
  rw [e1, not_names_prefix 101 _ (by decide)]
  simp only
  rw [cutPrefix_append]
  simp only
  -- tlog.ParseTilePath("tile/8/entries/…"): the level element is not a number
  have hs : split 47 (ascii "tile/8/" ++ (101 :: (ascii "ntries/" ++ x))) = ascii "tile" :: ascii "8" :: ascii "entries" :: split 47 x := by
    have : ascii "tile/8/" ++ (101 :: (ascii "ntries/" ++ x)) = ascii "tile" ++ 47 :: (ascii "8" ++ 47 :: (ascii "entries" ++ 47 :: x)) := by
      have h1 : ascii "tile/8/" = ascii "tile" ++ 47 :: (ascii "8" ++ [47]) := by decide
      have h2 : (101 :: (ascii "ntries/" ++ x)) = ascii "entries" ++ 47 :: x := by
        have : (101 : UInt8) :: ascii "ntries/" = ascii "entries" ++ [47] := by decide
        rw [← List.cons_append, this]; simp
      rw [h1, h2]; simp
    rw [this, split_cons_noslash _ _ (by decide), split_cons_noslash _ _ (by decide), split_cons_noslash _ _ (by decide)]
  have hne : ascii "entries" ≠ ascii "data" := by decide
  have hat : atoi (ascii "entries") = none := by decide
  have hpre : tlogParsePrelim (ascii "tile/8/" ++ (101 :: (ascii "ntries/" ++ x))) = none := by
    unfold tlogParsePrelim
    simp only [hs]
    split
    · rfl
    · simp only [List.getD_cons_succ, List.getD_cons_zero, hne, if_false, hat, atoi_8]
  unfold tlogParse
  rw [hpre]

theorem tileOf_entries (t : Tile) (hH : t.H = 8) (hL : t.L = -1) (hW0 : 1 ≤ t.W) (hW1 : t.W ≤ 256)
    (hN0 : 0 ≤ t.N) (hN1 : t.N ≤ 9223372036854775807) (lp : Bytes) (hp : torchwoodPath t = some lp) : tileOf lp = t := by
  unfold torchwoodPath at hp
  rw [if_neg (by simp [tileHeight, hH]), if_pos hL, tlogPath_prefix_data t hH hL, trimPrefix_append] at hp
  simp only [Option.some.injEq] at hp
  subst hp
  unfold tileOf
  rw [sunlightParse_entries]
  simp only
  unfold torchwoodParse parseWith
  rw [cutPrefix_append]
  simp only
  rw [← tlogPath_prefix_data t hH hL, tlogParse_path t hH (by omega) (by omega) hW0 hW1 hN0 hN1]

/-- a hash tile has the same path under both schemes -/
theorem torchwoodPath_hash (t : Tile) (hL : 0 ≤ t.L) : torchwoodPath t = sunlightPath t := by
  unfold torchwoodPath sunlightPath
  split
  · rfl
  · rw [if_neg (by omega), if_neg (by omega)]

end Skylight.Route
