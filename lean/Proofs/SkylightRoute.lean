import Model.Skylight
import Proofs.TilePath
/-! Lemmas for C19 (`Props/C19.lean`): net/http path cleaning on segment lists, the router only
re-assembles request segments, and the segment structure of layout paths. -/
namespace Skylight.Route
open TilePath

/-- a path segment that survives `path.Clean`: not empty, not `.`, not `..` -/
def Normal (s : Bytes) : Prop := s ≠ [] ∧ s ≠ dot ∧ s ≠ dotdot

instance (s : Bytes) : Decidable (Normal s) := by unfold Normal; exact inferInstance

theorem normal_of_head {c : UInt8} {r : Bytes} (h : c ≠ 46) : Normal (c :: r) := by
  refine ⟨by simp, ?_, ?_⟩ <;> (intro hc; simp [dot, dotdot] at hc; exact h hc.1)

/-! ### cleanSegs -/

theorem cleanStep_inv (ss : List Bytes) (st : List Bytes) (s : Bytes) (hs : s ∈ ss)
    (h : ∀ x ∈ st, Normal x ∧ x ∈ ss) : ∀ x ∈ cleanStep st s, Normal x ∧ x ∈ ss := by
  unfold cleanStep
  split
  · exact h
  · rename_i h1
    split
    · intro x hx
      exact h x (List.mem_of_mem_drop hx)
    · rename_i h2
      intro x hx
      rcases List.mem_cons.mp hx with hx | hx
      · subst hx
        exact ⟨⟨fun hc => h1 (Or.inl hc), fun hc => h1 (Or.inr hc), h2⟩, hs⟩
      · exact h x hx

theorem foldl_cleanStep_inv (all : List Bytes) : ∀ (ss st : List Bytes), (∀ s ∈ ss, s ∈ all) →
    (∀ x ∈ st, Normal x ∧ x ∈ all) → ∀ x ∈ ss.foldl cleanStep st, Normal x ∧ x ∈ all := by
  intro ss
  induction ss with
  | nil => intro st _ h; simpa using h
  | cons a rest ih =>
    intro st hss h
    simp only [List.foldl_cons]
    exact ih _ (fun s hs => hss s (List.mem_cons_of_mem _ hs))
      (cleanStep_inv all st a (hss a (by simp)) h)

/-- every segment of a cleaned path is normal and is one of the segments of the request path -/
theorem cleanSegs_normal (ss : List Bytes) : ∀ x ∈ cleanSegs ss, Normal x ∧ x ∈ ss := by
  intro x hx
  unfold cleanSegs at hx
  exact foldl_cleanStep_inv ss ss [] (fun s hs => hs) (by simp) x (List.mem_reverse.mp hx)

theorem foldl_cleanStep_id : ∀ (ss st : List Bytes), (∀ s ∈ ss, Normal s) →
    ss.foldl cleanStep st = ss.reverse ++ st := by
  intro ss
  induction ss with
  | nil => intro st _; rfl
  | cons a rest ih =>
    intro st h
    have ha := h a (by simp)
    have : cleanStep st a = a :: st := by
      unfold cleanStep
      rw [if_neg (by intro hc; rcases hc with hc | hc; exact ha.1 hc; exact ha.2.1 hc), if_neg ha.2.2]
    simp only [List.foldl_cons, this]
    rw [ih _ (fun s hs => h s (List.mem_cons_of_mem _ hs))]
    simp

/-- a list of normal segments is left alone -/
theorem cleanSegs_id (ss : List Bytes) (h : ∀ s ∈ ss, Normal s) : cleanSegs ss = ss := by
  unfold cleanSegs
  rw [foldl_cleanStep_id ss [] h]
  simp

/-! ### split / join -/

theorem split_mem_noslash : ∀ (q : Bytes), ∀ s ∈ split 47 q, (47 : UInt8) ∉ s := by
  intro q
  induction q with
  | nil => intro s hs; simp [split] at hs; subst hs; simp
  | cons b bs ih =>
    intro s hs
    simp only [split] at hs
    split at hs
    · rcases List.mem_cons.mp hs with h | h
      · subst h; simp
      · exact ih s h
    · rename_i hb
      split at hs
      · simp at hs; subst hs; simp [hb]
      · rename_i x xs hx
        rcases List.mem_cons.mp hs with h | h
        · subst h
          intro hm
          rcases List.mem_cons.mp hm with h1 | h1
          · exact hb h1.symm
          · exact ih x (by rw [hx]; simp) h1
        · exact ih s (by rw [hx]; simp [h])

theorem split_relPath : ∀ (S : List Bytes), S ≠ [] → (∀ s ∈ S, (47 : UInt8) ∉ s) → split 47 (relPath S) = S := by
  intro S
  induction S with
  | nil => intro h; exact absurd rfl h
  | cons a rest ih =>
    intro _ hs
    cases rest with
    | nil => simp only [relPath]; exact split_noslash a (hs a (by simp))
    | cons b r =>
      simp only [relPath]
      rw [split_cons_noslash a _ (hs a (by simp))]
      rw [ih (by simp) (fun s h => hs s (List.mem_cons_of_mem _ h))]

theorem joinSegs_cons_relPath : ∀ (S : List Bytes), S ≠ [] → joinSegs S = 47 :: relPath S := by
  intro S
  induction S with
  | nil => intro h; exact absurd rfl h
  | cons a rest ih =>
    intro _
    cases rest with
    | nil => simp [joinSegs, relPath]
    | cons b r =>
      simp only [joinSegs, relPath]
      rw [show joinSegs (b :: r) = 47 :: relPath (b :: r) from ih (by simp)]
      simp [joinSegs]

theorem getLast_joinSegs : ∀ (S : List Bytes), S ≠ [] → (∀ s ∈ S, s ≠ [] ∧ (47 : UInt8) ∉ s) →
    (joinSegs S).getLast? ≠ some 47 := by
  intro S
  induction S with
  | nil => intro h; exact absurd rfl h
  | cons a rest ih =>
    intro _ hs
    cases rest with
    | nil =>
      obtain ⟨hne, hns⟩ := hs a (by simp)
      simp only [joinSegs, List.append_nil]
      intro hc
      have : (47 :: a).getLast? = a.getLast? := by
        cases a with
        | nil => exact absurd rfl hne
        | cons x xs => simp [List.getLast?_cons_cons]
      rw [this] at hc
      exact hns (List.mem_of_getLast? hc)
    | cons b r =>
      have hrec := ih (by simp) (fun s h => hs s (List.mem_cons_of_mem _ h))
      simp only [joinSegs] at hrec ⊢
      intro hc
      apply hrec
      have hne : (47 :: b ++ joinSegs r) ≠ [] := by simp
      rw [show (47 :: a ++ (47 :: b ++ joinSegs r)) = (47 :: a) ++ (47 :: b ++ joinSegs r) by simp] at hc
      rw [List.getLast?_append_of_ne_nil _ hne] at hc
      exact hc

/-- the canonical spelling of a list of normal, slash-free segments is a fixed point of `cleanPath` -/
theorem cleanParts_joinSegs (S : List Bytes) (hne : S ≠ []) (hs : ∀ s ∈ S, Normal s ∧ (47 : UInt8) ∉ s) :
    cleanParts (joinSegs S) = (S, false) := by
  have hj := joinSegs_cons_relPath S hne
  unfold cleanParts
  rw [hj]
  simp only
  rw [split_relPath S hne (fun s h => (hs s h).2), cleanSegs_id S (fun s h => (hs s h).1)]
  have hl : (47 :: relPath S).getLast? ≠ some 47 := by
    rw [← hj]; exact getLast_joinSegs S hne (fun s h => ⟨(hs s h).1.1, (hs s h).2⟩)
  cases hg : (47 :: relPath S).getLast? with
  | none => simp
  | some c =>
    have : c ≠ 47 := fun hc => hl (by rw [hg, hc])
    simp [this]

theorem cleanPath_joinSegs (S : List Bytes) (hne : S ≠ []) (hs : ∀ s ∈ S, Normal s ∧ (47 : UInt8) ∉ s) :
    cleanPath (joinSegs S) = joinSegs S := by
  unfold cleanPath
  rw [cleanParts_joinSegs S hne hs]
  unfold render
  cases S with
  | nil => exact absurd rfl hne
  | cons a r => simp

/-- segments of the cleaned request path are normal and contain no slash -/
theorem cleanParts_normal (p : Bytes) : ∀ s ∈ (cleanParts p).1, Normal s ∧ (47 : UInt8) ∉ s := by
  intro s hs
  unfold cleanParts at hs
  simp only at hs
  obtain ⟨hn, hm⟩ := cleanSegs_normal _ s hs
  exact ⟨hn, split_mem_noslash _ s hm⟩

end Skylight.Route
