import Proofs.SeqRecoverDemo
/-! Bricked states of the sequencer model: the checkpoint object is behind the lock checkpoint, the
lock tree's staging bundle is gone, and nobody is running. Every accepted non-tamper step keeps such
a state bricked: no instance ever loads again, whatever is tried (any instance, any fault
outcomes, any interleaving). The counterexample state of `Seq.Cex` (publication regression followed
by a discard) is bricked. Core Lean only. -/
namespace Seq

/-- phases from which, in a bricked state, an instance can only fail -/
def InertPhase (c c1 : Ck) : Phase → Prop
  | .down => True
  | .creating pc => (match pc with
      | .ckptUpload _ => False
      | .rootsUpload => False
      | _ => True)
  | .loading pc => (match pc with
      | .lockFetch => True
      | .failing => True
      | .clock1 c' => c' = c
      | .ckptFetch c' => c' = c
      | .legacy c' => c' = c
      | .stagingFetch c' => c' = c
      | .clock2 c' c1' => c' = c ∧ c1' = c1
      | .apply _ _ _ => False
      | .edge _ _ => False)
  | _ => False

/-- the checkpoint object `c1` is behind the lock checkpoint `c`, the lock tree's bundle is gone, and
    nobody is running -/
structure Bricked (c c1 : Ck) (s : Sys) : Prop where
  lock : s.lock = some c
  ckpt : ∃ imm, s.store .ckpt = some (.ck c1, imm)
  behind : c1.leaves.length < c.leaves.length
  gone : s.store (.staging c.leaves) = none
  inert : ∀ i, InertPhase c c1 (s.insts i).phase

def BrickStep (c c1 : Ck) (s s' : Sys) (i : Nat) : Prop :=
  s'.lock = s.lock ∧ s'.store = s.store ∧ InertPhase c c1 (s'.insts i).phase

macro "brick_brute" h:ident : tactic => `(tactic|
  (simp only [step] at $h:ident <;> (repeat' split at $h:ident) <;>
    (first | cases $h:ident | skip) <;> (try (injection $h:ident with $h:ident; subst $h:ident)) <;>
    simp_all [Sys.setInst, upd, InertPhase, BrickStep, isUp] <;> (try omega)))


theorem brick_launchCreate (s s' : Sys) {cL cK : Ck} {i : _} (hb : Bricked cL cK s)
    (h : step s (.launchCreate i) = some s') : BrickStep cL cK s s' i := by
  have hl := hb.lock
  obtain ⟨imm0, hck⟩ := hb.ckpt
  have hbe := hb.behind
  have hg := hb.gone
  have hi := hb.inert i
  brick_brute h
  all_goals (cases hph : (s.insts i).phase <;> simp_all)
theorem brick_launchLoad (s s' : Sys) {cL cK : Ck} {i : _} (hb : Bricked cL cK s)
    (h : step s (.launchLoad i) = some s') : BrickStep cL cK s s' i := by
  have hl := hb.lock
  obtain ⟨imm0, hck⟩ := hb.ckpt
  have hbe := hb.behind
  have hg := hb.gone
  have hi := hb.inert i
  brick_brute h
  all_goals (cases hph : (s.insts i).phase <;> simp_all)
theorem brick_launchRound (s s' : Sys) {cL cK : Ck} {i : _} (hb : Bricked cL cK s)
    (h : step s (.launchRound i) = some s') : BrickStep cL cK s s' i := by
  have hl := hb.lock
  obtain ⟨imm0, hck⟩ := hb.ckpt
  have hbe := hb.behind
  have hg := hb.gone
  have hi := hb.inert i
  brick_brute h
  all_goals (cases hph : (s.insts i).phase <;> simp_all)
theorem brick_launchSubmit (s s' : Sys) {cL cK : Ck} {i : _} (hb : Bricked cL cK s)
    (h : step s (.launchSubmit i) = some s') : BrickStep cL cK s s' i := by
  have hl := hb.lock
  obtain ⟨imm0, hck⟩ := hb.ckpt
  have hbe := hb.behind
  have hg := hb.gone
  have hi := hb.inert i
  brick_brute h
  all_goals (cases hph : (s.insts i).phase <;> simp_all)
theorem brick_config (s s' : Sys) {cL cK : Ck} {i bad : _} (hb : Bricked cL cK s)
    (h : step s (.config i bad) = some s') : BrickStep cL cK s s' i := by
  have hl := hb.lock
  obtain ⟨imm0, hck⟩ := hb.ckpt
  have hbe := hb.behind
  have hg := hb.gone
  have hi := hb.inert i
  brick_brute h
  all_goals (cases hph : (s.insts i).phase <;> simp_all)
theorem brick_clock (s s' : Sys) {cL cK : Ck} {i v : _} (hb : Bricked cL cK s)
    (h : step s (.clock i v) = some s') : BrickStep cL cK s s' i := by
  have hl := hb.lock
  obtain ⟨imm0, hck⟩ := hb.ckpt
  have hbe := hb.behind
  have hg := hb.gone
  have hi := hb.inert i
  brick_brute h
  all_goals (cases hph : (s.insts i).phase <;> simp_all)
theorem brick_lockFetch (s s' : Sys) {cL cK : Ck} {i r : _} (hb : Bricked cL cK s)
    (h : step s (.lockFetch i r) = some s') : BrickStep cL cK s s' i := by
  have hl := hb.lock
  obtain ⟨imm0, hck⟩ := hb.ckpt
  have hbe := hb.behind
  have hg := hb.gone
  have hi := hb.inert i
  brick_brute h
  all_goals (cases hph : (s.insts i).phase <;> simp_all)
theorem brick_lockCreate (s s' : Sys) {cL cK : Ck} {i c r : _} (hb : Bricked cL cK s)
    (h : step s (.lockCreate i c r) = some s') : BrickStep cL cK s s' i := by
  have hl := hb.lock
  obtain ⟨imm0, hck⟩ := hb.ckpt
  have hbe := hb.behind
  have hg := hb.gone
  have hi := hb.inert i
  brick_brute h
  all_goals (cases hph : (s.insts i).phase <;> simp_all)
theorem brick_lockReplace (s s' : Sys) {cL cK : Ck} {i old new r : _} (hb : Bricked cL cK s)
    (h : step s (.lockReplace i old new r) = some s') : BrickStep cL cK s s' i := by
  have hl := hb.lock
  obtain ⟨imm0, hck⟩ := hb.ckpt
  have hbe := hb.behind
  have hg := hb.gone
  have hi := hb.inert i
  brick_brute h
  all_goals (cases hph : (s.insts i).phase <;> simp_all)
theorem brick_fetch (s s' : Sys) {cL cK : Ck} {i k r : _} (hb : Bricked cL cK s)
    (h : step s (.fetch i k r) = some s') : BrickStep cL cK s s' i := by
  have hl := hb.lock
  obtain ⟨imm0, hck⟩ := hb.ckpt
  have hbe := hb.behind
  have hg := hb.gone
  have hi := hb.inert i
  brick_brute h
  all_goals (cases hph : (s.insts i).phase <;> simp_all)
theorem brick_upload (s s' : Sys) {cL cK : Ck} {i k imm o r : _} (hb : Bricked cL cK s)
    (h : step s (.upload i k imm o r) = some s') : BrickStep cL cK s s' i := by
  have hl := hb.lock
  obtain ⟨imm0, hck⟩ := hb.ckpt
  have hbe := hb.behind
  have hg := hb.gone
  have hi := hb.inert i
  brick_brute h
  all_goals (cases hph : (s.insts i).phase <;> simp_all)
theorem brick_discard (s s' : Sys) {cL cK : Ck} {i k r : _} (hb : Bricked cL cK s)
    (h : step s (.discard i k r) = some s') : BrickStep cL cK s s' i := by
  have hl := hb.lock
  obtain ⟨imm0, hck⟩ := hb.ckpt
  have hbe := hb.behind
  have hg := hb.gone
  have hi := hb.inert i
  brick_brute h
  all_goals (cases hph : (s.insts i).phase <;> simp_all)
theorem brick_submitted (s s' : Sys) {cL cK : Ck} {i eid key low iss src : _} (hb : Bricked cL cK s)
    (h : step s (.submitted i eid key low iss src) = some s') : BrickStep cL cK s s' i := by
  have hl := hb.lock
  obtain ⟨imm0, hck⟩ := hb.ckpt
  have hbe := hb.behind
  have hg := hb.gone
  have hi := hb.inert i
  brick_brute h
  all_goals (cases hph : (s.insts i).phase <;> simp_all)
theorem brick_ack (s s' : Sys) {cL cK : Ck} {i eid key idx ts : _} (hb : Bricked cL cK s)
    (h : step s (.ack i eid key idx ts) = some s') : BrickStep cL cK s s' i := by
  have hl := hb.lock
  obtain ⟨imm0, hck⟩ := hb.ckpt
  have hbe := hb.behind
  have hg := hb.gone
  have hi := hb.inert i
  brick_brute h
  all_goals (cases hph : (s.insts i).phase <;> simp_all)
theorem brick_nackEvicted (s s' : Sys) {cL cK : Ck} {i eid key : _} (hb : Bricked cL cK s)
    (h : step s (.nackEvicted i eid key) = some s') : BrickStep cL cK s s' i := by
  have hl := hb.lock
  obtain ⟨imm0, hck⟩ := hb.ckpt
  have hbe := hb.behind
  have hg := hb.gone
  have hi := hb.inert i
  brick_brute h
  all_goals (cases hph : (s.insts i).phase <;> simp_all)
theorem brick_nack (s s' : Sys) {cL cK : Ck} {i eid imm : _} (hb : Bricked cL cK s)
    (h : step s (.nack i eid imm) = some s') : BrickStep cL cK s s' i := by
  have hl := hb.lock
  obtain ⟨imm0, hck⟩ := hb.ckpt
  have hbe := hb.behind
  have hg := hb.gone
  have hi := hb.inert i
  brick_brute h
  all_goals (cases hph : (s.insts i).phase <;> simp_all)
theorem brick_created (s s' : Sys) {cL cK : Ck} {i : _} (hb : Bricked cL cK s)
    (h : step s (.created i) = some s') : BrickStep cL cK s s' i := by
  have hl := hb.lock
  obtain ⟨imm0, hck⟩ := hb.ckpt
  have hbe := hb.behind
  have hg := hb.gone
  have hi := hb.inert i
  brick_brute h
  all_goals (cases hph : (s.insts i).phase <;> simp_all)
theorem brick_createFail (s s' : Sys) {cL cK : Ck} {i : _} (hb : Bricked cL cK s)
    (h : step s (.createFail i) = some s') : BrickStep cL cK s s' i := by
  have hl := hb.lock
  obtain ⟨imm0, hck⟩ := hb.ckpt
  have hbe := hb.behind
  have hg := hb.gone
  have hi := hb.inert i
  brick_brute h
  all_goals (cases hph : (s.insts i).phase <;> simp_all)
theorem brick_loaded (s s' : Sys) {cL cK : Ck} {i c : _} (hb : Bricked cL cK s)
    (h : step s (.loaded i c) = some s') : BrickStep cL cK s s' i := by
  have hl := hb.lock
  obtain ⟨imm0, hck⟩ := hb.ckpt
  have hbe := hb.behind
  have hg := hb.gone
  have hi := hb.inert i
  brick_brute h
  all_goals (cases hph : (s.insts i).phase <;> simp_all)
theorem brick_loadFail (s s' : Sys) {cL cK : Ck} {i : _} (hb : Bricked cL cK s)
    (h : step s (.loadFail i) = some s') : BrickStep cL cK s s' i := by
  have hl := hb.lock
  obtain ⟨imm0, hck⟩ := hb.ckpt
  have hbe := hb.behind
  have hg := hb.gone
  have hi := hb.inert i
  brick_brute h
  all_goals (cases hph : (s.insts i).phase <;> simp_all)
theorem brick_roundEnd (s s' : Sys) {cL cK : Ck} {i c : _} (hb : Bricked cL cK s)
    (h : step s (.roundEnd i c) = some s') : BrickStep cL cK s s' i := by
  have hl := hb.lock
  obtain ⟨imm0, hck⟩ := hb.ckpt
  have hbe := hb.behind
  have hg := hb.gone
  have hi := hb.inert i
  brick_brute h
  all_goals (cases hph : (s.insts i).phase <;> simp_all)
theorem brick_crash (s s' : Sys) {cL cK : Ck} {i : _} (hb : Bricked cL cK s)
    (h : step s (.crash i) = some s') : BrickStep cL cK s s' i := by
  have hl := hb.lock
  obtain ⟨imm0, hck⟩ := hb.ckpt
  have hbe := hb.behind
  have hg := hb.gone
  have hi := hb.inert i
  brick_brute h
  all_goals (cases hph : (s.insts i).phase <;> simp_all)
theorem brick_cacheLose (s s' : Sys) {cL cK : Ck} {i : _} (hb : Bricked cL cK s)
    (h : step s (.cacheLose i) = some s') : BrickStep cL cK s s' i := by
  have hl := hb.lock
  obtain ⟨imm0, hck⟩ := hb.ckpt
  have hbe := hb.behind
  have hg := hb.gone
  have hi := hb.inert i
  brick_brute h
  all_goals (cases hph : (s.insts i).phase <;> simp_all)

theorem step_brick (s s' : Sys) {cL cK : Ck} (e : Ev) (i : Nat) (he : e.inst = some i) (hb : Bricked cL cK s)
    (h : step s e = some s') : BrickStep cL cK s s' i := by
  cases e <;> simp only [Ev.inst, Option.some.injEq, reduceCtorEq] at he <;> subst he
  · exact brick_launchCreate s s' hb h
  · exact brick_launchLoad s s' hb h
  · exact brick_launchRound s s' hb h
  · exact brick_launchSubmit s s' hb h
  · exact brick_config s s' hb h
  · exact brick_clock s s' hb h
  · exact brick_lockFetch s s' hb h
  · exact brick_lockCreate s s' hb h
  · exact brick_lockReplace s s' hb h
  · exact brick_fetch s s' hb h
  · exact brick_upload s s' hb h
  · exact brick_discard s s' hb h
  · exact brick_submitted s s' hb h
  · exact brick_ack s s' hb h
  · exact brick_nackEvicted s s' hb h
  · exact brick_nack s s' hb h
  · exact brick_created s s' hb h
  · exact brick_createFail s s' hb h
  · exact brick_loaded s s' hb h
  · exact brick_loadFail s s' hb h
  · exact brick_roundEnd s s' hb h
  · exact brick_crash s s' hb h
  · exact brick_cacheLose s s' hb h

theorem bricked_step (s s' : Sys) {cL cK : Ck} (e : Ev) (hb : Bricked cL cK s) (h : step s e = some s')
    (ht : s'.tampered = false) : Bricked cL cK s' := by
  cases he : e.inst with
  | none =>
    obtain ⟨k, o, rfl⟩ := inst_none_tamper e he
    exact absurd rfl ((step_tampered s s' _ h ht).2 k o)
  | some i =>
    obtain ⟨hl, hst, hph⟩ := step_brick s s' e i he hb h
    refine ⟨hl.trans hb.lock, ?_, hb.behind, by rw [hst]; exact hb.gone, ?_⟩
    · obtain ⟨imm, hck⟩ := hb.ckpt
      exact ⟨imm, by rw [hst]; exact hck⟩
    · intro j
      by_cases hj : j = i
      · subst hj; exact hph
      · rw [step_insts_other s s' e h j (by rw [he]; intro hh; injection hh with hh; exact hj hh.symm)]
        exact hb.inert j

theorem bricked_run {s s' : Sys} {cL cK : Ck} {es : List Ev} (hb : Bricked cL cK s) (h : run s es = some s')
    (ht : s'.tampered = false) : Bricked cL cK s' := by
  induction es generalizing s with
  | nil => simp [run] at h; subst h; exact hb
  | cons e es ih =>
    simp only [run] at h
    split at h
    · rename_i s1 hs1
      exact ih (bricked_step s s1 e hb hs1 (run_tampered s1 s' es h ht)) h
    · cases h

/-- in a bricked state nobody is up and a `loaded` event is not accepted -/
theorem bricked_not_up {s : Sys} {cL cK : Ck} (hb : Bricked cL cK s) (i : Nat) :
    isUp (s.insts i) = false ∧ ∀ c, step s (.loaded i c) = none := by
  have hi := hb.inert i
  cases hph : (s.insts i).phase with
  | loading pc => cases pc <;> simp_all [InertPhase, isUp, step]
  | _ => simp_all [InertPhase, isUp, step]

/-- **Bricked forever.** From a bricked state no accepted event sequence without tampering — any
    instances, any fault outcomes, any interleaving — ever contains a `loaded` event or brings any
    instance up; the state stays bricked. -/
theorem bricked_forever {s s' : Sys} {cL cK : Ck} {es : List Ev} (hb : Bricked cL cK s) (h : run s es = some s')
    (ht : s'.tampered = false) :
    Bricked cL cK s' ∧ (∀ i, isUp (s'.insts i) = false) ∧ ∀ i c, Ev.loaded i c ∉ es := by
  refine ⟨bricked_run hb h ht, fun i => (bricked_not_up (bricked_run hb h ht) i).1, ?_⟩
  induction es generalizing s with
  | nil => intro i c hm; cases hm
  | cons e es ih =>
    simp only [run] at h
    split at h
    · rename_i s1 hs1
      intro i c hm
      rcases List.mem_cons.1 hm with rfl | hm'
      · rw [(bricked_not_up hb i).2 c] at hs1; cases hs1
      · exact ih (bricked_step s s1 e hb hs1 (run_tampered s1 s' es h ht)) h i c hm'
    · cases h

/-- a state with everybody down, the checkpoint object behind the lock checkpoint and the lock tree's
    bundle gone is bricked -/
theorem bricked_of_all_down {s : Sys} {cL cK : Ck} {imm : Bool} (hl : s.lock = some cL)
    (hck : s.store .ckpt = some (.ck cK, imm)) (hbe : cK.leaves.length < cL.leaves.length)
    (hg : s.store (.staging cL.leaves) = none) (hd : ∀ j, (s.insts j).phase = .down) : Bricked cL cK s :=
  ⟨hl, ⟨imm, hck⟩, hbe, hg, fun j => by rw [hd j]; trivial⟩

/-- the counterexample state (publication regression followed by a discard) is bricked -/
theorem Cex.cex_bricked {s : Sys} (h : run (init 0) Cex.cex = some s) : Bricked RecDemo.c2 RecDemo.c1 s := by
  have hd := Cex.cex_all_down h
  obtain ⟨s0, h0, _, hl, _, _, hck, hstg, _⟩ := Cex.cex_runs
  rw [h0] at h; injection h with h; subst h
  exact bricked_of_all_down hl hck (by decide) hstg (fun j => (hd j).1)

end Seq
