import Proofs.SeqInv
/-! Second invariant bundle: shape of a round's new tree, publication bookkeeping, truth of the
deduplication cache and of every acknowledgement (I6/I7), pool bound (I9), only staging bundles are
discarded (I4). -/
namespace Seq

/-- some published checkpoint holds, at index `idx`, a leaf of dedup class `key` with timestamp `ts` -/
def HasLeaf (P : List Ck) (key idx ts : Nat) : Prop :=
  ∃ c ∈ P, ∃ l, c.leaves[idx]? = some l ∧ l.key = key ∧ l.ts = ts

theorem HasLeaf.mono {P P' : List Ck} (hs : ∀ c, c ∈ P → c ∈ P') {k i t : Nat} (h : HasLeaf P k i t) : HasLeaf P' k i t := by
  obtain ⟨c, hc, l, h1, h2, h3⟩ := h
  exact ⟨c, hs c hc, l, h1, h2, h3⟩

/-- the round has passed the clock guard and has not failed -/
def RoundPc.afterClock : RoundPc → Bool
  | .stage | .cas | .tiles _ _ | .ckpt | .discard | .done .ok => true
  | _ => false

/-- the round's checkpoint upload has succeeded -/
def RoundPc.isPub : RoundPc → Bool
  | .discard | .done .ok => true
  | _ => false

/-- shape of a round's new tree and its publication bookkeeping -/
def RoundOK2 (P : List Ck) (rd : Round) : Prop :=
  (rd.published = true → rd.new ∈ P) ∧
  (rd.published = rd.pc.isPub)

def RInv (P : List Ck) (x : Inst) : Prop := ∀ rd, x.phase = .round rd → RoundOK2 P rd

/-- pool bound (I9) -/
def PInv (n : Nat) (x : Inst) : Prop :=
  n > 0 → (x.pool.length ≤ n + (if x.evictPending then 1 else 0)) ∧
    (x.evictPending = true → x.pool.length = n + 1) ∧
    (∀ rd, x.phase = .round rd → rd.slots.length ≤ n)

def CInv (P : List Ck) (x : Inst) : Prop := ∀ e ∈ x.cache, HasLeaf P e.1 e.2.1 e.2.2

structure Inv2 (s : Sys) : Prop where
  round : ∀ i, RInv s.pubHist (s.insts i)
  pool : ∀ i, PInv s.poolSize (s.insts i)
  cache : ∀ i, CInv s.pubHist (s.insts i)
  acks : ∀ a ∈ s.acks, HasLeaf s.pubHist a.key a.idx a.ts
  disc : ∀ k ∈ s.discarded, ∃ t, k = .staging t

theorem RInv.mono {P P' : List Ck} (hs : ∀ c, c ∈ P → c ∈ P') {x : Inst} (h : RInv P x) : RInv P' x := by
  intro rd hrd
  obtain ⟨b, c⟩ := h rd hrd
  exact ⟨fun hp => hs _ (b hp), c⟩

theorem CInv.mono {P P' : List Ck} (hs : ∀ c, c ∈ P → c ∈ P') {x : Inst} (h : CInv P x) : CInv P' x :=
  fun e he => (h e he).mono hs

theorem step_poolSize (s s' : Sys) (e : Ev) (h : step s e = some s') : s'.poolSize = s.poolSize := by
  cases e <;> simp only [step] at h <;> (repeat' split at h) <;>
    simp_all [Sys.setInst] <;> (try (subst h; simp))

/-- the publication history only ever grows by one element per step -/
theorem step_pubHist (s s' : Sys) (e : Ev) (h : step s e = some s') :
    s'.pubHist = s.pubHist ∨ ∃ c, s'.pubHist = c :: s.pubHist := by
  cases e <;> simp only [step] at h <;> (repeat' split at h) <;>
    simp_all [Sys.setInst] <;> (try (subst h; simp))

theorem step_pubHist_sub (s s' : Sys) (e : Ev) (h : step s e = some s') : ∀ c, c ∈ s.pubHist → c ∈ s'.pubHist := by
  intro c hc
  rcases step_pubHist s s' e h with h1 | ⟨d, h1⟩ <;> rw [h1]
  · exact hc
  · exact List.mem_cons_of_mem _ hc

end Seq

namespace Seq

theorem leavesOf_getElem? (slots : List Slot) (t k : Nat) :
    (leavesOf slots t)[k]? = (slots[k]?).map fun sl => ⟨sl.eid, sl.key, t⟩ := by
  simp [leavesOf]

theorem round_leaf {rd : Round} (hs : rd.new.leaves = rd.old.leaves ++ leavesOf rd.slots rd.new.time)
    {k : Nat} {sl : Slot} (hk : rd.slots[k]? = some sl) :
    rd.new.leaves[rd.old.leaves.length + k]? = some ⟨sl.eid, sl.key, rd.new.time⟩ := by
  rw [hs, List.getElem?_append_right (by omega)]
  simp [leavesOf_getElem?, hk]

theorem slotIndex_spec {slots : List Slot} {key k : Nat} (h : slotIndex slots key = some k) :
    ∃ sl, slots[k]? = some sl ∧ sl.key = key := by
  unfold slotIndex at h
  have := List.findIdx?_eq_some_iff_getElem.1 h
  obtain ⟨hk, hp, _⟩ := this
  exact ⟨slots[k], by simp [hk], by simpa using hp⟩

end Seq

namespace Seq
theorem rinv_launchCreate (s s' : Sys) {i : _} (hinv : Inv2 s)
    (h : step s (.launchCreate i) = some s') : RInv s'.pubHist (s'.insts i) := by
  have hi := hinv.round i
  cases hph : (s.insts i).phase with
  | round rd =>
    obtain ⟨h2, h3⟩ := hi rd hph
    simp only [step, hph] at h
    (repeat' split at h) <;> simp_all [Sys.setInst, upd, RInv, RoundOK2, RoundPc.isPub] <;> (try (subst h; simp_all [Sys.setInst, upd, RInv, RoundOK2, RoundPc.isPub])) <;> (try omega) <;> (try (cases hpc : rd.pc <;> simp_all [Res.applied, RoundPc.isPub]))
  | _ =>
    simp only [step, hph] at h
    (repeat' split at h) <;> simp_all [Sys.setInst, upd, RInv, RoundOK2, RoundPc.isPub] <;> (try (subst h; simp_all [Sys.setInst, upd, RInv, RoundOK2, RoundPc.isPub])) <;> (try omega)
theorem pinv_launchCreate (s s' : Sys) {i : _} (hinv : Inv2 s)
    (h : step s (.launchCreate i) = some s') : PInv s'.poolSize (s'.insts i) := by
  have hi := hinv.pool i
  by_cases hn : s.poolSize > 0
  · obtain ⟨p1, p2, p3⟩ := hi hn
    cases hph : (s.insts i).phase with
    | round rd =>
      have p3' := p3 rd hph
      simp only [step, hph] at h
      (repeat' split at h) <;> simp_all [Sys.setInst, upd, PInv, admission] <;> (try (subst h; simp_all [Sys.setInst, upd, PInv, admission])) <;> (try omega)
    | _ =>
      simp only [step, hph] at h
      (repeat' split at h) <;> simp_all [Sys.setInst, upd, PInv, admission] <;> (try (subst h; simp_all [Sys.setInst, upd, PInv, admission])) <;> (try omega)
  · have hps := step_poolSize s s' _ h
    intro hpos; rw [hps] at hpos; exact absurd hpos hn
theorem disc_launchCreate (s s' : Sys) {i : _} (hinv : Inv2 s)
    (h : step s (.launchCreate i) = some s') : ∀ k ∈ s'.discarded, ∃ t, k = Key.staging t := by
  have hd := hinv.disc
  simp only [step] at h
  (repeat' split at h) <;> simp_all [Sys.setInst, upd] <;> (try (subst h; simp_all [Sys.setInst, upd])) <;> (try omega)
theorem rinv_launchLoad (s s' : Sys) {i : _} (hinv : Inv2 s)
    (h : step s (.launchLoad i) = some s') : RInv s'.pubHist (s'.insts i) := by
  have hi := hinv.round i
  cases hph : (s.insts i).phase with
  | round rd =>
    obtain ⟨h2, h3⟩ := hi rd hph
    simp only [step, hph] at h
    (repeat' split at h) <;> simp_all [Sys.setInst, upd, RInv, RoundOK2, RoundPc.isPub] <;> (try (subst h; simp_all [Sys.setInst, upd, RInv, RoundOK2, RoundPc.isPub])) <;> (try omega) <;> (try (cases hpc : rd.pc <;> simp_all [Res.applied, RoundPc.isPub]))
  | _ =>
    simp only [step, hph] at h
    (repeat' split at h) <;> simp_all [Sys.setInst, upd, RInv, RoundOK2, RoundPc.isPub] <;> (try (subst h; simp_all [Sys.setInst, upd, RInv, RoundOK2, RoundPc.isPub])) <;> (try omega)
theorem pinv_launchLoad (s s' : Sys) {i : _} (hinv : Inv2 s)
    (h : step s (.launchLoad i) = some s') : PInv s'.poolSize (s'.insts i) := by
  have hi := hinv.pool i
  by_cases hn : s.poolSize > 0
  · obtain ⟨p1, p2, p3⟩ := hi hn
    cases hph : (s.insts i).phase with
    | round rd =>
      have p3' := p3 rd hph
      simp only [step, hph] at h
      (repeat' split at h) <;> simp_all [Sys.setInst, upd, PInv, admission] <;> (try (subst h; simp_all [Sys.setInst, upd, PInv, admission])) <;> (try omega)
    | _ =>
      simp only [step, hph] at h
      (repeat' split at h) <;> simp_all [Sys.setInst, upd, PInv, admission] <;> (try (subst h; simp_all [Sys.setInst, upd, PInv, admission])) <;> (try omega)
  · have hps := step_poolSize s s' _ h
    intro hpos; rw [hps] at hpos; exact absurd hpos hn
theorem disc_launchLoad (s s' : Sys) {i : _} (hinv : Inv2 s)
    (h : step s (.launchLoad i) = some s') : ∀ k ∈ s'.discarded, ∃ t, k = Key.staging t := by
  have hd := hinv.disc
  simp only [step] at h
  (repeat' split at h) <;> simp_all [Sys.setInst, upd] <;> (try (subst h; simp_all [Sys.setInst, upd])) <;> (try omega)
theorem rinv_launchRound (s s' : Sys) {i : _} (hinv : Inv2 s)
    (h : step s (.launchRound i) = some s') : RInv s'.pubHist (s'.insts i) := by
  have hi := hinv.round i
  cases hph : (s.insts i).phase with
  | round rd =>
    obtain ⟨h2, h3⟩ := hi rd hph
    simp only [step, hph] at h
    (repeat' split at h) <;> simp_all [Sys.setInst, upd, RInv, RoundOK2, RoundPc.isPub] <;> (try (subst h; simp_all [Sys.setInst, upd, RInv, RoundOK2, RoundPc.isPub])) <;> (try omega) <;> (try (cases hpc : rd.pc <;> simp_all [Res.applied, RoundPc.isPub]))
  | _ =>
    simp only [step, hph] at h
    (repeat' split at h) <;> simp_all [Sys.setInst, upd, RInv, RoundOK2, RoundPc.isPub] <;> (try (subst h; simp_all [Sys.setInst, upd, RInv, RoundOK2, RoundPc.isPub])) <;> (try omega)
theorem pinv_launchRound (s s' : Sys) {i : _} (hinv : Inv2 s)
    (h : step s (.launchRound i) = some s') : PInv s'.poolSize (s'.insts i) := by
  have hi := hinv.pool i
  by_cases hn : s.poolSize > 0
  · obtain ⟨p1, p2, p3⟩ := hi hn
    cases hph : (s.insts i).phase with
    | round rd =>
      have p3' := p3 rd hph
      simp only [step, hph] at h
      (repeat' split at h) <;> simp_all [Sys.setInst, upd, PInv, admission] <;> (try (subst h; simp_all [Sys.setInst, upd, PInv, admission])) <;> (try omega)
    | _ =>
      simp only [step, hph] at h
      (repeat' split at h) <;> simp_all [Sys.setInst, upd, PInv, admission] <;> (try (subst h; simp_all [Sys.setInst, upd, PInv, admission])) <;> (try omega)
  · have hps := step_poolSize s s' _ h
    intro hpos; rw [hps] at hpos; exact absurd hpos hn
theorem disc_launchRound (s s' : Sys) {i : _} (hinv : Inv2 s)
    (h : step s (.launchRound i) = some s') : ∀ k ∈ s'.discarded, ∃ t, k = Key.staging t := by
  have hd := hinv.disc
  simp only [step] at h
  (repeat' split at h) <;> simp_all [Sys.setInst, upd] <;> (try (subst h; simp_all [Sys.setInst, upd])) <;> (try omega)
theorem rinv_launchSubmit (s s' : Sys) {i : _} (hinv : Inv2 s)
    (h : step s (.launchSubmit i) = some s') : RInv s'.pubHist (s'.insts i) := by
  have hi := hinv.round i
  cases hph : (s.insts i).phase with
  | round rd =>
    obtain ⟨h2, h3⟩ := hi rd hph
    simp only [step, hph] at h
    (repeat' split at h) <;> simp_all [Sys.setInst, upd, RInv, RoundOK2, RoundPc.isPub] <;> (try (subst h; simp_all [Sys.setInst, upd, RInv, RoundOK2, RoundPc.isPub])) <;> (try omega) <;> (try (cases hpc : rd.pc <;> simp_all [Res.applied, RoundPc.isPub]))
  | _ =>
    simp only [step, hph] at h
    (repeat' split at h) <;> simp_all [Sys.setInst, upd, RInv, RoundOK2, RoundPc.isPub] <;> (try (subst h; simp_all [Sys.setInst, upd, RInv, RoundOK2, RoundPc.isPub])) <;> (try omega)
theorem pinv_launchSubmit (s s' : Sys) {i : _} (hinv : Inv2 s)
    (h : step s (.launchSubmit i) = some s') : PInv s'.poolSize (s'.insts i) := by
  have hi := hinv.pool i
  by_cases hn : s.poolSize > 0
  · obtain ⟨p1, p2, p3⟩ := hi hn
    cases hph : (s.insts i).phase with
    | round rd =>
      have p3' := p3 rd hph
      simp only [step, hph] at h
      (repeat' split at h) <;> simp_all [Sys.setInst, upd, PInv, admission] <;> (try (subst h; simp_all [Sys.setInst, upd, PInv, admission])) <;> (try omega)
    | _ =>
      simp only [step, hph] at h
      (repeat' split at h) <;> simp_all [Sys.setInst, upd, PInv, admission] <;> (try (subst h; simp_all [Sys.setInst, upd, PInv, admission])) <;> (try omega)
  · have hps := step_poolSize s s' _ h
    intro hpos; rw [hps] at hpos; exact absurd hpos hn
theorem disc_launchSubmit (s s' : Sys) {i : _} (hinv : Inv2 s)
    (h : step s (.launchSubmit i) = some s') : ∀ k ∈ s'.discarded, ∃ t, k = Key.staging t := by
  have hd := hinv.disc
  simp only [step] at h
  (repeat' split at h) <;> simp_all [Sys.setInst, upd] <;> (try (subst h; simp_all [Sys.setInst, upd])) <;> (try omega)
theorem rinv_config (s s' : Sys) {i bad : _} (hinv : Inv2 s)
    (h : step s (.config i bad) = some s') : RInv s'.pubHist (s'.insts i) := by
  have hi := hinv.round i
  cases hph : (s.insts i).phase with
  | round rd =>
    obtain ⟨h2, h3⟩ := hi rd hph
    simp only [step, hph] at h
    (repeat' split at h) <;> simp_all [Sys.setInst, upd, RInv, RoundOK2, RoundPc.isPub] <;> (try (subst h; simp_all [Sys.setInst, upd, RInv, RoundOK2, RoundPc.isPub])) <;> (try omega) <;> (try (cases hpc : rd.pc <;> simp_all [Res.applied, RoundPc.isPub]))
  | _ =>
    simp only [step, hph] at h
    (repeat' split at h) <;> simp_all [Sys.setInst, upd, RInv, RoundOK2, RoundPc.isPub] <;> (try (subst h; simp_all [Sys.setInst, upd, RInv, RoundOK2, RoundPc.isPub])) <;> (try omega)
theorem pinv_config (s s' : Sys) {i bad : _} (hinv : Inv2 s)
    (h : step s (.config i bad) = some s') : PInv s'.poolSize (s'.insts i) := by
  have hi := hinv.pool i
  by_cases hn : s.poolSize > 0
  · obtain ⟨p1, p2, p3⟩ := hi hn
    cases hph : (s.insts i).phase with
    | round rd =>
      have p3' := p3 rd hph
      simp only [step, hph] at h
      (repeat' split at h) <;> simp_all [Sys.setInst, upd, PInv, admission] <;> (try (subst h; simp_all [Sys.setInst, upd, PInv, admission])) <;> (try omega)
    | _ =>
      simp only [step, hph] at h
      (repeat' split at h) <;> simp_all [Sys.setInst, upd, PInv, admission] <;> (try (subst h; simp_all [Sys.setInst, upd, PInv, admission])) <;> (try omega)
  · have hps := step_poolSize s s' _ h
    intro hpos; rw [hps] at hpos; exact absurd hpos hn
theorem disc_config (s s' : Sys) {i bad : _} (hinv : Inv2 s)
    (h : step s (.config i bad) = some s') : ∀ k ∈ s'.discarded, ∃ t, k = Key.staging t := by
  have hd := hinv.disc
  simp only [step] at h
  (repeat' split at h) <;> simp_all [Sys.setInst, upd] <;> (try (subst h; simp_all [Sys.setInst, upd])) <;> (try omega)
theorem rinv_clock (s s' : Sys) {i v : _} (hinv : Inv2 s)
    (h : step s (.clock i v) = some s') : RInv s'.pubHist (s'.insts i) := by
  have hi := hinv.round i
  cases hph : (s.insts i).phase with
  | round rd =>
    obtain ⟨h2, h3⟩ := hi rd hph
    simp only [step, hph] at h
    (repeat' split at h) <;> simp_all [Sys.setInst, upd, RInv, RoundOK2, RoundPc.isPub] <;> (try (subst h; simp_all [Sys.setInst, upd, RInv, RoundOK2, RoundPc.isPub])) <;> (try omega) <;> (try (cases hpc : rd.pc <;> simp_all [Res.applied, RoundPc.isPub]))
  | _ =>
    simp only [step, hph] at h
    (repeat' split at h) <;> simp_all [Sys.setInst, upd, RInv, RoundOK2, RoundPc.isPub] <;> (try (subst h; simp_all [Sys.setInst, upd, RInv, RoundOK2, RoundPc.isPub])) <;> (try omega)
theorem pinv_clock (s s' : Sys) {i v : _} (hinv : Inv2 s)
    (h : step s (.clock i v) = some s') : PInv s'.poolSize (s'.insts i) := by
  have hi := hinv.pool i
  by_cases hn : s.poolSize > 0
  · obtain ⟨p1, p2, p3⟩ := hi hn
    cases hph : (s.insts i).phase with
    | round rd =>
      have p3' := p3 rd hph
      simp only [step, hph] at h
      (repeat' split at h) <;> simp_all [Sys.setInst, upd, PInv, admission] <;> (try (subst h; simp_all [Sys.setInst, upd, PInv, admission])) <;> (try omega)
    | _ =>
      simp only [step, hph] at h
      (repeat' split at h) <;> simp_all [Sys.setInst, upd, PInv, admission] <;> (try (subst h; simp_all [Sys.setInst, upd, PInv, admission])) <;> (try omega)
  · have hps := step_poolSize s s' _ h
    intro hpos; rw [hps] at hpos; exact absurd hpos hn
theorem disc_clock (s s' : Sys) {i v : _} (hinv : Inv2 s)
    (h : step s (.clock i v) = some s') : ∀ k ∈ s'.discarded, ∃ t, k = Key.staging t := by
  have hd := hinv.disc
  simp only [step] at h
  (repeat' split at h) <;> simp_all [Sys.setInst, upd] <;> (try (subst h; simp_all [Sys.setInst, upd])) <;> (try omega)
theorem rinv_lockFetch (s s' : Sys) {i r : _} (hinv : Inv2 s)
    (h : step s (.lockFetch i r) = some s') : RInv s'.pubHist (s'.insts i) := by
  have hi := hinv.round i
  cases hph : (s.insts i).phase with
  | round rd =>
    obtain ⟨h2, h3⟩ := hi rd hph
    simp only [step, hph] at h
    (repeat' split at h) <;> simp_all [Sys.setInst, upd, RInv, RoundOK2, RoundPc.isPub] <;> (try (subst h; simp_all [Sys.setInst, upd, RInv, RoundOK2, RoundPc.isPub])) <;> (try omega) <;> (try (cases hpc : rd.pc <;> simp_all [Res.applied, RoundPc.isPub]))
  | _ =>
    simp only [step, hph] at h
    (repeat' split at h) <;> simp_all [Sys.setInst, upd, RInv, RoundOK2, RoundPc.isPub] <;> (try (subst h; simp_all [Sys.setInst, upd, RInv, RoundOK2, RoundPc.isPub])) <;> (try omega)
theorem pinv_lockFetch (s s' : Sys) {i r : _} (hinv : Inv2 s)
    (h : step s (.lockFetch i r) = some s') : PInv s'.poolSize (s'.insts i) := by
  have hi := hinv.pool i
  by_cases hn : s.poolSize > 0
  · obtain ⟨p1, p2, p3⟩ := hi hn
    cases hph : (s.insts i).phase with
    | round rd =>
      have p3' := p3 rd hph
      simp only [step, hph] at h
      (repeat' split at h) <;> simp_all [Sys.setInst, upd, PInv, admission] <;> (try (subst h; simp_all [Sys.setInst, upd, PInv, admission])) <;> (try omega)
    | _ =>
      simp only [step, hph] at h
      (repeat' split at h) <;> simp_all [Sys.setInst, upd, PInv, admission] <;> (try (subst h; simp_all [Sys.setInst, upd, PInv, admission])) <;> (try omega)
  · have hps := step_poolSize s s' _ h
    intro hpos; rw [hps] at hpos; exact absurd hpos hn
theorem disc_lockFetch (s s' : Sys) {i r : _} (hinv : Inv2 s)
    (h : step s (.lockFetch i r) = some s') : ∀ k ∈ s'.discarded, ∃ t, k = Key.staging t := by
  have hd := hinv.disc
  simp only [step] at h
  (repeat' split at h) <;> simp_all [Sys.setInst, upd] <;> (try (subst h; simp_all [Sys.setInst, upd])) <;> (try omega)
theorem rinv_lockCreate (s s' : Sys) {i c r : _} (hinv : Inv2 s)
    (h : step s (.lockCreate i c r) = some s') : RInv s'.pubHist (s'.insts i) := by
  have hi := hinv.round i
  cases hph : (s.insts i).phase with
  | round rd =>
    obtain ⟨h2, h3⟩ := hi rd hph
    simp only [step, hph] at h
    (repeat' split at h) <;> simp_all [Sys.setInst, upd, RInv, RoundOK2, RoundPc.isPub] <;> (try (subst h; simp_all [Sys.setInst, upd, RInv, RoundOK2, RoundPc.isPub])) <;> (try omega) <;> (try (cases hpc : rd.pc <;> simp_all [Res.applied, RoundPc.isPub]))
  | _ =>
    simp only [step, hph] at h
    (repeat' split at h) <;> simp_all [Sys.setInst, upd, RInv, RoundOK2, RoundPc.isPub] <;> (try (subst h; simp_all [Sys.setInst, upd, RInv, RoundOK2, RoundPc.isPub])) <;> (try omega)
theorem pinv_lockCreate (s s' : Sys) {i c r : _} (hinv : Inv2 s)
    (h : step s (.lockCreate i c r) = some s') : PInv s'.poolSize (s'.insts i) := by
  have hi := hinv.pool i
  by_cases hn : s.poolSize > 0
  · obtain ⟨p1, p2, p3⟩ := hi hn
    cases hph : (s.insts i).phase with
    | round rd =>
      have p3' := p3 rd hph
      simp only [step, hph] at h
      (repeat' split at h) <;> simp_all [Sys.setInst, upd, PInv, admission] <;> (try (subst h; simp_all [Sys.setInst, upd, PInv, admission])) <;> (try omega)
    | _ =>
      simp only [step, hph] at h
      (repeat' split at h) <;> simp_all [Sys.setInst, upd, PInv, admission] <;> (try (subst h; simp_all [Sys.setInst, upd, PInv, admission])) <;> (try omega)
  · have hps := step_poolSize s s' _ h
    intro hpos; rw [hps] at hpos; exact absurd hpos hn
theorem disc_lockCreate (s s' : Sys) {i c r : _} (hinv : Inv2 s)
    (h : step s (.lockCreate i c r) = some s') : ∀ k ∈ s'.discarded, ∃ t, k = Key.staging t := by
  have hd := hinv.disc
  simp only [step] at h
  (repeat' split at h) <;> simp_all [Sys.setInst, upd] <;> (try (subst h; simp_all [Sys.setInst, upd])) <;> (try omega)
theorem rinv_lockReplace (s s' : Sys) {i old new r : _} (hinv : Inv2 s)
    (h : step s (.lockReplace i old new r) = some s') : RInv s'.pubHist (s'.insts i) := by
  have hi := hinv.round i
  cases hph : (s.insts i).phase with
  | round rd =>
    obtain ⟨h2, h3⟩ := hi rd hph
    simp only [step, hph] at h
    (repeat' split at h) <;> simp_all [Sys.setInst, upd, RInv, RoundOK2, RoundPc.isPub] <;> (try (subst h; simp_all [Sys.setInst, upd, RInv, RoundOK2, RoundPc.isPub])) <;> (try omega) <;> (try (cases hpc : rd.pc <;> simp_all [Res.applied, RoundPc.isPub]))
  | _ =>
    simp only [step, hph] at h
    (repeat' split at h) <;> simp_all [Sys.setInst, upd, RInv, RoundOK2, RoundPc.isPub] <;> (try (subst h; simp_all [Sys.setInst, upd, RInv, RoundOK2, RoundPc.isPub])) <;> (try omega)
theorem pinv_lockReplace (s s' : Sys) {i old new r : _} (hinv : Inv2 s)
    (h : step s (.lockReplace i old new r) = some s') : PInv s'.poolSize (s'.insts i) := by
  have hi := hinv.pool i
  by_cases hn : s.poolSize > 0
  · obtain ⟨p1, p2, p3⟩ := hi hn
    cases hph : (s.insts i).phase with
    | round rd =>
      have p3' := p3 rd hph
      simp only [step, hph] at h
      (repeat' split at h) <;> simp_all [Sys.setInst, upd, PInv, admission] <;> (try (subst h; simp_all [Sys.setInst, upd, PInv, admission])) <;> (try omega)
    | _ =>
      simp only [step, hph] at h
      (repeat' split at h) <;> simp_all [Sys.setInst, upd, PInv, admission] <;> (try (subst h; simp_all [Sys.setInst, upd, PInv, admission])) <;> (try omega)
  · have hps := step_poolSize s s' _ h
    intro hpos; rw [hps] at hpos; exact absurd hpos hn
theorem disc_lockReplace (s s' : Sys) {i old new r : _} (hinv : Inv2 s)
    (h : step s (.lockReplace i old new r) = some s') : ∀ k ∈ s'.discarded, ∃ t, k = Key.staging t := by
  have hd := hinv.disc
  simp only [step] at h
  (repeat' split at h) <;> simp_all [Sys.setInst, upd] <;> (try (subst h; simp_all [Sys.setInst, upd])) <;> (try omega)
theorem rinv_fetch (s s' : Sys) {i k r : _} (hinv : Inv2 s)
    (h : step s (.fetch i k r) = some s') : RInv s'.pubHist (s'.insts i) := by
  have hi := hinv.round i
  cases hph : (s.insts i).phase with
  | round rd =>
    obtain ⟨h2, h3⟩ := hi rd hph
    simp only [step, hph] at h
    (repeat' split at h) <;> simp_all [Sys.setInst, upd, RInv, RoundOK2, RoundPc.isPub] <;> (try (subst h; simp_all [Sys.setInst, upd, RInv, RoundOK2, RoundPc.isPub])) <;> (try omega) <;> (try (cases hpc : rd.pc <;> simp_all [Res.applied, RoundPc.isPub]))
  | _ =>
    simp only [step, hph] at h
    (repeat' split at h) <;> simp_all [Sys.setInst, upd, RInv, RoundOK2, RoundPc.isPub] <;> (try (subst h; simp_all [Sys.setInst, upd, RInv, RoundOK2, RoundPc.isPub])) <;> (try omega)
theorem pinv_fetch (s s' : Sys) {i k r : _} (hinv : Inv2 s)
    (h : step s (.fetch i k r) = some s') : PInv s'.poolSize (s'.insts i) := by
  have hi := hinv.pool i
  by_cases hn : s.poolSize > 0
  · obtain ⟨p1, p2, p3⟩ := hi hn
    cases hph : (s.insts i).phase with
    | round rd =>
      have p3' := p3 rd hph
      simp only [step, hph] at h
      (repeat' split at h) <;> simp_all [Sys.setInst, upd, PInv, admission] <;> (try (subst h; simp_all [Sys.setInst, upd, PInv, admission])) <;> (try omega)
    | _ =>
      simp only [step, hph] at h
      (repeat' split at h) <;> simp_all [Sys.setInst, upd, PInv, admission] <;> (try (subst h; simp_all [Sys.setInst, upd, PInv, admission])) <;> (try omega)
  · have hps := step_poolSize s s' _ h
    intro hpos; rw [hps] at hpos; exact absurd hpos hn
theorem disc_fetch (s s' : Sys) {i k r : _} (hinv : Inv2 s)
    (h : step s (.fetch i k r) = some s') : ∀ k ∈ s'.discarded, ∃ t, k = Key.staging t := by
  have hd := hinv.disc
  simp only [step] at h
  (repeat' split at h) <;> simp_all [Sys.setInst, upd] <;> (try (subst h; simp_all [Sys.setInst, upd])) <;> (try omega)
theorem rinv_upload (s s' : Sys) {i k imm o r : _} (hinv : Inv2 s)
    (h : step s (.upload i k imm o r) = some s') : RInv s'.pubHist (s'.insts i) := by
  have hi := hinv.round i
  cases hph : (s.insts i).phase with
  | round rd =>
    obtain ⟨h2, h3⟩ := hi rd hph
    simp only [step, hph] at h
    (repeat' split at h) <;> simp_all [Sys.setInst, upd, RInv, RoundOK2, RoundPc.isPub] <;> (try (subst h; simp_all [Sys.setInst, upd, RInv, RoundOK2, RoundPc.isPub])) <;> (try omega) <;> (try (cases hpc : rd.pc <;> simp_all [Res.applied, RoundPc.isPub]))
  | _ =>
    simp only [step, hph] at h
    (repeat' split at h) <;> simp_all [Sys.setInst, upd, RInv, RoundOK2, RoundPc.isPub] <;> (try (subst h; simp_all [Sys.setInst, upd, RInv, RoundOK2, RoundPc.isPub])) <;> (try omega)
theorem pinv_upload (s s' : Sys) {i k imm o r : _} (hinv : Inv2 s)
    (h : step s (.upload i k imm o r) = some s') : PInv s'.poolSize (s'.insts i) := by
  have hi := hinv.pool i
  by_cases hn : s.poolSize > 0
  · obtain ⟨p1, p2, p3⟩ := hi hn
    cases hph : (s.insts i).phase with
    | round rd =>
      have p3' := p3 rd hph
      simp only [step, hph] at h
      (repeat' split at h) <;> simp_all [Sys.setInst, upd, PInv, admission] <;> (try (subst h; simp_all [Sys.setInst, upd, PInv, admission])) <;> (try omega)
    | _ =>
      simp only [step, hph] at h
      (repeat' split at h) <;> simp_all [Sys.setInst, upd, PInv, admission] <;> (try (subst h; simp_all [Sys.setInst, upd, PInv, admission])) <;> (try omega)
  · have hps := step_poolSize s s' _ h
    intro hpos; rw [hps] at hpos; exact absurd hpos hn
theorem disc_upload (s s' : Sys) {i k imm o r : _} (hinv : Inv2 s)
    (h : step s (.upload i k imm o r) = some s') : ∀ k ∈ s'.discarded, ∃ t, k = Key.staging t := by
  have hd := hinv.disc
  simp only [step] at h
  (repeat' split at h) <;> simp_all [Sys.setInst, upd] <;> (try (subst h; simp_all [Sys.setInst, upd])) <;> (try omega)
theorem rinv_discard (s s' : Sys) {i k r : _} (hinv : Inv2 s)
    (h : step s (.discard i k r) = some s') : RInv s'.pubHist (s'.insts i) := by
  have hi := hinv.round i
  cases hph : (s.insts i).phase with
  | round rd =>
    obtain ⟨h2, h3⟩ := hi rd hph
    simp only [step, hph] at h
    (repeat' split at h) <;> simp_all [Sys.setInst, upd, RInv, RoundOK2, RoundPc.isPub] <;> (try (subst h; simp_all [Sys.setInst, upd, RInv, RoundOK2, RoundPc.isPub])) <;> (try omega) <;> (try (cases hpc : rd.pc <;> simp_all [Res.applied, RoundPc.isPub]))
  | _ =>
    simp only [step, hph] at h
    (repeat' split at h) <;> simp_all [Sys.setInst, upd, RInv, RoundOK2, RoundPc.isPub] <;> (try (subst h; simp_all [Sys.setInst, upd, RInv, RoundOK2, RoundPc.isPub])) <;> (try omega)
theorem pinv_discard (s s' : Sys) {i k r : _} (hinv : Inv2 s)
    (h : step s (.discard i k r) = some s') : PInv s'.poolSize (s'.insts i) := by
  have hi := hinv.pool i
  by_cases hn : s.poolSize > 0
  · obtain ⟨p1, p2, p3⟩ := hi hn
    cases hph : (s.insts i).phase with
    | round rd =>
      have p3' := p3 rd hph
      simp only [step, hph] at h
      (repeat' split at h) <;> simp_all [Sys.setInst, upd, PInv, admission] <;> (try (subst h; simp_all [Sys.setInst, upd, PInv, admission])) <;> (try omega)
    | _ =>
      simp only [step, hph] at h
      (repeat' split at h) <;> simp_all [Sys.setInst, upd, PInv, admission] <;> (try (subst h; simp_all [Sys.setInst, upd, PInv, admission])) <;> (try omega)
  · have hps := step_poolSize s s' _ h
    intro hpos; rw [hps] at hpos; exact absurd hpos hn
theorem disc_discard (s s' : Sys) {i k r : _} (hinv : Inv2 s)
    (h : step s (.discard i k r) = some s') : ∀ k ∈ s'.discarded, ∃ t, k = Key.staging t := by
  have hd := hinv.disc
  simp only [step] at h
  (repeat' split at h) <;> simp_all [Sys.setInst, upd] <;> (try (subst h; simp_all [Sys.setInst, upd])) <;> (try omega)
theorem rinv_submitted (s s' : Sys) {i eid key low iss src : _} (hinv : Inv2 s)
    (h : step s (.submitted i eid key low iss src) = some s') : RInv s'.pubHist (s'.insts i) := by
  have hi := hinv.round i
  obtain ⟨_, hc⟩ := submitted_char s s' i eid key low iss src h
  rcases hc with rfl | rfl | ⟨_, rfl⟩ | ⟨_, _, rfl⟩ <;> simpa [RInv, Sys.setInst, upd] using hi
theorem pinv_submitted (s s' : Sys) {i eid key low iss src : _} (hinv : Inv2 s)
    (h : step s (.submitted i eid key low iss src) = some s') : PInv s'.poolSize (s'.insts i) := by
  have hi := hinv.pool i
  obtain ⟨hev, hc⟩ := submitted_char s s' i eid key low iss src h
  rcases hc with rfl | rfl | ⟨hnf, rfl⟩ | ⟨hf, _, rfl⟩
  · exact hi
  · simpa [PInv, Sys.setInst, upd] using hi
  · intro hn
    obtain ⟨p1, p2, p3⟩ := hi hn
    simp only [Sys.setInst, upd, if_true, hev] at *
    refine ⟨?_, ?_, p3⟩
    · simp; simp at hnf; omega
    · intro hh; simp at hh
  · intro hn
    obtain ⟨p1, p2, p3⟩ := hi hn
    simp only [Sys.setInst, upd, if_true, hev] at *
    refine ⟨?_, ?_, p3⟩
    · simp; simp at p1; omega
    · intro _; simp; simp at p1; omega
theorem disc_submitted (s s' : Sys) {i eid key low iss src : _} (hinv : Inv2 s)
    (h : step s (.submitted i eid key low iss src) = some s') : ∀ k ∈ s'.discarded, ∃ t, k = Key.staging t := by
  have hd := hinv.disc
  simp only [step] at h
  (repeat' split at h) <;> simp_all [Sys.setInst, upd] <;> (try (subst h; simp_all [Sys.setInst, upd])) <;> (try omega)
theorem rinv_ack (s s' : Sys) {i eid key idx ts : _} (hinv : Inv2 s)
    (h : step s (.ack i eid key idx ts) = some s') : RInv s'.pubHist (s'.insts i) := by
  have hi := hinv.round i
  cases hph : (s.insts i).phase with
  | round rd =>
    obtain ⟨h2, h3⟩ := hi rd hph
    simp only [step, hph] at h
    (repeat' split at h) <;> simp_all [Sys.setInst, upd, RInv, RoundOK2, RoundPc.isPub] <;> (try (subst h; simp_all [Sys.setInst, upd, RInv, RoundOK2, RoundPc.isPub])) <;> (try omega) <;> (try (cases hpc : rd.pc <;> simp_all [Res.applied, RoundPc.isPub]))
  | _ =>
    simp only [step, hph] at h
    (repeat' split at h) <;> simp_all [Sys.setInst, upd, RInv, RoundOK2, RoundPc.isPub] <;> (try (subst h; simp_all [Sys.setInst, upd, RInv, RoundOK2, RoundPc.isPub])) <;> (try omega)
theorem pinv_ack (s s' : Sys) {i eid key idx ts : _} (hinv : Inv2 s)
    (h : step s (.ack i eid key idx ts) = some s') : PInv s'.poolSize (s'.insts i) := by
  have hi := hinv.pool i
  by_cases hn : s.poolSize > 0
  · obtain ⟨p1, p2, p3⟩ := hi hn
    cases hph : (s.insts i).phase with
    | round rd =>
      have p3' := p3 rd hph
      simp only [step, hph] at h
      (repeat' split at h) <;> simp_all [Sys.setInst, upd, PInv, admission] <;> (try (subst h; simp_all [Sys.setInst, upd, PInv, admission])) <;> (try omega)
    | _ =>
      simp only [step, hph] at h
      (repeat' split at h) <;> simp_all [Sys.setInst, upd, PInv, admission] <;> (try (subst h; simp_all [Sys.setInst, upd, PInv, admission])) <;> (try omega)
  · have hps := step_poolSize s s' _ h
    intro hpos; rw [hps] at hpos; exact absurd hpos hn
theorem disc_ack (s s' : Sys) {i eid key idx ts : _} (hinv : Inv2 s)
    (h : step s (.ack i eid key idx ts) = some s') : ∀ k ∈ s'.discarded, ∃ t, k = Key.staging t := by
  have hd := hinv.disc
  simp only [step] at h
  (repeat' split at h) <;> simp_all [Sys.setInst, upd] <;> (try (subst h; simp_all [Sys.setInst, upd])) <;> (try omega)
theorem rinv_nackEvicted (s s' : Sys) {i eid key : _} (hinv : Inv2 s)
    (h : step s (.nackEvicted i eid key) = some s') : RInv s'.pubHist (s'.insts i) := by
  have hi := hinv.round i
  cases hph : (s.insts i).phase with
  | round rd =>
    obtain ⟨h2, h3⟩ := hi rd hph
    simp only [step, hph] at h
    (repeat' split at h) <;> simp_all [Sys.setInst, upd, RInv, RoundOK2, RoundPc.isPub] <;> (try (subst h; simp_all [Sys.setInst, upd, RInv, RoundOK2, RoundPc.isPub])) <;> (try omega) <;> (try (cases hpc : rd.pc <;> simp_all [Res.applied, RoundPc.isPub]))
  | _ =>
    simp only [step, hph] at h
    (repeat' split at h) <;> simp_all [Sys.setInst, upd, RInv, RoundOK2, RoundPc.isPub] <;> (try (subst h; simp_all [Sys.setInst, upd, RInv, RoundOK2, RoundPc.isPub])) <;> (try omega)
theorem pinv_nackEvicted (s s' : Sys) {i eid key : _} (hinv : Inv2 s)
    (h : step s (.nackEvicted i eid key) = some s') : PInv s'.poolSize (s'.insts i) := by
  have hi := hinv.pool i
  by_cases hn : s.poolSize > 0
  · obtain ⟨p1, p2, p3⟩ := hi hn
    cases hph : (s.insts i).phase with
    | round rd =>
      have p3' := p3 rd hph
      simp only [step, hph] at h
      (repeat' split at h) <;> simp_all [Sys.setInst, upd, PInv, admission] <;> (try (subst h; simp_all [Sys.setInst, upd, PInv, admission])) <;> (try omega)
    | _ =>
      simp only [step, hph] at h
      (repeat' split at h) <;> simp_all [Sys.setInst, upd, PInv, admission] <;> (try (subst h; simp_all [Sys.setInst, upd, PInv, admission])) <;> (try omega)
  · have hps := step_poolSize s s' _ h
    intro hpos; rw [hps] at hpos; exact absurd hpos hn
theorem disc_nackEvicted (s s' : Sys) {i eid key : _} (hinv : Inv2 s)
    (h : step s (.nackEvicted i eid key) = some s') : ∀ k ∈ s'.discarded, ∃ t, k = Key.staging t := by
  have hd := hinv.disc
  simp only [step] at h
  (repeat' split at h) <;> simp_all [Sys.setInst, upd] <;> (try (subst h; simp_all [Sys.setInst, upd])) <;> (try omega)
theorem rinv_nack (s s' : Sys) {i eid imm : _} (hinv : Inv2 s)
    (h : step s (.nack i eid imm) = some s') : RInv s'.pubHist (s'.insts i) := by
  have hi := hinv.round i
  cases hph : (s.insts i).phase with
  | round rd =>
    obtain ⟨h2, h3⟩ := hi rd hph
    simp only [step, hph] at h
    (repeat' split at h) <;> simp_all [Sys.setInst, upd, RInv, RoundOK2, RoundPc.isPub] <;> (try (subst h; simp_all [Sys.setInst, upd, RInv, RoundOK2, RoundPc.isPub])) <;> (try omega) <;> (try (cases hpc : rd.pc <;> simp_all [Res.applied, RoundPc.isPub]))
  | _ =>
    simp only [step, hph] at h
    (repeat' split at h) <;> simp_all [Sys.setInst, upd, RInv, RoundOK2, RoundPc.isPub] <;> (try (subst h; simp_all [Sys.setInst, upd, RInv, RoundOK2, RoundPc.isPub])) <;> (try omega)
theorem pinv_nack (s s' : Sys) {i eid imm : _} (hinv : Inv2 s)
    (h : step s (.nack i eid imm) = some s') : PInv s'.poolSize (s'.insts i) := by
  have hi := hinv.pool i
  by_cases hn : s.poolSize > 0
  · obtain ⟨p1, p2, p3⟩ := hi hn
    cases hph : (s.insts i).phase with
    | round rd =>
      have p3' := p3 rd hph
      simp only [step, hph] at h
      (repeat' split at h) <;> simp_all [Sys.setInst, upd, PInv, admission] <;> (try (subst h; simp_all [Sys.setInst, upd, PInv, admission])) <;> (try omega)
    | _ =>
      simp only [step, hph] at h
      (repeat' split at h) <;> simp_all [Sys.setInst, upd, PInv, admission] <;> (try (subst h; simp_all [Sys.setInst, upd, PInv, admission])) <;> (try omega)
  · have hps := step_poolSize s s' _ h
    intro hpos; rw [hps] at hpos; exact absurd hpos hn
theorem disc_nack (s s' : Sys) {i eid imm : _} (hinv : Inv2 s)
    (h : step s (.nack i eid imm) = some s') : ∀ k ∈ s'.discarded, ∃ t, k = Key.staging t := by
  have hd := hinv.disc
  simp only [step] at h
  (repeat' split at h) <;> simp_all [Sys.setInst, upd] <;> (try (subst h; simp_all [Sys.setInst, upd])) <;> (try omega)
theorem rinv_created (s s' : Sys) {i : _} (hinv : Inv2 s)
    (h : step s (.created i) = some s') : RInv s'.pubHist (s'.insts i) := by
  have hi := hinv.round i
  cases hph : (s.insts i).phase with
  | round rd =>
    obtain ⟨h2, h3⟩ := hi rd hph
    simp only [step, hph] at h
    (repeat' split at h) <;> simp_all [Sys.setInst, upd, RInv, RoundOK2, RoundPc.isPub] <;> (try (subst h; simp_all [Sys.setInst, upd, RInv, RoundOK2, RoundPc.isPub])) <;> (try omega) <;> (try (cases hpc : rd.pc <;> simp_all [Res.applied, RoundPc.isPub]))
  | _ =>
    simp only [step, hph] at h
    (repeat' split at h) <;> simp_all [Sys.setInst, upd, RInv, RoundOK2, RoundPc.isPub] <;> (try (subst h; simp_all [Sys.setInst, upd, RInv, RoundOK2, RoundPc.isPub])) <;> (try omega)
theorem pinv_created (s s' : Sys) {i : _} (hinv : Inv2 s)
    (h : step s (.created i) = some s') : PInv s'.poolSize (s'.insts i) := by
  have hi := hinv.pool i
  by_cases hn : s.poolSize > 0
  · obtain ⟨p1, p2, p3⟩ := hi hn
    cases hph : (s.insts i).phase with
    | round rd =>
      have p3' := p3 rd hph
      simp only [step, hph] at h
      (repeat' split at h) <;> simp_all [Sys.setInst, upd, PInv, admission] <;> (try (subst h; simp_all [Sys.setInst, upd, PInv, admission])) <;> (try omega)
    | _ =>
      simp only [step, hph] at h
      (repeat' split at h) <;> simp_all [Sys.setInst, upd, PInv, admission] <;> (try (subst h; simp_all [Sys.setInst, upd, PInv, admission])) <;> (try omega)
  · have hps := step_poolSize s s' _ h
    intro hpos; rw [hps] at hpos; exact absurd hpos hn
theorem disc_created (s s' : Sys) {i : _} (hinv : Inv2 s)
    (h : step s (.created i) = some s') : ∀ k ∈ s'.discarded, ∃ t, k = Key.staging t := by
  have hd := hinv.disc
  simp only [step] at h
  (repeat' split at h) <;> simp_all [Sys.setInst, upd] <;> (try (subst h; simp_all [Sys.setInst, upd])) <;> (try omega)
theorem rinv_createFail (s s' : Sys) {i : _} (hinv : Inv2 s)
    (h : step s (.createFail i) = some s') : RInv s'.pubHist (s'.insts i) := by
  have hi := hinv.round i
  cases hph : (s.insts i).phase with
  | round rd =>
    obtain ⟨h2, h3⟩ := hi rd hph
    simp only [step, hph] at h
    (repeat' split at h) <;> simp_all [Sys.setInst, upd, RInv, RoundOK2, RoundPc.isPub] <;> (try (subst h; simp_all [Sys.setInst, upd, RInv, RoundOK2, RoundPc.isPub])) <;> (try omega) <;> (try (cases hpc : rd.pc <;> simp_all [Res.applied, RoundPc.isPub]))
  | _ =>
    simp only [step, hph] at h
    (repeat' split at h) <;> simp_all [Sys.setInst, upd, RInv, RoundOK2, RoundPc.isPub] <;> (try (subst h; simp_all [Sys.setInst, upd, RInv, RoundOK2, RoundPc.isPub])) <;> (try omega)
theorem pinv_createFail (s s' : Sys) {i : _} (hinv : Inv2 s)
    (h : step s (.createFail i) = some s') : PInv s'.poolSize (s'.insts i) := by
  have hi := hinv.pool i
  by_cases hn : s.poolSize > 0
  · obtain ⟨p1, p2, p3⟩ := hi hn
    cases hph : (s.insts i).phase with
    | round rd =>
      have p3' := p3 rd hph
      simp only [step, hph] at h
      (repeat' split at h) <;> simp_all [Sys.setInst, upd, PInv, admission] <;> (try (subst h; simp_all [Sys.setInst, upd, PInv, admission])) <;> (try omega)
    | _ =>
      simp only [step, hph] at h
      (repeat' split at h) <;> simp_all [Sys.setInst, upd, PInv, admission] <;> (try (subst h; simp_all [Sys.setInst, upd, PInv, admission])) <;> (try omega)
  · have hps := step_poolSize s s' _ h
    intro hpos; rw [hps] at hpos; exact absurd hpos hn
theorem disc_createFail (s s' : Sys) {i : _} (hinv : Inv2 s)
    (h : step s (.createFail i) = some s') : ∀ k ∈ s'.discarded, ∃ t, k = Key.staging t := by
  have hd := hinv.disc
  simp only [step] at h
  (repeat' split at h) <;> simp_all [Sys.setInst, upd] <;> (try (subst h; simp_all [Sys.setInst, upd])) <;> (try omega)
theorem rinv_loaded (s s' : Sys) {i c : _} (hinv : Inv2 s)
    (h : step s (.loaded i c) = some s') : RInv s'.pubHist (s'.insts i) := by
  have hi := hinv.round i
  cases hph : (s.insts i).phase with
  | round rd =>
    obtain ⟨h2, h3⟩ := hi rd hph
    simp only [step, hph] at h
    (repeat' split at h) <;> simp_all [Sys.setInst, upd, RInv, RoundOK2, RoundPc.isPub] <;> (try (subst h; simp_all [Sys.setInst, upd, RInv, RoundOK2, RoundPc.isPub])) <;> (try omega) <;> (try (cases hpc : rd.pc <;> simp_all [Res.applied, RoundPc.isPub]))
  | _ =>
    simp only [step, hph] at h
    (repeat' split at h) <;> simp_all [Sys.setInst, upd, RInv, RoundOK2, RoundPc.isPub] <;> (try (subst h; simp_all [Sys.setInst, upd, RInv, RoundOK2, RoundPc.isPub])) <;> (try omega)
theorem pinv_loaded (s s' : Sys) {i c : _} (hinv : Inv2 s)
    (h : step s (.loaded i c) = some s') : PInv s'.poolSize (s'.insts i) := by
  have hi := hinv.pool i
  by_cases hn : s.poolSize > 0
  · obtain ⟨p1, p2, p3⟩ := hi hn
    cases hph : (s.insts i).phase with
    | round rd =>
      have p3' := p3 rd hph
      simp only [step, hph] at h
      (repeat' split at h) <;> simp_all [Sys.setInst, upd, PInv, admission] <;> (try (subst h; simp_all [Sys.setInst, upd, PInv, admission])) <;> (try omega)
    | _ =>
      simp only [step, hph] at h
      (repeat' split at h) <;> simp_all [Sys.setInst, upd, PInv, admission] <;> (try (subst h; simp_all [Sys.setInst, upd, PInv, admission])) <;> (try omega)
  · have hps := step_poolSize s s' _ h
    intro hpos; rw [hps] at hpos; exact absurd hpos hn
theorem disc_loaded (s s' : Sys) {i c : _} (hinv : Inv2 s)
    (h : step s (.loaded i c) = some s') : ∀ k ∈ s'.discarded, ∃ t, k = Key.staging t := by
  have hd := hinv.disc
  simp only [step] at h
  (repeat' split at h) <;> simp_all [Sys.setInst, upd] <;> (try (subst h; simp_all [Sys.setInst, upd])) <;> (try omega)
theorem rinv_loadFail (s s' : Sys) {i : _} (hinv : Inv2 s)
    (h : step s (.loadFail i) = some s') : RInv s'.pubHist (s'.insts i) := by
  have hi := hinv.round i
  cases hph : (s.insts i).phase with
  | round rd =>
    obtain ⟨h2, h3⟩ := hi rd hph
    simp only [step, hph] at h
    (repeat' split at h) <;> simp_all [Sys.setInst, upd, RInv, RoundOK2, RoundPc.isPub] <;> (try (subst h; simp_all [Sys.setInst, upd, RInv, RoundOK2, RoundPc.isPub])) <;> (try omega) <;> (try (cases hpc : rd.pc <;> simp_all [Res.applied, RoundPc.isPub]))
  | _ =>
    simp only [step, hph] at h
    (repeat' split at h) <;> simp_all [Sys.setInst, upd, RInv, RoundOK2, RoundPc.isPub] <;> (try (subst h; simp_all [Sys.setInst, upd, RInv, RoundOK2, RoundPc.isPub])) <;> (try omega)
theorem pinv_loadFail (s s' : Sys) {i : _} (hinv : Inv2 s)
    (h : step s (.loadFail i) = some s') : PInv s'.poolSize (s'.insts i) := by
  have hi := hinv.pool i
  by_cases hn : s.poolSize > 0
  · obtain ⟨p1, p2, p3⟩ := hi hn
    cases hph : (s.insts i).phase with
    | round rd =>
      have p3' := p3 rd hph
      simp only [step, hph] at h
      (repeat' split at h) <;> simp_all [Sys.setInst, upd, PInv, admission] <;> (try (subst h; simp_all [Sys.setInst, upd, PInv, admission])) <;> (try omega)
    | _ =>
      simp only [step, hph] at h
      (repeat' split at h) <;> simp_all [Sys.setInst, upd, PInv, admission] <;> (try (subst h; simp_all [Sys.setInst, upd, PInv, admission])) <;> (try omega)
  · have hps := step_poolSize s s' _ h
    intro hpos; rw [hps] at hpos; exact absurd hpos hn
theorem disc_loadFail (s s' : Sys) {i : _} (hinv : Inv2 s)
    (h : step s (.loadFail i) = some s') : ∀ k ∈ s'.discarded, ∃ t, k = Key.staging t := by
  have hd := hinv.disc
  simp only [step] at h
  (repeat' split at h) <;> simp_all [Sys.setInst, upd] <;> (try (subst h; simp_all [Sys.setInst, upd])) <;> (try omega)
theorem rinv_roundEnd (s s' : Sys) {i c : _} (hinv : Inv2 s)
    (h : step s (.roundEnd i c) = some s') : RInv s'.pubHist (s'.insts i) := by
  have hi := hinv.round i
  cases hph : (s.insts i).phase with
  | round rd =>
    obtain ⟨h2, h3⟩ := hi rd hph
    simp only [step, hph] at h
    (repeat' split at h) <;> simp_all [Sys.setInst, upd, RInv, RoundOK2, RoundPc.isPub] <;> (try (subst h; simp_all [Sys.setInst, upd, RInv, RoundOK2, RoundPc.isPub])) <;> (try omega) <;> (try (cases hpc : rd.pc <;> simp_all [Res.applied, RoundPc.isPub]))
  | _ =>
    simp only [step, hph] at h
    (repeat' split at h) <;> simp_all [Sys.setInst, upd, RInv, RoundOK2, RoundPc.isPub] <;> (try (subst h; simp_all [Sys.setInst, upd, RInv, RoundOK2, RoundPc.isPub])) <;> (try omega)
theorem pinv_roundEnd (s s' : Sys) {i c : _} (hinv : Inv2 s)
    (h : step s (.roundEnd i c) = some s') : PInv s'.poolSize (s'.insts i) := by
  have hi := hinv.pool i
  by_cases hn : s.poolSize > 0
  · obtain ⟨p1, p2, p3⟩ := hi hn
    cases hph : (s.insts i).phase with
    | round rd =>
      have p3' := p3 rd hph
      simp only [step, hph] at h
      (repeat' split at h) <;> simp_all [Sys.setInst, upd, PInv, admission] <;> (try (subst h; simp_all [Sys.setInst, upd, PInv, admission])) <;> (try omega)
    | _ =>
      simp only [step, hph] at h
      (repeat' split at h) <;> simp_all [Sys.setInst, upd, PInv, admission] <;> (try (subst h; simp_all [Sys.setInst, upd, PInv, admission])) <;> (try omega)
  · have hps := step_poolSize s s' _ h
    intro hpos; rw [hps] at hpos; exact absurd hpos hn
theorem disc_roundEnd (s s' : Sys) {i c : _} (hinv : Inv2 s)
    (h : step s (.roundEnd i c) = some s') : ∀ k ∈ s'.discarded, ∃ t, k = Key.staging t := by
  have hd := hinv.disc
  simp only [step] at h
  (repeat' split at h) <;> simp_all [Sys.setInst, upd] <;> (try (subst h; simp_all [Sys.setInst, upd])) <;> (try omega)
theorem rinv_crash (s s' : Sys) {i : _} (hinv : Inv2 s)
    (h : step s (.crash i) = some s') : RInv s'.pubHist (s'.insts i) := by
  have hi := hinv.round i
  cases hph : (s.insts i).phase with
  | round rd =>
    obtain ⟨h2, h3⟩ := hi rd hph
    simp only [step, hph] at h
    (repeat' split at h) <;> simp_all [Sys.setInst, upd, RInv, RoundOK2, RoundPc.isPub] <;> (try (subst h; simp_all [Sys.setInst, upd, RInv, RoundOK2, RoundPc.isPub])) <;> (try omega) <;> (try (cases hpc : rd.pc <;> simp_all [Res.applied, RoundPc.isPub]))
  | _ =>
    simp only [step, hph] at h
    (repeat' split at h) <;> simp_all [Sys.setInst, upd, RInv, RoundOK2, RoundPc.isPub] <;> (try (subst h; simp_all [Sys.setInst, upd, RInv, RoundOK2, RoundPc.isPub])) <;> (try omega)
theorem pinv_crash (s s' : Sys) {i : _} (hinv : Inv2 s)
    (h : step s (.crash i) = some s') : PInv s'.poolSize (s'.insts i) := by
  have hi := hinv.pool i
  by_cases hn : s.poolSize > 0
  · obtain ⟨p1, p2, p3⟩ := hi hn
    cases hph : (s.insts i).phase with
    | round rd =>
      have p3' := p3 rd hph
      simp only [step, hph] at h
      (repeat' split at h) <;> simp_all [Sys.setInst, upd, PInv, admission] <;> (try (subst h; simp_all [Sys.setInst, upd, PInv, admission])) <;> (try omega)
    | _ =>
      simp only [step, hph] at h
      (repeat' split at h) <;> simp_all [Sys.setInst, upd, PInv, admission] <;> (try (subst h; simp_all [Sys.setInst, upd, PInv, admission])) <;> (try omega)
  · have hps := step_poolSize s s' _ h
    intro hpos; rw [hps] at hpos; exact absurd hpos hn
theorem disc_crash (s s' : Sys) {i : _} (hinv : Inv2 s)
    (h : step s (.crash i) = some s') : ∀ k ∈ s'.discarded, ∃ t, k = Key.staging t := by
  have hd := hinv.disc
  simp only [step] at h
  (repeat' split at h) <;> simp_all [Sys.setInst, upd] <;> (try (subst h; simp_all [Sys.setInst, upd])) <;> (try omega)
theorem rinv_cacheLose (s s' : Sys) {i : _} (hinv : Inv2 s)
    (h : step s (.cacheLose i) = some s') : RInv s'.pubHist (s'.insts i) := by
  have hi := hinv.round i
  cases hph : (s.insts i).phase with
  | round rd =>
    obtain ⟨h2, h3⟩ := hi rd hph
    simp only [step, hph] at h
    (repeat' split at h) <;> simp_all [Sys.setInst, upd, RInv, RoundOK2, RoundPc.isPub] <;> (try (subst h; simp_all [Sys.setInst, upd, RInv, RoundOK2, RoundPc.isPub])) <;> (try omega) <;> (try (cases hpc : rd.pc <;> simp_all [Res.applied, RoundPc.isPub]))
  | _ =>
    simp only [step, hph] at h
    (repeat' split at h) <;> simp_all [Sys.setInst, upd, RInv, RoundOK2, RoundPc.isPub] <;> (try (subst h; simp_all [Sys.setInst, upd, RInv, RoundOK2, RoundPc.isPub])) <;> (try omega)
theorem pinv_cacheLose (s s' : Sys) {i : _} (hinv : Inv2 s)
    (h : step s (.cacheLose i) = some s') : PInv s'.poolSize (s'.insts i) := by
  have hi := hinv.pool i
  by_cases hn : s.poolSize > 0
  · obtain ⟨p1, p2, p3⟩ := hi hn
    cases hph : (s.insts i).phase with
    | round rd =>
      have p3' := p3 rd hph
      simp only [step, hph] at h
      (repeat' split at h) <;> simp_all [Sys.setInst, upd, PInv, admission] <;> (try (subst h; simp_all [Sys.setInst, upd, PInv, admission])) <;> (try omega)
    | _ =>
      simp only [step, hph] at h
      (repeat' split at h) <;> simp_all [Sys.setInst, upd, PInv, admission] <;> (try (subst h; simp_all [Sys.setInst, upd, PInv, admission])) <;> (try omega)
  · have hps := step_poolSize s s' _ h
    intro hpos; rw [hps] at hpos; exact absurd hpos hn
theorem disc_cacheLose (s s' : Sys) {i : _} (hinv : Inv2 s)
    (h : step s (.cacheLose i) = some s') : ∀ k ∈ s'.discarded, ∃ t, k = Key.staging t := by
  have hd := hinv.disc
  simp only [step] at h
  (repeat' split at h) <;> simp_all [Sys.setInst, upd] <;> (try (subst h; simp_all [Sys.setInst, upd])) <;> (try omega)
theorem rinv_tamper (s s' : Sys) {k o : _} (hinv : Inv2 s) (j : Nat)
    (h : step s (.tamper k o) = some s') : RInv s'.pubHist (s'.insts j) := by
  have hi := hinv.round j
  simp only [step] at h
  (repeat' split at h) <;> simp_all [Sys.setInst, upd, RInv, RoundOK2, RoundPc.isPub] <;> (try (subst h; simp_all [Sys.setInst, upd, RInv, RoundOK2, RoundPc.isPub])) <;> (try omega)
theorem pinv_tamper (s s' : Sys) {k o : _} (hinv : Inv2 s) (j : Nat)
    (h : step s (.tamper k o) = some s') : PInv s'.poolSize (s'.insts j) := by
  have hi := hinv.pool j
  simp only [step] at h
  (repeat' split at h) <;> simp_all [Sys.setInst, upd, PInv, admission] <;> (try (subst h; simp_all [Sys.setInst, upd, PInv, admission])) <;> (try omega)
theorem disc_tamper (s s' : Sys) {k o : _} (hinv : Inv2 s)
    (h : step s (.tamper k o) = some s') : ∀ k ∈ s'.discarded, ∃ t, k = Key.staging t := by
  have hd := hinv.disc
  simp only [step] at h
  (repeat' split at h) <;> simp_all [Sys.setInst, upd] <;> (try (subst h; simp_all [Sys.setInst, upd])) <;> (try omega)

end Seq

namespace Seq

theorem cacheLookup_mem {c : List (Nat × Nat × Nat)} {key idx ts : Nat}
    (h : cacheLookup c key = some (idx, ts)) : (key, idx, ts) ∈ c := by
  unfold cacheLookup at h
  split at h
  · rename_i k v hf
    injection h with h; subst h
    have hm := List.mem_of_find?_eq_some hf
    have hp := List.find?_some hf
    simp at hp; subst hp; exact hm
  · cases h

set_option maxHeartbeats 4000000 in
/-- how a step can change the deduplication cache of the acting instance -/
theorem step_cache (s s' : Sys) (e : Ev) (i : Nat) (h : step s e = some s') :
    (s'.insts i).cache = (s.insts i).cache ∨ (s'.insts i).cache = [] ∨
    ∃ rd, (s.insts i).phase = .round rd ∧ rd.pc = .done .ok ∧
      (s'.insts i).cache = (s.insts i).cache ++
        (rd.new.leaves.zipIdx.drop rd.old.leaves.length).map fun (l, k) => (l.key, k, l.ts) := by
  cases e <;> simp only [step] at h <;> (repeat' split at h) <;>
    simp_all [Sys.setInst, upd] <;> (try (subst h; simp [upd])) <;>
    (try (split <;> simp_all))

set_option maxHeartbeats 4000000 in
/-- how a step can change the list of acknowledgements -/
theorem step_acks (s s' : Sys) (e : Ev) (h : step s e = some s') :
    s'.acks = s.acks ∨ ∃ a, s'.acks = a :: s.acks ∧
      ((a.key, a.idx, a.ts) ∈ (s.insts a.inst).cache ∨
       ∃ rd l, (s.insts a.inst).phase = .round rd ∧ rd.pc = .done .ok ∧
         rd.new.leaves[a.idx]? = some l ∧ l.key = a.key ∧ l.ts = a.ts) := by
  cases e <;> simp only [step] at h <;> (repeat' split at h) <;>
    simp_all [Sys.setInst] <;> (try (subst h; simp_all)) <;>
    (try (left; exact cacheLookup_mem (by assumption)))

end Seq

namespace Seq

theorem step_rinv (s s' : Sys) (e : Ev) (i : Nat) (he : e.inst = some i) (hinv : Inv2 s)
    (h : step s e = some s') : RInv s'.pubHist (s'.insts i) := by
  cases e <;> simp only [Ev.inst, Option.some.injEq, reduceCtorEq] at he <;> subst he
  · exact rinv_launchCreate s s' hinv h
  · exact rinv_launchLoad s s' hinv h
  · exact rinv_launchRound s s' hinv h
  · exact rinv_launchSubmit s s' hinv h
  · exact rinv_config s s' hinv h
  · exact rinv_clock s s' hinv h
  · exact rinv_lockFetch s s' hinv h
  · exact rinv_lockCreate s s' hinv h
  · exact rinv_lockReplace s s' hinv h
  · exact rinv_fetch s s' hinv h
  · exact rinv_upload s s' hinv h
  · exact rinv_discard s s' hinv h
  · exact rinv_submitted s s' hinv h
  · exact rinv_ack s s' hinv h
  · exact rinv_nackEvicted s s' hinv h
  · exact rinv_nack s s' hinv h
  · exact rinv_created s s' hinv h
  · exact rinv_createFail s s' hinv h
  · exact rinv_loaded s s' hinv h
  · exact rinv_loadFail s s' hinv h
  · exact rinv_roundEnd s s' hinv h
  · exact rinv_crash s s' hinv h
  · exact rinv_cacheLose s s' hinv h

theorem step_pinv (s s' : Sys) (e : Ev) (i : Nat) (he : e.inst = some i) (hinv : Inv2 s)
    (h : step s e = some s') : PInv s'.poolSize (s'.insts i) := by
  cases e <;> simp only [Ev.inst, Option.some.injEq, reduceCtorEq] at he <;> subst he
  · exact pinv_launchCreate s s' hinv h
  · exact pinv_launchLoad s s' hinv h
  · exact pinv_launchRound s s' hinv h
  · exact pinv_launchSubmit s s' hinv h
  · exact pinv_config s s' hinv h
  · exact pinv_clock s s' hinv h
  · exact pinv_lockFetch s s' hinv h
  · exact pinv_lockCreate s s' hinv h
  · exact pinv_lockReplace s s' hinv h
  · exact pinv_fetch s s' hinv h
  · exact pinv_upload s s' hinv h
  · exact pinv_discard s s' hinv h
  · exact pinv_submitted s s' hinv h
  · exact pinv_ack s s' hinv h
  · exact pinv_nackEvicted s s' hinv h
  · exact pinv_nack s s' hinv h
  · exact pinv_created s s' hinv h
  · exact pinv_createFail s s' hinv h
  · exact pinv_loaded s s' hinv h
  · exact pinv_loadFail s s' hinv h
  · exact pinv_roundEnd s s' hinv h
  · exact pinv_crash s s' hinv h
  · exact pinv_cacheLose s s' hinv h

theorem step_disc (s s' : Sys) (e : Ev) (hinv : Inv2 s) (h : step s e = some s') :
    ∀ k ∈ s'.discarded, ∃ t, k = Key.staging t := by
  cases e
  · exact disc_launchCreate s s' hinv h
  · exact disc_launchLoad s s' hinv h
  · exact disc_launchRound s s' hinv h
  · exact disc_launchSubmit s s' hinv h
  · exact disc_config s s' hinv h
  · exact disc_clock s s' hinv h
  · exact disc_lockFetch s s' hinv h
  · exact disc_lockCreate s s' hinv h
  · exact disc_lockReplace s s' hinv h
  · exact disc_fetch s s' hinv h
  · exact disc_upload s s' hinv h
  · exact disc_discard s s' hinv h
  · exact disc_submitted s s' hinv h
  · exact disc_ack s s' hinv h
  · exact disc_nackEvicted s s' hinv h
  · exact disc_nack s s' hinv h
  · exact disc_created s s' hinv h
  · exact disc_createFail s s' hinv h
  · exact disc_loaded s s' hinv h
  · exact disc_loadFail s s' hinv h
  · exact disc_roundEnd s s' hinv h
  · exact disc_crash s s' hinv h
  · exact disc_cacheLose s s' hinv h
  · exact disc_tamper s s' hinv h

theorem zipIdx_drop_mem {α : Type} {l : List α} {n : Nat} {x : α} {k : Nat}
    (h : (x, k) ∈ l.zipIdx.drop n) : l[k]? = some x := by
  have := List.mem_of_mem_drop h
  exact (List.mem_zipIdx_iff_getElem?.1 this)

theorem inv2_step (s s' : Sys) (e : Ev) (hinv : Inv2 s) (h : step s e = some s') : Inv2 s' := by
  have hps := step_poolSize s s' e h
  have hsub := step_pubHist_sub s s' e h
  refine ⟨?_, ?_, ?_, ?_, step_disc s s' e hinv h⟩
  · intro j
    by_cases hj : e.inst = some j
    · exact step_rinv s s' e j hj hinv h
    · rw [step_insts_other s s' e h j hj]; exact (hinv.round j).mono hsub
  · intro j
    by_cases hj : e.inst = some j
    · exact step_pinv s s' e j hj hinv h
    · rw [step_insts_other s s' e h j hj, hps]; exact hinv.pool j
  · intro j
    rcases step_cache s s' e j h with hc | hc | ⟨rd, hph, hpc, hc⟩
    · intro x hx; rw [hc] at hx; exact (hinv.cache j x hx).mono hsub
    · intro x hx; rw [hc] at hx; cases hx
    · intro x hx
      rw [hc] at hx
      rcases List.mem_append.1 hx with hx | hx
      · exact (hinv.cache j x hx).mono hsub
      · obtain ⟨hpub, hisp⟩ := hinv.round j rd hph
        have hp : rd.published = true := by rw [hisp, hpc]; rfl
        obtain ⟨⟨l, k⟩, hm, rfl⟩ := List.mem_map.1 hx
        exact ⟨rd.new, hsub _ (hpub hp), l, zipIdx_drop_mem hm, rfl, rfl⟩
  · intro a ha
    rcases step_acks s s' e h with hc | ⟨a', hc, hsrc⟩
    · rw [hc] at ha; exact (hinv.acks a ha).mono hsub
    · rw [hc] at ha
      cases ha with
      | head =>
        rcases hsrc with hm | ⟨rd, l, hph, hpc, hl, hk, ht⟩
        · exact (hinv.cache _ _ hm).mono hsub
        · obtain ⟨hpub, hisp⟩ := hinv.round _ rd hph
          have hp : rd.published = true := by rw [hisp, hpc]; rfl
          exact ⟨rd.new, hsub _ (hpub hp), l, hl, hk, ht⟩
      | tail _ ha' => exact (hinv.acks a ha').mono hsub

theorem inv2_init (p : Nat) : Inv2 (init p) := by
  refine ⟨?_, ?_, ?_, ?_, ?_⟩
  · intro i rd h; simp [init] at h
  · intro i _; simp [init]
  · intro i x hx; simp [init] at hx
  · intro a ha; simp [init] at ha
  · intro k hk; simp [init] at hk

theorem inv2_run (s s' : Sys) (es : List Ev) (hinv : Inv2 s) (h : run s es = some s') : Inv2 s' := by
  induction es generalizing s with
  | nil => simp [run] at h; subst h; exact hinv
  | cons e es ih =>
    simp only [run] at h
    split at h
    · rename_i s1 hs1
      exact ih s1 (inv2_step s s1 e hinv hs1) h
    · cases h

theorem inv2_reachable {s : Sys} (h : Reachable s) : Inv2 s := by
  obtain ⟨p, es, h⟩ := h
  exact inv2_run _ _ es (inv2_init p) h

end Seq
