import Model.ClientV
import Proofs.Leaf
import Proofs.MerkleMore
import Proofs.Checkpoint
/-! Helper lemmas for `Props/C12.lean` (core Lean only). -/
namespace ClientV
open Codec Merkle

variable {H : Type}

/-- `hf.leaf` (RecordHash) has no collisions -/
def LeafInj (hf : HashFn H) : Prop := ∀ a b : Bytes, hf.leaf a = hf.leaf b → a = b

/-- What `cutEntry` hashed is the Merkle leaf of exactly the entry sunlight's wrapper re-parses
from the consumed prefix. -/
theorem cut_parse (hf : HashFn H) (allow : Bool) {data entry rest : Bytes} {rh : H} {e : LogEntry}
    (hc : cutEntry hf data = some (entry, rh, rest)) (hp : parseEntry allow entry = some e) :
    ∃ m, merkleTreeLeaf e = some m ∧ rh = hf.leaf m ∧ WF e := by
  unfold cutEntry at hc
  cases hr : readTileLeaf data with
  | error err => rw [hr] at hc; cases hc
  | ok p =>
    obtain ⟨e0, rest0⟩ := p
    rw [hr] at hc
    simp only at hc
    cases hm : merkleTreeLeaf e0 with
    | none => rw [hm] at hc; cases hc
    | some m =>
      rw [hm] at hc
      simp only [Option.some.injEq, Prod.mk.injEq] at hc
      obtain ⟨hentry, hrh, hrest⟩ := hc
      obtain ⟨pre, hpre, hcat, wf⟩ := leaf_canonical data e0 rest0 hr
      have hentry' : entry = pre := by
        rw [← hentry, ← hcat]
        simp
      obtain ⟨body, hbody, hread⟩ := leaf_roundtrip e0 [] [] wf
      rw [hpre] at hbody
      simp only [List.nil_append, Option.some.injEq] at hbody
      rw [List.append_nil, ← hbody] at hread
      -- the re-parse of the prefix gives the same entry
      have he : e = e0 := by
        unfold parseEntry at hp
        rw [hentry'] at hp
        cases allow with
        | true =>
          simp only [if_true] at hp
          rw [hread] at hp
          simp only [Option.some.injEq] at hp
          exact hp.symm
        | false =>
          simp only [Bool.false_eq_true, if_false] at hp
          unfold readTileLeafStrict at hp
          rw [hread] at hp
          simp only at hp
          by_cases ha : e0.archival = true
          · simp [ha] at hp
          · simp [ha] at hp; exact hp.symm
      subst he
      exact ⟨m, hm, hrh.symm, wf⟩

theorem getElem?_map_leaf (hf : HashFn H) (hinj : LeafInj hf) (L : List Bytes) (j : Nat) (m : Bytes)
    (h : (L.map hf.leaf)[j]? = some (hf.leaf m)) : L[j]? = some m := by
  rw [List.getElem?_map] at h
  cases hl : L[j]? with
  | none => rw [hl] at h; cases h
  | some x =>
    rw [hl] at h
    simp only [Option.map_some, Option.some.injEq] at h
    rw [hinj x m h]

/-- every pair `scanTile` yields is the committed leaf at that index -/
theorem scanTile_sound [DecidableEq H] (hf : HashFn H) (hinj : LeafInj hf) (allow : Bool) (start : Nat) (L : List Bytes) :
    ∀ (hs : List H) (i : Nat) (data : Bytes),
      (∀ k h, hs[k]? = some h → (L.map hf.leaf)[i + k]? = some h) →
      ∀ p ∈ (scanTile hf allow start i data hs).1,
        start ≤ p.1 ∧ i ≤ p.1 ∧ p.1 < i + hs.length ∧
          ∃ m, merkleTreeLeaf p.2 = some m ∧ L[p.1]? = some m ∧ WF p.2 := by
  intro hs
  induction hs with
  | nil => intro i data _ p hp; simp [scanTile] at hp
  | cons h hs ih =>
    intro i data hauth p hp
    have hauth' : ∀ k h', hs[k]? = some h' → (L.map hf.leaf)[i + 1 + k]? = some h' := by
      intro k h' hk
      have := hauth (k + 1) h' (by simpa using hk)
      rwa [show i + (k + 1) = i + 1 + k by omega] at this
    unfold scanTile at hp
    split at hp
    · simp at hp
    · cases hc : cutEntry hf data with
      | none => rw [hc] at hp; simp at hp
      | some x =>
        obtain ⟨entry, rh, rest⟩ := x
        rw [hc] at hp
        simp only at hp
        split at hp
        · simp at hp
        · rename_i hrh
          have hrh' : rh = h := by
            cases hd : decide (rh = h) <;> simp_all
          split at hp
          · obtain ⟨a, b, c, d⟩ := ih (i + 1) rest hauth' p hp
            exact ⟨a, by omega, by simp only [List.length_cons]; omega, d⟩
          · rename_i hstart
            cases hpe : parseEntry allow entry with
            | none => rw [hpe] at hp; simp at hp
            | some e =>
              rw [hpe] at hp
              simp only [List.mem_cons] at hp
              rcases hp with rfl | hp
              · obtain ⟨m, hm, hrhm, wf⟩ := cut_parse hf allow hc hpe
                refine ⟨by simp only; omega, Nat.le_refl _, by simp only [List.length_cons]; omega, m, hm, ?_, wf⟩
                have h0 := hauth 0 h (by simp)
                rw [Nat.add_zero, ← hrh', hrhm] at h0
                exact getElem?_map_leaf hf hinj L i m h0
              · obtain ⟨a, b, c, d⟩ := ih (i + 1) rest hauth' p hp
                exact ⟨a, by omega, by simp only [List.length_cons]; omega, d⟩

theorem cutNth_cut (hf : HashFn H) : ∀ (k : Nat) (data entry : Bytes) (rh : H),
    cutNth hf k data = some (entry, rh) → ∃ d rest, cutEntry hf d = some (entry, rh, rest) := by
  intro k
  induction k with
  | zero =>
    intro data entry rh h
    unfold cutNth at h
    split at h
    · cases h
    · cases hc : cutEntry hf data with
      | none => rw [hc] at h; cases h
      | some x =>
        obtain ⟨a, b, c⟩ := x
        rw [hc] at h
        simp only [Option.map_some, Option.some.injEq, Prod.mk.injEq] at h
        exact ⟨data, c, by rw [hc, h.1, h.2]⟩
  | succ k ih =>
    intro data entry rh h
    unfold cutNth at h
    split at h
    · cases h
    · cases hc : cutEntry hf data with
      | none => rw [hc] at h; cases h
      | some x =>
        obtain ⟨a, b, c⟩ := x
        rw [hc] at h
        exact ih c entry rh h

/-- `Client.Entry`: whatever tile and proof the server supplies, a returned entry is the committed
leaf at `index`, and carries that index. -/
theorem clientEntry_sound [DecidableEq H] (hf : HashFn H) (hinj : LeafInj hf) (hnode : NodeInj hf.node)
    (allow : Bool) (t : Tree H) (index : Nat) (data : Bytes) (proof : List H) (e : LogEntry)
    (h : clientEntry hf allow t index data proof = some e) :
    index < t.n ∧ (e.archival = false → e.leafIndex = Int.ofNat index) ∧ WF e ∧
      ∃ m, merkleTreeLeaf e = some m ∧ ∀ L, Opens hf t L → L[index]? = some m := by
  unfold clientEntry at h
  split at h
  · cases h
  · rename_i hlt
    cases hn : cutNth hf (index % tileWidth) data with
    | none => rw [hn] at h; cases h
    | some x =>
      obtain ⟨entry, rh⟩ := x
      rw [hn] at h
      simp only at h
      split at h
      · cases h
      · rename_i hck
        cases hpe : parseEntry allow entry with
        | none => rw [hpe] at h; cases h
        | some e' =>
          rw [hpe] at h
          simp only at h
          split at h
          · cases h
          · rename_i hidx
            simp only [Option.some.injEq] at h
            subst h
            obtain ⟨d, rest, hc⟩ := cutNth_cut hf _ _ _ _ hn
            obtain ⟨m, hm, hrhm, wf⟩ := cut_parse hf allow hc hpe
            refine ⟨by omega, ?_, wf, m, hm, ?_⟩
            · intro ha
              cases hd : decide (e'.leafIndex = Int.ofNat index) <;> simp_all
            · intro L hL
              have hck' : checkRecord hf.node proof t.n t.root index rh = true := by
                cases hb : checkRecord hf.node proof t.n t.root index rh <;> simp_all
              have := checkRecord_sound hf.node hf.empty hnode proof t.n t.root index rh hck'
                (L.map hf.leaf) (by rw [List.length_map]; exact hL.1) hL.2
              rw [hrhm] at this
              exact getElem?_map_leaf hf hinj L index m this

/-! ### `note.Open` with the single verifier of the configured key -/

open Checkpoint in
theorem openLoop_verified (known : List NoteVerifier) (text : Bytes) :
    ∀ (sigs : List SigLine) (cnt : Nat) (seen : List (Bytes × Nat)) (acc l : List SigLine),
      openLoop known text sigs cnt seen acc = .ok l →
      ∀ s ∈ l, s ∈ acc ∨ (s ∈ sigs ∧ ∃ v ∈ known, v.name = s.name ∧ v.hash = s.hash ∧ v.verify text s.sig = true) := by
  intro sigs
  induction sigs with
  | nil =>
    intro cnt seen acc l h s hs
    simp only [openLoop, Except.ok.injEq] at h
    subst h
    exact Or.inl (List.mem_reverse.1 hs)
  | cons x rest ih =>
    intro cnt seen acc l h s hs
    unfold openLoop at h
    split at h
    · cases h
    · have lift : ∀ acc' : List Checkpoint.SigLine, (s ∈ acc' ∨ (s ∈ rest ∧ ∃ v ∈ known, v.name = s.name ∧ v.hash = s.hash ∧ v.verify text s.sig = true)) →
          (s ∈ acc' → s ∈ acc ∨ (s = x ∧ ∃ v ∈ known, v.name = s.name ∧ v.hash = s.hash ∧ v.verify text s.sig = true)) →
          s ∈ acc ∨ (s ∈ x :: rest ∧ ∃ v ∈ known, v.name = s.name ∧ v.hash = s.hash ∧ v.verify text s.sig = true) := by
        intro acc' h1 h2
        rcases h1 with h1 | ⟨h1, h3⟩
        · rcases h2 h1 with h2 | ⟨rfl, h4⟩
          · exact Or.inl h2
          · exact Or.inr ⟨List.mem_cons_self, h4⟩
        · exact Or.inr ⟨List.mem_cons_of_mem _ h1, h3⟩
      split at h
      · exact lift acc (ih _ _ _ _ h s hs) Or.inl
      · rename_i v hfilter
        split at h
        · exact lift acc (ih _ _ _ _ h s hs) Or.inl
        · split at h
          · rename_i hver
            refine lift (x :: acc) (ih _ _ _ _ h s hs) ?_
            intro hmem
            rcases List.mem_cons.1 hmem with rfl | hmem
            · have hv : v ∈ known.filter (fun v => v.name = s.name ∧ v.hash = s.hash) := by rw [hfilter]; simp
              rw [List.mem_filter] at hv
              simp only [decide_eq_true_eq] at hv
              exact Or.inr ⟨rfl, v, hv.1, hv.2.1, hv.2.2, hver⟩
            · exact Or.inl hmem
          · cases h
      · cases h

open Checkpoint in
/-- `note.Open` with one known verifier: some signature line of the note verifies under it -/
theorem noteOpen_single (v : NoteVerifier) (note : Note) (l : List SigLine) (h : noteOpen [v] note = .ok l) :
    ∃ s ∈ note.sigs, v.name = s.name ∧ v.verify note.text s.sig = true := by
  unfold noteOpen at h
  cases hl : openLoop [v] note.text note.sigs 0 [] [] with
  | error err => rw [hl] at h; cases h
  | ok l' =>
    rw [hl] at h
    cases l' with
    | nil => cases h
    | cons s0 rest =>
      have := openLoop_verified [v] note.text note.sigs 0 [] [] (s0 :: rest) hl s0 List.mem_cons_self
      rcases this with hacc | ⟨hmem, v', hv, hname, _, hver⟩
      · cases hacc
      · simp only [List.mem_singleton] at hv
        subst hv
        exact ⟨s0, hmem, hname, hver⟩

open Checkpoint in
/-- `Client.Checkpoint`: a returned checkpoint is the parse of the note text, and one of the note's
signature lines verifies as an RFC 6962 tree-head signature of the configured key over it. -/
theorem clientCheckpoint_sound (cv : Crypto) (key : PubKey) (kh : Bytes → Nat) (note : Note) (c : Checkpoint.Checkpoint)
    (h : clientCheckpoint cv key kh note = some c) :
    parseCheckpoint note.text = some c ∧ c.origin = firstLine note.text ∧
      ∃ s ∈ note.sigs, s.name = c.origin ∧ verifier cv c.origin key note.text s.sig = true := by
  unfold clientCheckpoint at h
  simp only at h
  split at h
  · cases h
  · rename_i l hopen
    split at h
    · cases h
    · rename_i c' hp
      split at h
      · cases h
      · rename_i horigin
        simp only [Option.some.injEq] at h
        subst h
        have horigin' : c'.origin = firstLine note.text := by
          cases hd : decide (c'.origin = firstLine note.text) <;> simp_all
        obtain ⟨s, hmem, hname, hver⟩ := noteOpen_single _ note l hopen
        simp only at hname hver
        exact ⟨hp, horigin', s, hmem, by rw [horigin']; exact hname.symm, by rw [horigin']; exact hver⟩

/-! ### a collision-free hash function for the non-vacuity examples: the free term algebra -/
namespace Demo

inductive T where
  | leaf (b : Bytes)
  | node (a b : T)
  | empty
deriving DecidableEq

def thf : HashFn T := ⟨T.leaf, T.node, T.empty⟩

theorem thf_leafInj : LeafInj thf := fun a b h => by cases h; rfl
theorem thf_nodeInj : NodeInj thf.node := fun a b c d h => by cases h; exact ⟨rfl, rfl⟩

end Demo

end ClientV
