import Proofs.MirrorSteps
/-! The invariant is preserved by every step of the mirror transition system, hence holds in every
reachable state (`reachable_inv`). Core only. -/
namespace Mirror
open Merkle Witness Checkpoint

variable (node : Hash → Hash → Hash) (emptyHash : Hash) (leaf : Entry → Hash)

/-! ### frames -/

/-- what every control primitive leaves alone -/
structure Frame (a b : MState) : Prop where
  hist : b.w.hist = a.w.hist
  mlock : b.mlock = a.mlock
  mpub : b.mpub = a.mpub
  data : b.data = a.data
  hash : b.hash = a.hash
  enforce : b.enforce = a.enforce
  key : b.key = a.key
  serial : b.serial = a.serial
  mhist : b.mhist = a.mhist
  released : b.released = a.released

theorem Frame.refl (a : MState) : Frame a a := ⟨rfl, rfl, rfl, rfl, rfl, rfl, rfl, rfl, rfl, rfl⟩

theorem Frame.trans {a b c : MState} (h1 : Frame a b) (h2 : Frame b c) : Frame a c :=
  ⟨h2.hist.trans h1.hist, h2.mlock.trans h1.mlock, h2.mpub.trans h1.mpub, h2.data.trans h1.data,
   h2.hash.trans h1.hash, h2.enforce.trans h1.enforce, h2.key.trans h1.key, h2.serial.trans h1.serial,
   h2.mhist.trans h1.mhist, h2.released.trans h1.released⟩

theorem storeInv_frame {a b : MState} (h : Frame a b) (ht : top emptyHash b ≤ top emptyHash a)
    (hi : StoreInv node emptyHash leaf a) : StoreInv node emptyHash leaf b := by
  obtain ⟨i1, i2, i3, i4, i5⟩ := hi
  refine ⟨by rw [h.hist, h.data]; exact i1, by rw [h.hist, h.hash]; exact i2, ?_, by rw [h.mhist, h.hash]; exact i4,
    by rw [h.hash, h.data]; exact i5⟩
  intro M hM hle l n w ht'
  have := i3 M hM (by omega) l n w ht'
  rw [h.hash, h.data]; exact this

theorem reqInv_mono {c : MCfg} {a b : MState} {r : Req} (hw : b.w.hist = a.w.hist)
    (hn : ∀ x, a.next = some x → ∃ y, b.next = some y ∧ x ≤ y)
    (h : ReqInv node emptyHash leaf c a r) : ReqInv node emptyHash leaf c b r := by
  obtain ⟨h1, h2, h3, h4, h5, h6, h7, h8⟩ := h
  refine ⟨by rw [hw]; exact h1, h2, h3, by rw [hw]; exact h4, h5, ?_, h7, by rw [hw]; exact h8⟩
  obtain ⟨x, hx, hx'⟩ := h6
  obtain ⟨y, hy, hxy⟩ := hn x hx
  exact ⟨y, hy, fun hlt => by have := hx' hlt; omega⟩

theorem reqInv_congr {c : MCfg} {a b : MState} {r : Req} (hw : b.w.hist = a.w.hist) (hn : b.next = a.next)
    (h : ReqInv node emptyHash leaf c a r) : ReqInv node emptyHash leaf c b r :=
  reqInv_mono node emptyHash leaf hw (fun x hx => ⟨x, by rw [hn]; exact hx, Nat.le_refl _⟩) h

/-! ### `checkpointLocked` -/

theorem payloadOf_ck (o : Bytes) (v : LockVal) :
    payloadOf v = .empty ∨ payloadCk o (payloadOf v) = ckOf emptyHash o v := by
  cases v with
  | none => left; rfl
  | some p => right; obtain ⟨n, s⟩ := p; rfl

theorem fetchPending_inv (c : MCfg) (f : Bool) (st : MState) (hi : MInv node emptyHash leaf c st) :
    MInv node emptyHash leaf c (fetchPending emptyHash c f st).1 ∧
    Frame st (fetchPending emptyHash c f st).1 ∧
    (fetchPending emptyHash c f st).1.mcache = st.mcache ∧ (fetchPending emptyHash c f st).1.next = st.next ∧
    (fetchPending emptyHash c f st).1.reqs = st.reqs ∧ (fetchPending emptyHash c f st).1.issued = st.issued ∧
    (∀ p, (fetchPending emptyHash c f st).2 = some p → p.ck ∈ st.w.hist ∧
      (∀ k, payloadCk c.origin p.payload = some k → k ∈ st.w.hist)) := by
  obtain ⟨hc, hs⟩ := hi
  have hres : ∀ v, (∀ k, ckOf emptyHash c.origin v = some k → k ∈ st.w.hist) →
      ∀ p, ((openStored emptyHash c.cfg c.origin v).map fun k => (⟨k, payloadOf v⟩ : PCk)) = some p →
      p.ck ∈ st.w.hist ∧ (∀ k, payloadCk c.origin p.payload = some k → k ∈ st.w.hist) := by
    intro v hv p hp
    cases ho : openStored emptyHash c.cfg c.origin v with
    | none => rw [ho] at hp; cases hp
    | some k =>
      rw [ho] at hp
      simp only [Option.map_some, Option.some.injEq] at hp
      subst hp
      refine ⟨hv k (openStored_ckOf emptyHash ho), ?_⟩
      intro k' hk'
      rcases payloadOf_ck emptyHash c.origin v with e | e
      · simp only [] at hk'; rw [e] at hk'; cases hk'
      · simp only [] at hk'; rw [e] at hk'; exact hv k' hk'
  have hlock : ∀ k, ckOf emptyHash c.origin st.w.lock = some k → k ∈ st.w.hist := by
    intro k hk
    exact List.mem_of_getLast? (hc.wi.last k hk)
  unfold fetchPending
  split
  · rename_i v hcache
    exact ⟨⟨hc, hs⟩, Frame.refl _, rfl, rfl, rfl, rfl, hres v (fun k hk => hc.cache v k hcache hk)⟩
  · rename_i hcache
    split
    · refine ⟨⟨⟨⟨hc.wi.chain, hc.wi.last, hc.wi.zero, hc.wi.rel, hc.wi.pub⟩, hc.hne, ?_, hc.mh, hc.mlast, hc.mmono, hc.mc, hc.nx, ?_, hc.tk, hc.rel, hc.pub⟩,
        ⟨hs.data, hs.hash, hs.comp, hs.cut, hs.h2d⟩⟩, ⟨rfl, rfl, rfl, rfl, rfl, rfl, rfl, rfl, rfl, rfl⟩, rfl, rfl, rfl, rfl, ?_⟩
      · intro v k hv hk
        simp only [OState.setCache, if_true, Option.some.injEq] at hv
        subst hv
        exact hlock k hk
      · intro rid r hr; exact reqInv_congr (a := st) node emptyHash leaf rfl rfl (hc.rq rid r hr)
      · exact hres st.w.lock hlock
    · refine ⟨⟨⟨⟨hc.wi.chain, hc.wi.last, hc.wi.zero, hc.wi.rel, hc.wi.pub⟩, hc.hne, ?_, hc.mh, hc.mlast, hc.mmono, hc.mc, hc.nx, ?_, hc.tk, hc.rel, hc.pub⟩,
        ⟨hs.data, hs.hash, hs.comp, hs.cut, hs.h2d⟩⟩, ⟨rfl, rfl, rfl, rfl, rfl, rfl, rfl, rfl, rfl, rfl⟩, rfl, rfl, rfl, rfl, ?_⟩
      · intro v k hv; rw [hcache] at hv; cases hv
      · intro rid r hr; exact reqInv_congr (a := st) node emptyHash leaf rfl rfl (hc.rq rid r hr)
      · intro p hp; cases hp

/-! ### `mirrorCheckpointLocked` -/

theorem mirrorP_ck (v : MVal) : (mirrorP emptyHash v).ck = mirrorCk emptyHash v := by
  cases v with
  | none => rfl
  | some p => rfl

theorem mirrorCk_mem {c : MCfg} {st : MState} (hc : CtlInv node emptyHash leaf c st) (h : st.mlock ≠ none) :
    mirrorCk emptyHash st.mlock ∈ st.mhist := by
  cases hm : st.mlock with
  | none => exact absurd hm h
  | some p =>
    have := hc.mlast
    rw [hm] at this
    simp only [Option.map_some] at this
    exact List.mem_of_getLast? this

/-- after a successful `mirrorCheckpointLocked`: the cached copy is the stored value, `nextEntry` is set -/
theorem fetchMirror_inv (c : MCfg) (f : Bool) (st : MState) (hi : MInv node emptyHash leaf c st) :
    MInv node emptyHash leaf c (fetchMirror emptyHash f st).1 ∧
    Frame st (fetchMirror emptyHash f st).1 ∧
    (fetchMirror emptyHash f st).1.w = st.w ∧
    (fetchMirror emptyHash f st).1.reqs = st.reqs ∧ (fetchMirror emptyHash f st).1.issued = st.issued ∧
    (∀ x, st.next = some x → (fetchMirror emptyHash f st).1.next = some x) ∧
    (∀ p x, (fetchMirror emptyHash f st).2 = some (p, x) →
      p = mirrorP emptyHash st.mlock ∧ (fetchMirror emptyHash f st).1.mcache = some st.mlock ∧
      (fetchMirror emptyHash f st).1.next = some x) := by
  obtain ⟨hc, hs⟩ := hi
  -- the common tail `fin`, from a state `s` that is `st` up to `mcache := some st.mlock` and the log
  have hfin : ∀ (s : MState), s.w = st.w → s.mlock = st.mlock → s.mpub = st.mpub → s.data = st.data → s.hash = st.hash →
      s.enforce = st.enforce → s.key = st.key → s.serial = st.serial → s.mhist = st.mhist → s.released = st.released →
      s.reqs = st.reqs → s.issued = st.issued → s.next = st.next → s.mcache = some st.mlock →
      let r : MState × Option (PCk × Nat) :=
        (match s.next with
          | some x => (s, some (mirrorP emptyHash st.mlock, x))
          | none => ({ s with next := some (mirrorP emptyHash st.mlock).ck.1 }, some (mirrorP emptyHash st.mlock, (mirrorP emptyHash st.mlock).ck.1)))
      MInv node emptyHash leaf c r.1 ∧ Frame st r.1 ∧ r.1.w = st.w ∧ r.1.reqs = st.reqs ∧ r.1.issued = st.issued ∧
      (∀ x, st.next = some x → r.1.next = some x) ∧
      (∀ p x, r.2 = some (p, x) → p = mirrorP emptyHash st.mlock ∧ r.1.mcache = some st.mlock ∧ r.1.next = some x) := by
    intro s e1 e2 e3 e4 e5 e6 e7 e8 e9 e10 e11 e12 e13 e14
    cases hn : s.next with
    | some x =>
      simp only []
      refine ⟨⟨⟨by rw [e1]; exact hc.wi, by rw [e1]; exact hc.hne, by rw [e1]; exact hc.cache, by rw [e1, e9]; exact hc.mh,
          by rw [e9, e2]; exact hc.mlast, by rw [e9]; exact hc.mmono, ?_, by rw [e13, e2, e1]; exact hc.nx, ?_,
          by rw [e12, e1]; exact hc.tk, by rw [e10, e9]; exact hc.rel, by rw [e3, e9]; exact hc.pub⟩, ?_⟩,
        ⟨by rw [e1], e2, e3, e4, e5, e6, e7, e8, e9, e10⟩, e1, e11, e12, ?_, ?_⟩
      · intro v hv; rw [e14] at hv; rw [e2]; exact (Option.some.inj hv).symm
      · intro rid r hr
        rw [e11] at hr
        exact reqInv_congr node emptyHash leaf (by rw [e1]) e13 (hc.rq rid r hr)
      · exact storeInv_frame node emptyHash leaf ⟨by rw [e1], e2, e3, e4, e5, e6, e7, e8, e9, e10⟩
          (by unfold top; rw [e13, e2]; exact Nat.le_refl _) hs
      · intro y hy; rw [e13] at hn; rw [hn] at hy; rw [e13, hn]; exact hy
      · intro p y hpy
        simp only [Option.some.injEq, Prod.mk.injEq] at hpy
        exact ⟨hpy.1.symm, e14, by rw [hn, hpy.2]⟩
    | none =>
      simp only []
      rw [e13] at hn
      have hck : (mirrorP emptyHash st.mlock).ck = mirrorCk emptyHash st.mlock := mirrorP_ck emptyHash _
      refine ⟨⟨⟨by rw [e1]; exact hc.wi, by rw [e1]; exact hc.hne, by rw [e1]; exact hc.cache, by rw [e1, e9]; exact hc.mh,
          by rw [e9, e2]; exact hc.mlast, by rw [e9]; exact hc.mmono, ?_, ?_, ?_,
          by rw [e12, e1]; exact hc.tk, by rw [e10, e9]; exact hc.rel, by rw [e3, e9]; exact hc.pub⟩, ?_⟩,
        ⟨by rw [e1], e2, e3, e4, e5, e6, e7, e8, e9, e10⟩, e1, e11, e12, ?_, ?_⟩
      · intro v hv; simp only [] at hv; rw [e14] at hv; simp only []; rw [e2]; exact (Option.some.inj hv).symm
      · intro x hx
        simp only [Option.some.injEq] at hx
        simp only []
        rw [e2, e1, ← hx, hck]
        refine ⟨Nat.le_refl _, ?_⟩
        by_cases hm : st.mlock = none
        · obtain ⟨k, hk⟩ := List.exists_mem_of_ne_nil _ hc.hne
          exact ⟨k, hk, by rw [hm]; exact Nat.zero_le _⟩
        · exact ⟨_, hc.mh _ (mirrorCk_mem node emptyHash leaf hc hm), Nat.le_refl _⟩
      · intro rid r hr
        simp only [] at hr
        rw [e11] at hr
        obtain ⟨x, hx, _⟩ := (hc.rq rid r hr).nx
        rw [hn] at hx; cases hx
      · refine storeInv_frame node emptyHash leaf ⟨by simp only []; rw [e1], e2, e3, e4, e5, e6, e7, e8, e9, e10⟩ ?_ hs
        unfold top
        simp only [Option.getD_some]
        rw [e2, hn, hck]
        simp
      · intro y hy; rw [hn] at hy; cases hy
      · intro p y hpy
        simp only [Option.some.injEq, Prod.mk.injEq] at hpy
        exact ⟨hpy.1.symm, e14, by rw [hpy.2]⟩
  unfold fetchMirror
  split
  · rename_i v hmc
    have hv : v = st.mlock := hc.mc v hmc
    subst hv
    exact hfin st rfl rfl rfl rfl rfl rfl rfl rfl rfl rfl rfl rfl rfl hmc
  · rename_i hmc
    split
    · exact hfin { st with log := st.log ++ [.mfetch], mcache := some st.mlock } rfl rfl rfl rfl rfl rfl rfl rfl rfl rfl rfl rfl rfl rfl
    · refine ⟨⟨⟨hc.wi, hc.hne, hc.cache, hc.mh, hc.mlast, hc.mmono, hc.mc, hc.nx, ?_, hc.tk, hc.rel, hc.pub⟩,
        ⟨hs.data, hs.hash, hs.comp, hs.cut, hs.h2d⟩⟩, ⟨rfl, rfl, rfl, rfl, rfl, rfl, rfl, rfl, rfl, rfl⟩, rfl, rfl, rfl,
        fun x hx => hx, fun p x h => by cases h⟩
      intro rid r hr; exact reqInv_congr (a := st) node emptyHash leaf rfl rfl (hc.rq rid r hr)

/-! ### `mirrorConflict` -/

theorem conflict_inv (c : MCfg) (status : Nat) (p : PCk) (next : Nat) (st : MState)
    (hi : MInv node emptyHash leaf c st) (hp : ∀ k, payloadCk c.origin p.payload = some k → k ∈ st.w.hist) :
    MInv node emptyHash leaf c (conflict c status p next st).1 ∧ Frame st (conflict c status p next st).1 := by
  obtain ⟨hc, hs⟩ := hi
  unfold conflict
  refine ⟨⟨⟨hc.wi, hc.hne, hc.cache, hc.mh, hc.mlast, hc.mmono, hc.mc, hc.nx, ?_, ?_, hc.rel, hc.pub⟩,
    ⟨hs.data, hs.hash, hs.comp, hs.cut, hs.h2d⟩⟩, ⟨rfl, rfl, rfl, rfl, rfl, rfl, rfl, rfl, rfl, rfl⟩⟩
  · intro rid r hr; exact reqInv_congr (a := st) node emptyHash leaf rfl rfl (hc.rq rid r hr)
  · intro t ht k hk
    simp only [List.mem_append, List.mem_singleton] at ht
    rcases ht with h | rfl
    · exact hc.tk t h k hk
    · exact hp k hk

/-! ### dropping / installing a request -/

theorem setReq_none_inv (c : MCfg) (rid : Nat) (st : MState) (hi : MInv node emptyHash leaf c st) :
    MInv node emptyHash leaf c (st.setReq rid none) := by
  obtain ⟨hc, hs⟩ := hi
  refine ⟨⟨hc.wi, hc.hne, hc.cache, hc.mh, hc.mlast, hc.mmono, hc.mc, hc.nx, ?_, hc.tk, hc.rel, hc.pub⟩,
    ⟨hs.data, hs.hash, hs.comp, hs.cut, hs.h2d⟩⟩
  intro j r hr
  simp only [MState.setReq] at hr
  split at hr
  · cases hr
  · exact reqInv_congr (a := st) node emptyHash leaf rfl rfl (hc.rq j r hr)

theorem setReq_some_inv (c : MCfg) (rid : Nat) (r : Req) (st : MState) (hi : MInv node emptyHash leaf c st)
    (hr : ReqInv node emptyHash leaf c st r) : MInv node emptyHash leaf c (st.setReq rid (some r)) := by
  obtain ⟨hc, hs⟩ := hi
  refine ⟨⟨hc.wi, hc.hne, hc.cache, hc.mh, hc.mlast, hc.mmono, hc.mc, hc.nx, ?_, hc.tk, hc.rel, hc.pub⟩,
    ⟨hs.data, hs.hash, hs.comp, hs.cut, hs.h2d⟩⟩
  intro j r' hr'
  simp only [MState.setReq] at hr'
  split at hr'
  · simp only [Option.some.injEq] at hr'; subst hr'
    exact reqInv_congr (a := st) node emptyHash leaf rfl rfl hr
  · exact reqInv_congr (a := st) node emptyHash leaf rfl rfl (hc.rq j r' hr')

/-! ### tickets and the resolution of the checkpoint a request proves against -/

theorem verifyTicket_sound (c : MCfg) (st : MState) (hi : MInv node emptyHash leaf c st) (t : TicketIn)
    (hadm : TicketAdm c st t) (p : PCk) (h : verifyTicket c st.key t = some p) :
    p.ck ∈ st.w.hist ∧ (∀ k, payloadCk c.origin p.payload = some k → k ∈ st.w.hist) ∧
    ∃ tk, t = .box tk ∧ tk.key = st.key ∧ tk.mirrorName = c.mirrorName ∧ tk.origin = c.origin := by
  cases t with
  | none => simp [verifyTicket] at h
  | garbage => simp [verifyTicket] at h
  | box tk =>
    simp only [verifyTicket] at h
    split at h
    · rename_i hcond
      split at h
      · rename_i note serial hpl
        split at h
        · rename_i vs hopen
          cases hk : ckOfNote c.origin note with
          | none => rw [hk] at h; cases h
          | some k =>
            rw [hk] at h
            simp only [Option.map_some, Option.some.injEq] at h
            subst h
            have hmem : k ∈ st.w.hist := by
              rcases hadm with ha | ha
              · exact hi.ctl.tk tk (ha hcond.1) k (by rw [hpl]; exact hk)
              · exact ha note serial hpl ⟨vs, hopen⟩ k hk
            refine ⟨hmem, ?_, tk, rfl, hcond.1, hcond.2.1, hcond.2.2⟩
            intro k' hk'
            simp only [] at hk'
            rw [hpl] at hk'
            simp only [payloadCk] at hk'
            rw [hk] at hk'
            cases hk'
            exact hmem
        · cases h
      · cases h
    · cases h

theorem resolve_sound (c : MCfg) (st : MState) (hi : MInv node emptyHash leaf c st) (q : MetaReq)
    (hadm : TicketAdm c st q.ticket) (pend mir : PCk)
    (hp : pend.ck ∈ st.w.hist ∧ (∀ k, payloadCk c.origin pend.payload = some k → k ∈ st.w.hist))
    (hm : mir = mirrorP emptyHash st.mlock) (r : PCk) (h : resolve c st.key pend mir q = some r) :
    r.ck ∈ st.w.hist ∧ (∀ k, payloadCk c.origin r.payload = some k → k ∈ st.w.hist) ∧ q.stop = r.ck.1 := by
  unfold resolve at h
  split at h
  · rename_i h1
    simp only [Option.some.injEq] at h; subst h
    exact ⟨hp.1, hp.2, h1⟩
  · split at h
    · rename_i h2
      simp only [Option.some.injEq] at h; subst h
      subst hm
      cases hml : st.mlock with
      | none => rw [hml] at h2; exact absurd rfl h2.1
      | some v =>
        obtain ⟨ck, s⟩ := v
        have hmem : ck ∈ st.w.hist := by
          have := mirrorCk_mem node emptyHash leaf hi.ctl (by rw [hml]; simp)
          rw [hml] at this
          exact hi.ctl.mh _ this
        rw [hml] at h2
        refine ⟨hmem, ?_, h2.2⟩
        intro k hk
        simp only [mirrorP, payloadCk, Option.some.injEq] at hk
        subst hk; exact hmem
    · split at h
      · split at h
        · rename_i t ht
          split at h
          · rename_i h3
            simp only [Option.some.injEq] at h; subst h
            obtain ⟨a, b, _⟩ := verifyTicket_sound node emptyHash leaf c st hi q.ticket hadm t ht
            exact ⟨a, b, h3⟩
          · cases h
        · cases h
      · cases h

/-! ### the metadata step -/

theorem metaDecide_inv (c : MCfg) (rid : Nat) (q : MetaReq) (pend mir : PCk) (next : Nat) (st2 : MState)
    (hi : MInv node emptyHash leaf c st2) (hadm : TicketAdm c st2 q.ticket) (hle : ¬ q.stop < q.start)
    (hp : pend.ck ∈ st2.w.hist ∧ (∀ k, payloadCk c.origin pend.payload = some k → k ∈ st2.w.hist))
    (hm : mir = mirrorP emptyHash st2.mlock) (hn : st2.next = some next) :
    MInv node emptyHash leaf c (metaDecide c rid q pend mir next st2).1 := by
  unfold metaDecide
  split
  · exact hi
  split
  · exact hi
  split
  · exact hi
  split
  · exact (conflict_inv node emptyHash leaf c 409 pend next st2 hi hp.2).1
  have hres := resolve_sound node emptyHash leaf c st2 hi q hadm pend mir hp hm
  split
  · exact (conflict_inv node emptyHash leaf c 409 pend next st2 hi hp.2).1
  · rename_i r hr
    obtain ⟨rc, rp, rs'⟩ := hres r hr
    split
    · split
      · exact (conflict_inv node emptyHash leaf c 409 r next st2 hi rp).1
      · exact (conflict_inv node emptyHash leaf c 409 pend next st2 hi hp.2).1
    · rename_i hwin
      refine setReq_some_inv node emptyHash leaf c rid _ st2 hi ?_
      refine ⟨rc, rs', by simp only []; omega, rp, Nat.zero_le _, ⟨next, hn, ?_⟩, ?_, ?_⟩
      · intro _
        simp only [Req.rs]
        omega
      · simp only [Req.rs, List.length_nil]
        omega
      · intro E _
        show ([] : List Hash) = _
        simp only [List.length_nil, Nat.add_zero, rng, Nat.sub_self, List.take_zero]

theorem metaMirror_inv (c : MCfg) (rid : Nat) (q : MetaReq) (fm : Bool) (pend : PCk) (st1 : MState)
    (hi : MInv node emptyHash leaf c st1) (hadm : TicketAdm c st1 q.ticket) (hle : ¬ q.stop < q.start)
    (hp : pend.ck ∈ st1.w.hist ∧ (∀ k, payloadCk c.origin pend.payload = some k → k ∈ st1.w.hist)) :
    MInv node emptyHash leaf c (metaMirror emptyHash c rid q fm pend st1).1 := by
  unfold metaMirror
  split
  · exact hi
  obtain ⟨i2, f2, w2, r2, s2, nx2, p2⟩ := fetchMirror_inv node emptyHash leaf c fm st1 hi
  split
  · rename_i st2 heq2
    rw [heq2] at i2; exact i2
  · rename_i st2 mir next heq2
    rw [heq2] at i2 f2 w2 r2 s2 nx2 p2
    replace i2 : MInv node emptyHash leaf c st2 := i2
    replace f2 : Frame st1 st2 := f2
    replace w2 : st2.w = st1.w := w2
    replace s2 : st2.issued = st1.issued := s2
    replace p2 : ∀ p x, some (mir, next) = some (p, x) → p = mirrorP emptyHash st1.mlock ∧ st2.mcache = some st1.mlock ∧ st2.next = some x := p2
    obtain ⟨pm, pc, pn⟩ := p2 mir next rfl
    have hadm2 : TicketAdm c st2 q.ticket := by
      cases hq : q.ticket with
      | none => trivial
      | garbage => trivial
      | box t =>
        rw [hq] at hadm
        simp only [TicketAdm] at hadm ⊢
        rw [f2.key, s2, w2]
        exact hadm
    exact metaDecide_inv node emptyHash leaf c rid q pend mir next st2 i2 hadm2 hle (by rw [w2]; exact hp)
      (by rw [f2.mlock]; exact pm) pn

theorem metadata_inv (c : MCfg) (rid : Nat) (q : MetaReq) (fp fm : Bool) (st : MState)
    (hi : MInv node emptyHash leaf c st) (hadm : TicketAdm c st q.ticket) :
    MInv node emptyHash leaf c (metadata emptyHash c rid q fp fm st).1 := by
  unfold metadata
  split
  · exact hi
  split
  · exact hi
  rename_i hle
  split
  · exact hi
  split
  · exact hi
  split
  · exact hi
  obtain ⟨i1, f1, m1, n1, r1, s1, p1⟩ := fetchPending_inv node emptyHash leaf c fp st hi
  split
  · rename_i st1 heq
    rw [heq] at i1; exact i1
  · rename_i st1 pend heq
    rw [heq] at i1 f1 m1 n1 r1 s1 p1
    replace i1 : MInv node emptyHash leaf c st1 := i1
    replace f1 : Frame st st1 := f1
    replace s1 : st1.issued = st.issued := s1
    replace p1 : ∀ p, some pend = some p → p.ck ∈ st.w.hist ∧ (∀ k, payloadCk c.origin p.payload = some k → k ∈ st.w.hist) := p1
    have hadm1 : TicketAdm c st1 q.ticket := by
      cases hq : q.ticket with
      | none => trivial
      | garbage => trivial
      | box t =>
        rw [hq] at hadm
        simp only [TicketAdm] at hadm ⊢
        rw [f1.key, s1, f1.hist]
        exact hadm
    exact metaMirror_inv node emptyHash leaf c rid q fm pend st1 i1 hadm1 hle (by rw [f1.hist]; exact p1 pend rfl)

end Mirror
