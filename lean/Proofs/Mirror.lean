import Proofs.MirrorSteps
/-! The invariant is preserved by every step of the mirror transition system, hence holds in every
reachable state (`reachable_inv`). Core only. -/
namespace Mirror
open Merkle Witness Checkpoint

variable (node : Hash → Hash → Hash) (emptyHash : Hash) (leaf : Entry → Hash)

/-! ### frames -/

/-- what every control primitive leaves alone -/
structure Frame (a b : MState) : Prop where
  hist : b.w.hist = a.w.hist
  mlock : b.mlock = a.mlock
  mpub : b.mpub = a.mpub
  data : b.data = a.data
  hash : b.hash = a.hash
  enforce : b.enforce = a.enforce
  key : b.key = a.key
  serial : b.serial = a.serial
  mhist : b.mhist = a.mhist
  released : b.released = a.released

theorem Frame.refl (a : MState) : Frame a a := ⟨rfl, rfl, rfl, rfl, rfl, rfl, rfl, rfl, rfl, rfl⟩

theorem Frame.trans {a b c : MState} (h1 : Frame a b) (h2 : Frame b c) : Frame a c :=
  ⟨h2.hist.trans h1.hist, h2.mlock.trans h1.mlock, h2.mpub.trans h1.mpub, h2.data.trans h1.data,
   h2.hash.trans h1.hash, h2.enforce.trans h1.enforce, h2.key.trans h1.key, h2.serial.trans h1.serial,
   h2.mhist.trans h1.mhist, h2.released.trans h1.released⟩

theorem storeInv_frame {a b : MState} (h : Frame a b) (ht : top emptyHash b ≤ top emptyHash a)
    (hi : StoreInv node emptyHash leaf a) : StoreInv node emptyHash leaf b := by
  obtain ⟨i1, i2, i3, i4, i5⟩ := hi
  refine ⟨by rw [h.hist, h.data]; exact i1, by rw [h.hist, h.hash]; exact i2, ?_, by rw [h.mhist, h.hash]; exact i4,
    by rw [h.hash, h.data]; exact i5⟩
  intro M hM hle l n w ht'
  have := i3 M hM (by omega) l n w ht'
  rw [h.hash, h.data]; exact this

theorem reqInv_mono {c : MCfg} {a b : MState} {r : Req} (hw : b.w.hist = a.w.hist)
    (hn : ∀ x, a.next = some x → ∃ y, b.next = some y ∧ x ≤ y)
    (h : ReqInv node emptyHash leaf c a r) : ReqInv node emptyHash leaf c b r := by
  obtain ⟨h1, h2, h3, h4, h5, h6, h7, h8⟩ := h
  refine ⟨by rw [hw]; exact h1, h2, h3, by rw [hw]; exact h4, h5, ?_, h7, by rw [hw]; exact h8⟩
  obtain ⟨x, hx, hx'⟩ := h6
  obtain ⟨y, hy, hxy⟩ := hn x hx
  exact ⟨y, hy, fun hlt => by have := hx' hlt; omega⟩

theorem reqInv_congr {c : MCfg} {a b : MState} {r : Req} (hw : b.w.hist = a.w.hist) (hn : b.next = a.next)
    (h : ReqInv node emptyHash leaf c a r) : ReqInv node emptyHash leaf c b r :=
  reqInv_mono node emptyHash leaf hw (fun x hx => ⟨x, by rw [hn]; exact hx, Nat.le_refl _⟩) h

/-! ### `checkpointLocked` -/

theorem payloadOf_ck (o : Bytes) (v : LockVal) :
    payloadOf v = .empty ∨ payloadCk o (payloadOf v) = ckOf emptyHash o v := by
  cases v with
  | none => left; rfl
  | some p => right; obtain ⟨n, s⟩ := p; rfl

theorem fetchPending_inv (c : MCfg) (f : Bool) (st : MState) (hi : MInv node emptyHash leaf c st) :
    MInv node emptyHash leaf c (fetchPending emptyHash c f st).1 ∧
    Frame st (fetchPending emptyHash c f st).1 ∧
    (fetchPending emptyHash c f st).1.mcache = st.mcache ∧ (fetchPending emptyHash c f st).1.next = st.next ∧
    (fetchPending emptyHash c f st).1.reqs = st.reqs ∧ (fetchPending emptyHash c f st).1.issued = st.issued ∧
    (∀ p, (fetchPending emptyHash c f st).2 = some p → p.ck ∈ st.w.hist ∧
      (∀ k, payloadCk c.origin p.payload = some k → k ∈ st.w.hist)) := by
  obtain ⟨hc, hs⟩ := hi
  have hres : ∀ v, (∀ k, ckOf emptyHash c.origin v = some k → k ∈ st.w.hist) →
      ∀ p, ((openStored emptyHash c.cfg c.origin v).map fun k => (⟨k, payloadOf v⟩ : PCk)) = some p →
      p.ck ∈ st.w.hist ∧ (∀ k, payloadCk c.origin p.payload = some k → k ∈ st.w.hist) := by
    intro v hv p hp
    cases ho : openStored emptyHash c.cfg c.origin v with
    | none => rw [ho] at hp; cases hp
    | some k =>
      rw [ho] at hp
      simp only [Option.map_some, Option.some.injEq] at hp
      subst hp
      refine ⟨hv k (openStored_ckOf emptyHash ho), ?_⟩
      intro k' hk'
      rcases payloadOf_ck emptyHash c.origin v with e | e
      · simp only [] at hk'; rw [e] at hk'; cases hk'
      · simp only [] at hk'; rw [e] at hk'; exact hv k' hk'
  have hlock : ∀ k, ckOf emptyHash c.origin st.w.lock = some k → k ∈ st.w.hist := by
    intro k hk
    exact List.mem_of_getLast? (hc.wi.last k hk)
  unfold fetchPending
  split
  · rename_i v hcache
    exact ⟨⟨hc, hs⟩, Frame.refl _, rfl, rfl, rfl, rfl, hres v (fun k hk => hc.cache v k hcache hk)⟩
  · rename_i hcache
    split
    · refine ⟨⟨⟨⟨hc.wi.chain, hc.wi.last, hc.wi.zero, hc.wi.rel, hc.wi.pub⟩, hc.hne, ?_, hc.mh, hc.mlast, hc.mmono, hc.mc, hc.nx, ?_, hc.tk, hc.rel, hc.pub⟩,
        ⟨hs.data, hs.hash, hs.comp, hs.cut, hs.h2d⟩⟩, ⟨rfl, rfl, rfl, rfl, rfl, rfl, rfl, rfl, rfl, rfl⟩, rfl, rfl, rfl, rfl, ?_⟩
      · intro v k hv hk
        simp only [OState.setCache, if_true, Option.some.injEq] at hv
        subst hv
        exact hlock k hk
      · intro rid r hr; exact reqInv_congr (a := st) node emptyHash leaf rfl rfl (hc.rq rid r hr)
      · exact hres st.w.lock hlock
    · refine ⟨⟨⟨⟨hc.wi.chain, hc.wi.last, hc.wi.zero, hc.wi.rel, hc.wi.pub⟩, hc.hne, ?_, hc.mh, hc.mlast, hc.mmono, hc.mc, hc.nx, ?_, hc.tk, hc.rel, hc.pub⟩,
        ⟨hs.data, hs.hash, hs.comp, hs.cut, hs.h2d⟩⟩, ⟨rfl, rfl, rfl, rfl, rfl, rfl, rfl, rfl, rfl, rfl⟩, rfl, rfl, rfl, rfl, ?_⟩
      · intro v k hv; rw [hcache] at hv; cases hv
      · intro rid r hr; exact reqInv_congr (a := st) node emptyHash leaf rfl rfl (hc.rq rid r hr)
      · intro p hp; cases hp

/-! ### `mirrorCheckpointLocked` -/

theorem mirrorP_ck (v : MVal) : (mirrorP emptyHash v).ck = mirrorCk emptyHash v := by
  cases v with
  | none => rfl
  | some p => rfl

theorem mirrorCk_mem {c : MCfg} {st : MState} (hc : CtlInv node emptyHash leaf c st) (h : st.mlock ≠ none) :
    mirrorCk emptyHash st.mlock ∈ st.mhist := by
  cases hm : st.mlock with
  | none => exact absurd hm h
  | some p =>
    have := hc.mlast
    rw [hm] at this
    simp only [Option.map_some] at this
    exact List.mem_of_getLast? this

/-- after a successful `mirrorCheckpointLocked`: the cached copy is the stored value, `nextEntry` is set -/
theorem fetchMirror_inv (c : MCfg) (f : Bool) (st : MState) (hi : MInv node emptyHash leaf c st) :
    MInv node emptyHash leaf c (fetchMirror emptyHash f st).1 ∧
    Frame st (fetchMirror emptyHash f st).1 ∧
    (fetchMirror emptyHash f st).1.w = st.w ∧
    (fetchMirror emptyHash f st).1.reqs = st.reqs ∧ (fetchMirror emptyHash f st).1.issued = st.issued ∧
    (∀ x, st.next = some x → (fetchMirror emptyHash f st).1.next = some x) ∧
    (∀ p x, (fetchMirror emptyHash f st).2 = some (p, x) →
      p = mirrorP emptyHash st.mlock ∧ (fetchMirror emptyHash f st).1.mcache = some st.mlock ∧
      (fetchMirror emptyHash f st).1.next = some x) := by
  obtain ⟨hc, hs⟩ := hi
  -- the common tail `fin`, from a state `s` that is `st` up to `mcache := some st.mlock` and the log
  have hfin : ∀ (s : MState), s.w = st.w → s.mlock = st.mlock → s.mpub = st.mpub → s.data = st.data → s.hash = st.hash →
      s.enforce = st.enforce → s.key = st.key → s.serial = st.serial → s.mhist = st.mhist → s.released = st.released →
      s.reqs = st.reqs → s.issued = st.issued → s.next = st.next → s.mcache = some st.mlock →
      let r : MState × Option (PCk × Nat) :=
        (match s.next with
          | some x => (s, some (mirrorP emptyHash st.mlock, x))
          | none => ({ s with next := some (mirrorP emptyHash st.mlock).ck.1 }, some (mirrorP emptyHash st.mlock, (mirrorP emptyHash st.mlock).ck.1)))
      MInv node emptyHash leaf c r.1 ∧ Frame st r.1 ∧ r.1.w = st.w ∧ r.1.reqs = st.reqs ∧ r.1.issued = st.issued ∧
      (∀ x, st.next = some x → r.1.next = some x) ∧
      (∀ p x, r.2 = some (p, x) → p = mirrorP emptyHash st.mlock ∧ r.1.mcache = some st.mlock ∧ r.1.next = some x) := by
    intro s e1 e2 e3 e4 e5 e6 e7 e8 e9 e10 e11 e12 e13 e14
    cases hn : s.next with
    | some x =>
      simp only []
      refine ⟨⟨⟨by rw [e1]; exact hc.wi, by rw [e1]; exact hc.hne, by rw [e1]; exact hc.cache, by rw [e1, e9]; exact hc.mh,
          by rw [e9, e2]; exact hc.mlast, by rw [e9]; exact hc.mmono, ?_, by rw [e13, e2, e1]; exact hc.nx, ?_,
          by rw [e12, e1]; exact hc.tk, by rw [e10, e9]; exact hc.rel, by rw [e3, e9]; exact hc.pub⟩, ?_⟩,
        ⟨by rw [e1], e2, e3, e4, e5, e6, e7, e8, e9, e10⟩, e1, e11, e12, ?_, ?_⟩
      · intro v hv; rw [e14] at hv; rw [e2]; exact (Option.some.inj hv).symm
      · intro rid r hr
        rw [e11] at hr
        exact reqInv_congr node emptyHash leaf (by rw [e1]) e13 (hc.rq rid r hr)
      · exact storeInv_frame node emptyHash leaf ⟨by rw [e1], e2, e3, e4, e5, e6, e7, e8, e9, e10⟩
          (by unfold top; rw [e13, e2]; exact Nat.le_refl _) hs
      · intro y hy; rw [e13] at hn; rw [hn] at hy; rw [e13, hn]; exact hy
      · intro p y hpy
        simp only [Option.some.injEq, Prod.mk.injEq] at hpy
        exact ⟨hpy.1.symm, e14, by rw [hn, hpy.2]⟩
    | none =>
      simp only []
      rw [e13] at hn
      have hck : (mirrorP emptyHash st.mlock).ck = mirrorCk emptyHash st.mlock := mirrorP_ck emptyHash _
      refine ⟨⟨⟨by rw [e1]; exact hc.wi, by rw [e1]; exact hc.hne, by rw [e1]; exact hc.cache, by rw [e1, e9]; exact hc.mh,
          by rw [e9, e2]; exact hc.mlast, by rw [e9]; exact hc.mmono, ?_, ?_, ?_,
          by rw [e12, e1]; exact hc.tk, by rw [e10, e9]; exact hc.rel, by rw [e3, e9]; exact hc.pub⟩, ?_⟩,
        ⟨by rw [e1], e2, e3, e4, e5, e6, e7, e8, e9, e10⟩, e1, e11, e12, ?_, ?_⟩
      · intro v hv; simp only [] at hv; rw [e14] at hv; simp only []; rw [e2]; exact (Option.some.inj hv).symm
      · intro x hx
        simp only [Option.some.injEq] at hx
        simp only []
        rw [e2, e1, ← hx, hck]
        refine ⟨Nat.le_refl _, ?_⟩
        by_cases hm : st.mlock = none
        · obtain ⟨k, hk⟩ := List.exists_mem_of_ne_nil _ hc.hne
          exact ⟨k, hk, by rw [hm]; exact Nat.zero_le _⟩
        · exact ⟨_, hc.mh _ (mirrorCk_mem node emptyHash leaf hc hm), Nat.le_refl _⟩
      · intro rid r hr
        simp only [] at hr
        rw [e11] at hr
        obtain ⟨x, hx, _⟩ := (hc.rq rid r hr).nx
        rw [hn] at hx; cases hx
      · refine storeInv_frame node emptyHash leaf ⟨by simp only []; rw [e1], e2, e3, e4, e5, e6, e7, e8, e9, e10⟩ ?_ hs
        unfold top
        simp only [Option.getD_some]
        rw [e2, hn, hck]
        simp
      · intro y hy; rw [hn] at hy; cases hy
      · intro p y hpy
        simp only [Option.some.injEq, Prod.mk.injEq] at hpy
        exact ⟨hpy.1.symm, e14, by rw [hpy.2]⟩
  unfold fetchMirror
  split
  · rename_i v hmc
    have hv : v = st.mlock := hc.mc v hmc
    subst hv
    exact hfin st rfl rfl rfl rfl rfl rfl rfl rfl rfl rfl rfl rfl rfl hmc
  · rename_i hmc
    split
    · exact hfin { st with log := st.log ++ [.mfetch], mcache := some st.mlock } rfl rfl rfl rfl rfl rfl rfl rfl rfl rfl rfl rfl rfl rfl
    · refine ⟨⟨⟨hc.wi, hc.hne, hc.cache, hc.mh, hc.mlast, hc.mmono, hc.mc, hc.nx, ?_, hc.tk, hc.rel, hc.pub⟩,
        ⟨hs.data, hs.hash, hs.comp, hs.cut, hs.h2d⟩⟩, ⟨rfl, rfl, rfl, rfl, rfl, rfl, rfl, rfl, rfl, rfl⟩, rfl, rfl, rfl,
        fun x hx => hx, fun p x h => by cases h⟩
      intro rid r hr; exact reqInv_congr (a := st) node emptyHash leaf rfl rfl (hc.rq rid r hr)

/-! ### `mirrorConflict` -/

theorem conflict_inv (c : MCfg) (status : Nat) (p : PCk) (next : Nat) (st : MState)
    (hi : MInv node emptyHash leaf c st) (hp : ∀ k, payloadCk c.origin p.payload = some k → k ∈ st.w.hist) :
    MInv node emptyHash leaf c (conflict c status p next st).1 ∧ Frame st (conflict c status p next st).1 := by
  obtain ⟨hc, hs⟩ := hi
  unfold conflict
  refine ⟨⟨⟨hc.wi, hc.hne, hc.cache, hc.mh, hc.mlast, hc.mmono, hc.mc, hc.nx, ?_, ?_, hc.rel, hc.pub⟩,
    ⟨hs.data, hs.hash, hs.comp, hs.cut, hs.h2d⟩⟩, ⟨rfl, rfl, rfl, rfl, rfl, rfl, rfl, rfl, rfl, rfl⟩⟩
  · intro rid r hr; exact reqInv_congr (a := st) node emptyHash leaf rfl rfl (hc.rq rid r hr)
  · intro t ht k hk
    simp only [List.mem_append, List.mem_singleton] at ht
    rcases ht with h | rfl
    · exact hc.tk t h k hk
    · exact hp k hk

/-! ### dropping / installing a request -/

theorem setReq_none_inv (c : MCfg) (rid : Nat) (st : MState) (hi : MInv node emptyHash leaf c st) :
    MInv node emptyHash leaf c (st.setReq rid none) := by
  obtain ⟨hc, hs⟩ := hi
  refine ⟨⟨hc.wi, hc.hne, hc.cache, hc.mh, hc.mlast, hc.mmono, hc.mc, hc.nx, ?_, hc.tk, hc.rel, hc.pub⟩,
    ⟨hs.data, hs.hash, hs.comp, hs.cut, hs.h2d⟩⟩
  intro j r hr
  simp only [MState.setReq] at hr
  split at hr
  · cases hr
  · exact reqInv_congr (a := st) node emptyHash leaf rfl rfl (hc.rq j r hr)

theorem setReq_some_inv (c : MCfg) (rid : Nat) (r : Req) (st : MState) (hi : MInv node emptyHash leaf c st)
    (hr : ReqInv node emptyHash leaf c st r) : MInv node emptyHash leaf c (st.setReq rid (some r)) := by
  obtain ⟨hc, hs⟩ := hi
  refine ⟨⟨hc.wi, hc.hne, hc.cache, hc.mh, hc.mlast, hc.mmono, hc.mc, hc.nx, ?_, hc.tk, hc.rel, hc.pub⟩,
    ⟨hs.data, hs.hash, hs.comp, hs.cut, hs.h2d⟩⟩
  intro j r' hr'
  simp only [MState.setReq] at hr'
  split at hr'
  · simp only [Option.some.injEq] at hr'; subst hr'
    exact reqInv_congr (a := st) node emptyHash leaf rfl rfl hr
  · exact reqInv_congr (a := st) node emptyHash leaf rfl rfl (hc.rq j r' hr')

/-! ### tickets and the resolution of the checkpoint a request proves against -/

theorem verifyTicket_sound (c : MCfg) (st : MState) (hi : MInv node emptyHash leaf c st) (t : TicketIn)
    (hadm : TicketAdm c st t) (p : PCk) (h : verifyTicket c st.key t = some p) :
    p.ck ∈ st.w.hist ∧ (∀ k, payloadCk c.origin p.payload = some k → k ∈ st.w.hist) ∧
    ∃ tk, t = .box tk ∧ tk.key = st.key ∧ tk.mirrorName = c.mirrorName ∧ tk.origin = c.origin := by
  cases t with
  | none => simp [verifyTicket] at h
  | garbage => simp [verifyTicket] at h
  | box tk =>
    simp only [verifyTicket] at h
    split at h
    · rename_i hcond
      split at h
      · rename_i note serial hpl
        split at h
        · rename_i vs hopen
          cases hk : ckOfNote c.origin note with
          | none => rw [hk] at h; cases h
          | some k =>
            rw [hk] at h
            simp only [Option.map_some, Option.some.injEq] at h
            subst h
            have hmem : k ∈ st.w.hist := by
              rcases hadm with ha | ha
              · exact hi.ctl.tk tk (ha hcond.1) k (by rw [hpl]; exact hk)
              · exact ha note serial hpl ⟨vs, hopen⟩ k hk
            refine ⟨hmem, ?_, tk, rfl, hcond.1, hcond.2.1, hcond.2.2⟩
            intro k' hk'
            simp only [] at hk'
            rw [hpl] at hk'
            simp only [payloadCk] at hk'
            rw [hk] at hk'
            cases hk'
            exact hmem
        · cases h
      · cases h
    · cases h

theorem resolve_sound (c : MCfg) (st : MState) (hi : MInv node emptyHash leaf c st) (q : MetaReq)
    (hadm : TicketAdm c st q.ticket) (pend mir : PCk)
    (hp : pend.ck ∈ st.w.hist ∧ (∀ k, payloadCk c.origin pend.payload = some k → k ∈ st.w.hist))
    (hm : mir = mirrorP emptyHash st.mlock) (r : PCk) (h : resolve c st.key pend mir q = some r) :
    r.ck ∈ st.w.hist ∧ (∀ k, payloadCk c.origin r.payload = some k → k ∈ st.w.hist) ∧ q.stop = r.ck.1 := by
  unfold resolve at h
  split at h
  · rename_i h1
    simp only [Option.some.injEq] at h; subst h
    exact ⟨hp.1, hp.2, h1⟩
  · split at h
    · rename_i h2
      simp only [Option.some.injEq] at h; subst h
      subst hm
      cases hml : st.mlock with
      | none => rw [hml] at h2; exact absurd rfl h2.1
      | some v =>
        obtain ⟨ck, s⟩ := v
        have hmem : ck ∈ st.w.hist := by
          have := mirrorCk_mem node emptyHash leaf hi.ctl (by rw [hml]; simp)
          rw [hml] at this
          exact hi.ctl.mh _ this
        rw [hml] at h2
        refine ⟨hmem, ?_, h2.2⟩
        intro k hk
        simp only [mirrorP, payloadCk, Option.some.injEq] at hk
        subst hk; exact hmem
    · split at h
      · split at h
        · rename_i t ht
          split at h
          · rename_i h3
            simp only [Option.some.injEq] at h; subst h
            obtain ⟨a, b, _⟩ := verifyTicket_sound node emptyHash leaf c st hi q.ticket hadm t ht
            exact ⟨a, b, h3⟩
          · cases h
        · cases h
      · cases h

/-! ### the metadata step -/

theorem metaDecide_inv (c : MCfg) (rid : Nat) (q : MetaReq) (pend mir : PCk) (next : Nat) (st2 : MState)
    (hi : MInv node emptyHash leaf c st2) (hadm : TicketAdm c st2 q.ticket) (hle : ¬ q.stop < q.start)
    (hp : pend.ck ∈ st2.w.hist ∧ (∀ k, payloadCk c.origin pend.payload = some k → k ∈ st2.w.hist))
    (hm : mir = mirrorP emptyHash st2.mlock) (hn : st2.next = some next) :
    MInv node emptyHash leaf c (metaDecide c rid q pend mir next st2).1 := by
  unfold metaDecide
  split
  · exact hi
  split
  · exact hi
  split
  · exact hi
  split
  · exact (conflict_inv node emptyHash leaf c 409 pend next st2 hi hp.2).1
  have hres := resolve_sound node emptyHash leaf c st2 hi q hadm pend mir hp hm
  split
  · exact (conflict_inv node emptyHash leaf c 409 pend next st2 hi hp.2).1
  · rename_i r hr
    obtain ⟨rc, rp, rs'⟩ := hres r hr
    split
    · split
      · exact (conflict_inv node emptyHash leaf c 409 r next st2 hi rp).1
      · exact (conflict_inv node emptyHash leaf c 409 pend next st2 hi hp.2).1
    · rename_i hwin
      refine setReq_some_inv node emptyHash leaf c rid _ st2 hi ?_
      refine ⟨rc, rs', by simp only []; omega, rp, Nat.zero_le _, ⟨next, hn, ?_⟩, ?_, ?_⟩
      · intro _
        simp only [Req.rs]
        omega
      · simp only [Req.rs, List.length_nil]
        omega
      · intro E _
        show ([] : List Hash) = _
        simp only [List.length_nil, Nat.add_zero, rng, Nat.sub_self, List.take_zero]

theorem metaMirror_inv (c : MCfg) (rid : Nat) (q : MetaReq) (fm : Bool) (pend : PCk) (st1 : MState)
    (hi : MInv node emptyHash leaf c st1) (hadm : TicketAdm c st1 q.ticket) (hle : ¬ q.stop < q.start)
    (hp : pend.ck ∈ st1.w.hist ∧ (∀ k, payloadCk c.origin pend.payload = some k → k ∈ st1.w.hist)) :
    MInv node emptyHash leaf c (metaMirror emptyHash c rid q fm pend st1).1 := by
  unfold metaMirror
  split
  · exact hi
  obtain ⟨i2, f2, w2, r2, s2, nx2, p2⟩ := fetchMirror_inv node emptyHash leaf c fm st1 hi
  split
  · rename_i st2 heq2
    rw [heq2] at i2; exact i2
  · rename_i st2 mir next heq2
    rw [heq2] at i2 f2 w2 r2 s2 nx2 p2
    replace i2 : MInv node emptyHash leaf c st2 := i2
    replace f2 : Frame st1 st2 := f2
    replace w2 : st2.w = st1.w := w2
    replace s2 : st2.issued = st1.issued := s2
    replace p2 : ∀ p x, some (mir, next) = some (p, x) → p = mirrorP emptyHash st1.mlock ∧ st2.mcache = some st1.mlock ∧ st2.next = some x := p2
    obtain ⟨pm, pc, pn⟩ := p2 mir next rfl
    have hadm2 : TicketAdm c st2 q.ticket := by
      cases hq : q.ticket with
      | none => trivial
      | garbage => trivial
      | box t =>
        rw [hq] at hadm
        simp only [TicketAdm] at hadm ⊢
        rw [f2.key, s2, w2]
        exact hadm
    exact metaDecide_inv node emptyHash leaf c rid q pend mir next st2 i2 hadm2 hle (by rw [w2]; exact hp)
      (by rw [f2.mlock]; exact pm) pn

theorem metadata_inv (c : MCfg) (rid : Nat) (q : MetaReq) (fp fm : Bool) (st : MState)
    (hi : MInv node emptyHash leaf c st) (hadm : TicketAdm c st q.ticket) :
    MInv node emptyHash leaf c (metadata emptyHash c rid q fp fm st).1 := by
  unfold metadata
  split
  · exact hi
  split
  · exact hi
  rename_i hle
  split
  · exact hi
  split
  · exact hi
  split
  · exact hi
  obtain ⟨i1, f1, m1, n1, r1, s1, p1⟩ := fetchPending_inv node emptyHash leaf c fp st hi
  split
  · rename_i st1 heq
    rw [heq] at i1; exact i1
  · rename_i st1 pend heq
    rw [heq] at i1 f1 m1 n1 r1 s1 p1
    replace i1 : MInv node emptyHash leaf c st1 := i1
    replace f1 : Frame st st1 := f1
    replace s1 : st1.issued = st.issued := s1
    replace p1 : ∀ p, some pend = some p → p.ck ∈ st.w.hist ∧ (∀ k, payloadCk c.origin p.payload = some k → k ∈ st.w.hist) := p1
    have hadm1 : TicketAdm c st1 q.ticket := by
      cases hq : q.ticket with
      | none => trivial
      | garbage => trivial
      | box t =>
        rw [hq] at hadm
        simp only [TicketAdm] at hadm ⊢
        rw [f1.key, s1, f1.hist]
        exact hadm
    exact metaMirror_inv node emptyHash leaf c rid q fm pend st1 i1 hadm1 hle (by rw [f1.hist]; exact p1 pend rfl)

/-! ### the package step -/

theorem conflictNext_inv (c : MCfg) (r : Req) (fp : Bool) (st : MState) (hi : MInv node emptyHash leaf c st)
    (hr : ∀ k, payloadCk c.origin r.payload = some k → k ∈ st.w.hist) :
    MInv node emptyHash leaf c (conflictNext emptyHash c r fp st).1 := by
  unfold conflictNext
  split
  · exact hi
  · split
    · exact (conflict_inv node emptyHash leaf c 202 ⟨r.ck, r.payload⟩ _ st hi hr).1
    · obtain ⟨i1, f1, _, _, _, _, p1⟩ := fetchPending_inv node emptyHash leaf c fp st hi
      split
      · rename_i st1 heq
        rw [heq] at i1; exact i1
      · rename_i st1 p heq
        rw [heq] at i1 f1 p1
        replace i1 : MInv node emptyHash leaf c st1 := i1
        replace f1 : Frame st st1 := f1
        replace p1 : ∀ p', some p = some p' → p'.ck ∈ st.w.hist ∧ (∀ k, payloadCk c.origin p'.payload = some k → k ∈ st.w.hist) := p1
        exact (conflict_inv node emptyHash leaf c 202 p _ st1 i1 (by rw [f1.hist]; exact (p1 p rfl).2)).1

theorem rs_mod (r : Req) : r.rs % 256 = 0 := by unfold Req.rs; omega
theorem rs_le (r : Req) : r.rs ≤ r.start := by unfold Req.rs; omega

theorem lt_np {r : Req} {j : Nat} (h : j < r.numPackages) : r.rs + 256 * j < r.stop ∧ r.start ≠ r.stop := by
  unfold Req.numPackages at h
  have := rs_mod r
  split at h
  · omega
  · rename_i hne
    exact ⟨by omega, hne⟩

theorem ge_np {r : Req} {j : Nat} (h : ¬ j < r.numPackages) (hne : r.start ≠ r.stop) (hle : r.start ≤ r.stop) :
    r.stop ≤ r.rs + 256 * j := by
  unfold Req.numPackages at h
  have := rs_mod r
  have := rs_le r
  rw [if_neg hne] at h
  omega

theorem complete_length {st : MState} {ts stop : Nat} {xs all : List Entry} {fc : Bool}
    (h : complete st ts stop xs fc = some all) (hx : xs.length ≤ stop - ts) : all.length = stop - ts := by
  unfold complete at h
  by_cases h1 : xs.length < stop - ts
  · rw [if_pos h1] at h
    cases hn : st.next with
    | none => rw [hn] at h; cases h
    | some next =>
      rw [hn] at h
      simp only [] at h
      by_cases h2 : next ≤ ts
      · rw [if_pos h2] at h; cases h
      · rw [if_neg h2] at h
        cases fc with
        | false => simp at h
        | true =>
          simp only [Bool.not_true, Bool.false_eq_true, if_false] at h
          generalize (if next < ts + 256 then next - ts else 256) = w at h
          cases hd : st.data (ts / 256) w with
          | none => rw [hd] at h; cases h
          | some tile =>
            rw [hd] at h
            simp only [] at h
            split at h
            · cases h
            · simp only [Option.some.injEq] at h
              subst h
              rw [List.length_append, List.length_take]
              omega
  · rw [if_neg h1] at h
    simp only [Option.some.injEq] at h
    subst h
    omega

theorem pkgUpload_inv (c : MCfg) (rid : Nat) (r : Req) (all : List Entry) (outs : List Fault) (st0 : MState)
    (hi : MInv node emptyHash leaf c st0) (hr : ReqInv node emptyHash leaf c st0 r) (hlt : r.i < r.numPackages)
    (hall : ∀ E, TruthH node emptyHash leaf st0.w.hist E →
      all = (E.drop (r.rs + 256 * r.i)).take (min r.stop (r.rs + 256 * r.i + 256) - (r.rs + 256 * r.i)) ∧
      min r.stop (r.rs + 256 * r.i + 256) ≤ E.length)
    (hlen : all.length = min r.stop (r.rs + 256 * r.i + 256) - (r.rs + 256 * r.i)) :
    MInv node emptyHash leaf c
      (pkgUpload node emptyHash rid r all (r.ov ++ all.map leaf) (r.rs + 256 * r.i) (min r.stop (r.rs + 256 * r.i + 256)) outs st0).1 := by
  obtain ⟨hc, hs⟩ := hi
  generalize hts : r.rs + 256 * r.i = ts at *
  generalize hstop : min r.stop (ts + 256) = stop at *
  obtain ⟨hts1, hne⟩ := lt_np hlt
  rw [hts] at hts1
  have hmod : ts % 256 = 0 := by have := rs_mod r; omega
  have hs1 : ts < stop := by omega
  have hs2 : stop ≤ ts + 256 := by omega
  have hovl : r.rs + r.ov.length = ts := by have := hr.ovlen; rw [hts] at this; omega
  -- the overlay after this package, under any truth
  have hov : ∀ E, TruthH node emptyHash leaf st0.w.hist E →
      (r.ov ++ all.map leaf) = rng (E.map leaf) r.rs (r.rs + (r.ov ++ all.map leaf).length) ∧
      r.rs + (r.ov ++ all.map leaf).length ≤ E.length := by
    intro E hE
    obtain ⟨ha, hb⟩ := hall E hE
    have h1 := hr.ov E hE
    have hl : r.rs + (r.ov ++ all.map leaf).length = stop := by
      rw [List.length_append, List.length_map, hlen]; omega
    rw [hl]
    refine ⟨?_, hb⟩
    rw [← rng_append (E.map leaf) (by omega : r.rs ≤ ts) (by omega : ts ≤ stop)]
    rw [hovl] at h1
    rw [← h1, rng_map_leaf, ← ha]
  have hall' : ∀ E, TruthH node emptyHash leaf st0.w.hist E →
      all = bundleOf E (ts / 256) (stop - ts) ∧ 256 * (ts / 256) + (stop - ts) ≤ E.length := by
    intro E hE
    obtain ⟨ha, hb⟩ := hall E hE
    have e : 256 * (ts / 256) = ts := by omega
    unfold bundleOf
    rw [e]
    exact ⟨ha, by omega⟩
  obtain ⟨r1, r2, r3, r4⟩ := uploadTiles_inv node emptyHash leaf r.rs (r.ov ++ all.map leaf) all (ts / 256) (stop - ts)
    st0.w.hist hall' hov (newTiles ts stop) outs st0 rfl (fun t ht => newTiles_pkg hmod hs1 hs2 ht) hs
  unfold pkgUpload
  split
  · rename_i st1 heq
    rw [heq] at r1 r2
    exact ⟨ctlInv_sameCtl node emptyHash leaf r2 hc, r1⟩
  · rename_i st1 heq
    rw [heq] at r1 r2 r3 r4
    replace r1 : StoreInv node emptyHash leaf st1 := r1
    replace r2 : SameCtl st0 st1 := r2
    replace r3 : StoreLe st0 st1 := r3
    replace r4 : ∀ t ∈ newTiles ts stop, (st1.hash t.1 t.2.1 t.2.2).isSome ∧ (t.1 = 0 → (st1.data t.2.1 t.2.2).isSome) := r4 rfl
    have hc1 := ctlInv_sameCtl node emptyHash leaf r2 hc
    obtain ⟨x, hx, hx'⟩ := hr.nx
    have hxts : ts ≤ x := by have := hx' hlt; omega
    have hn1 : st1.next = some x := by rw [r2.next]; exact hx
    rw [hn1]
    simp only []
    obtain ⟨hm1, k1, hk1, hk1'⟩ := hc1.nx x hn1
    have hck1 : r.ck ∈ st1.w.hist := by rw [r2.w]; exact hr.ck
    have hstople : stop ≤ r.ck.1 := by rw [← hr.stop]; omega
    -- the new request state
    have hr' : ReqInv node emptyHash leaf c
        (({ st1 with next := some (max x stop) } : MState).setReq rid (some { r with i := r.i + 1, ov := r.ov ++ all.map leaf }))
        { r with i := r.i + 1, ov := r.ov ++ all.map leaf } := by
      refine ⟨hck1, hr.stop, hr.le, by rw [show st1.w = st0.w from r2.w]; exact hr.pay, ?_, ⟨max x stop, rfl, ?_⟩, ?_, ?_⟩
      · show r.i + 1 ≤ Req.numPackages { r with i := r.i + 1, ov := r.ov ++ all.map leaf }
        exact hlt
      · intro hlt2
        have hlt2' : r.i + 1 < r.numPackages := hlt2
        obtain ⟨h3, _⟩ := lt_np hlt2'
        show r.rs + 256 * (r.i + 1) ≤ max x stop
        omega
      · show r.rs + (r.ov ++ all.map leaf).length = min (r.rs + 256 * (r.i + 1)) r.stop
        rw [List.length_append, List.length_map, hlen]
        omega
      · intro E hE
        exact (hov E (by rw [← r2.w]; exact hE)).1
    refine ⟨⟨hc1.wi, hc1.hne, hc1.cache, hc1.mh, hc1.mlast, hc1.mmono, hc1.mc, ?_, ?_, hc1.tk, hc1.rel, hc1.pub⟩, ?_⟩
    · intro y hy
      simp only [MState.setReq, Option.some.injEq] at hy
      subst hy
      refine ⟨by show (mirrorCk emptyHash st1.mlock).1 ≤ max x stop; omega, ?_⟩
      by_cases hxs : x ≤ stop
      · exact ⟨r.ck, hck1, by omega⟩
      · exact ⟨k1, hk1, by omega⟩
    · intro j r' hr''
      simp only [MState.setReq] at hr''
      split at hr''
      · simp only [Option.some.injEq] at hr''
        subst hr''
        exact hr'
      · refine reqInv_mono (a := st1) node emptyHash leaf rfl ?_ (hc1.rq j r' hr'')
        intro y hy
        rw [hn1] at hy
        simp only [Option.some.injEq] at hy
        exact ⟨max x stop, rfl, by omega⟩
    · refine ⟨r1.data, r1.hash, ?_, r1.cut, r1.h2d⟩
      intro M hM hMle
      have htop : top emptyHash (({ st1 with next := some (max x stop) } : MState).setReq rid (some { r with i := r.i + 1, ov := r.ov ++ all.map leaf })) = max x stop := by
        unfold top
        show max ((some (max x stop)).getD 0) (mirrorCk emptyHash st1.mlock).1 = max x stop
        simp only [Option.getD_some]
        omega
      rw [htop] at hMle
      have htop1 : x ≤ top emptyHash st1 := by unfold top; rw [hn1]; simp only [Option.getD_some]; omega
      by_cases hMx : M ≤ x
      · exact r1.comp M hM (by omega)
      · -- the frontier moved to the end of a full package
        have hMe : M = ts + 256 := by omega
        subst hMe
        intro l n w ht
        rcases newTiles_cover hmod ht with h | h
        · exact r1.comp ts hmod (by omega) l n w h
        · have hse : stop = ts + 256 := by omega
          rw [hse] at r4
          exact r4 (l, n, w) h

theorem pkgFull_inv (inj : NodeInj node) (linj : LeafInj leaf) (c : MCfg) (rid : Nat) (r : Req) (xs : List Entry)
    (proof : List Hash) (fc : Bool) (outs : List Fault) (st0 : MState)
    (hi : MInv node emptyHash leaf c st0) (hr : ReqInv node emptyHash leaf c st0 r) (hlt : r.i < r.numPackages)
    (hxs : xs.length = min r.stop (r.rs + 256 * r.i + 256) - max r.start (r.rs + 256 * r.i)) :
    MInv node emptyHash leaf c
      (pkgFull node emptyHash leaf rid r xs proof fc outs (r.rs + 256 * r.i) (min r.stop (r.rs + 256 * r.i + 256)) st0).1 := by
  unfold pkgFull
  split
  · exact hi
  · rename_i all hcomp
    simp only []
    split
    · exact hi
    · rename_i hchk
      simp only [Bool.not_eq_true', Bool.not_eq_false] at hchk
      have hlen := complete_length hcomp (by omega)
      refine pkgUpload_inv node emptyHash leaf c rid r all outs st0 hi hr hlt ?_ hlen
      intro E hE
      obtain ⟨a1, a2, _⟩ := auth node emptyHash leaf inj linj hi.ctl.wi.chain hr.ck hE hchk hlen
      obtain ⟨b1, _⟩ := truth_mem node emptyHash leaf hi.ctl.wi.chain hE hr.ck
      exact ⟨a1, by omega⟩

theorem pkgStep_inv (inj : NodeInj node) (linj : LeafInj leaf) (c : MCfg) (rid : Nat) (inp : PkgIn) (fc fp : Bool)
    (outs : List Fault) (st : MState) (hi : MInv node emptyHash leaf c st) :
    MInv node emptyHash leaf c (pkgStep node emptyHash leaf c rid inp fc fp outs st).1 := by
  unfold pkgStep
  split
  · exact hi
  · rename_i r hreq
    split
    · exact hi
    · rename_i hlt
      have hr := hi.ctl.rq rid r hreq
      have hi0 := setReq_none_inv node emptyHash leaf c rid st hi
      have hr0 : ReqInv node emptyHash leaf c (st.setReq rid none) r := reqInv_congr (a := st) node emptyHash leaf rfl rfl hr
      simp only []
      split
      · split
        · exact hi0
        · exact conflictNext_inv node emptyHash leaf c r fp _ hi0 hr.pay
      · exact hi0
      · rename_i xs proof
        split
        · exact hi
        · rename_i hlen
          exact pkgFull_inv node emptyHash leaf inj linj c rid r xs proof fc outs _ hi0 hr0 (by omega) (by omega)

/-! ### the commit step -/

theorem le_last_of_pairwise {l : List (Nat × Hash)} (hp : l.Pairwise (fun a b => a.1 ≤ b.1)) {k kl : Nat × Hash}
    (hk : k ∈ l) (hl : l.getLast? = some kl) : k.1 ≤ kl.1 := by
  obtain ⟨ys, hys⟩ := List.getLast?_eq_some_iff.1 hl
  rw [hys] at hk hp
  rcases List.mem_append.1 hk with h | h
  · exact (List.pairwise_append.1 hp).2.2 k h kl (by simp)
  · simp only [List.mem_singleton] at h; subst h; exact Nat.le_refl _

/-- the states `commitRecord` can end in -/
theorem record_inv (c : MCfg) (st2 s : MState) (ck : Nat × Hash) (next : Nat) (hi : MInv node emptyHash leaf c st2)
    (hck : ck ∈ st2.w.hist) (hn : st2.next = some next) (hge : ck.1 ≤ next)
    (hmir : (mirrorCk emptyHash st2.mlock).1 ≤ ck.1)
    (hcut : ck.1 % 256 ≠ 0 → (st2.hash 0 (ck.1 / 256) (ck.1 % 256)).isSome)
    (e_w : s.w = st2.w) (e_data : s.data = st2.data) (e_hash : s.hash = st2.hash) (e_next : s.next = st2.next)
    (e_reqs : s.reqs = st2.reqs) (e_issued : s.issued = st2.issued)
    (e_lock : (s.mlock = st2.mlock ∧ s.mhist = st2.mhist) ∨ ((∃ n, s.mlock = some (ck, n)) ∧ s.mhist = st2.mhist ++ [ck]))
    (e_mc : s.mcache = none ∨ s.mcache = some s.mlock)
    (e_pub : s.mpub = st2.mpub ∨ (s.mpub = some ck ∧ ck ∈ s.mhist))
    (e_rel : s.released = st2.released ∨ (s.released = st2.released ++ [ck] ∧ ck ∈ s.mhist)) :
    MInv node emptyHash leaf c s := by
  obtain ⟨hc, hs⟩ := hi
  have hsub : ∀ k ∈ st2.mhist, k ∈ s.mhist := by
    intro k hk
    rcases e_lock with ⟨_, e⟩ | ⟨_, e⟩ <;> rw [e]
    · exact hk
    · exact List.mem_append_left _ hk
  have hmk : (mirrorCk emptyHash s.mlock).1 ≤ next := by
    rcases e_lock with ⟨e, _⟩ | ⟨⟨n, e⟩, _⟩ <;> rw [e]
    · exact (hc.nx next hn).1
    · exact hge
  have htop : top emptyHash s = top emptyHash st2 := by
    unfold top
    rw [e_next, hn]
    simp only [Option.getD_some]
    have := (hc.nx next hn).1
    omega
  refine ⟨⟨by rw [e_w]; exact hc.wi, by rw [e_w]; exact hc.hne, by rw [e_w]; exact hc.cache, ?_, ?_, ?_, ?_, ?_, ?_,
    by rw [e_issued, e_w]; exact hc.tk, ?_, ?_⟩, ⟨by rw [e_w, e_data]; exact hs.data, by rw [e_w, e_hash]; exact hs.hash, ?_, ?_,
    by rw [e_hash, e_data]; exact hs.h2d⟩⟩
  · -- mh
    intro k hk
    rw [e_w]
    rcases e_lock with ⟨_, e⟩ | ⟨_, e⟩ <;> rw [e] at hk
    · exact hc.mh k hk
    · rcases List.mem_append.1 hk with h | h
      · exact hc.mh k h
      · simp only [List.mem_singleton] at h; subst h; exact hck
  · -- mlast
    rcases e_lock with ⟨e1, e2⟩ | ⟨⟨n, e1⟩, e2⟩ <;> rw [e1, e2]
    · exact hc.mlast
    · simp
  · -- mmono
    rcases e_lock with ⟨_, e⟩ | ⟨_, e⟩ <;> rw [e]
    · exact hc.mmono
    · rw [List.pairwise_append]
      refine ⟨hc.mmono, by simp, ?_⟩
      intro a ha b hb
      simp only [List.mem_singleton] at hb
      subst hb
      cases hml : st2.mlock with
      | none =>
        have := hc.mlast
        rw [hml] at this
        simp only [Option.map_none, List.getLast?_eq_none_iff] at this
        rw [this] at ha; cases ha
      | some v =>
        have hl := hc.mlast
        rw [hml] at hl
        simp only [Option.map_some] at hl
        have := le_last_of_pairwise hc.mmono ha hl
        rw [hml] at hmir
        simp only [mirrorCk] at hmir
        omega
  · -- mc
    intro v hv
    rcases e_mc with e | e <;> rw [e] at hv
    · cases hv
    · exact (Option.some.inj hv).symm
  · -- nx
    intro x hx
    rw [e_next, hn] at hx
    simp only [Option.some.injEq] at hx
    subst hx
    rw [e_w]
    exact ⟨hmk, (hc.nx _ hn).2⟩
  · -- rq
    intro rid r hr
    rw [e_reqs] at hr
    exact reqInv_congr (a := st2) node emptyHash leaf (by rw [e_w]) e_next (hc.rq rid r hr)
  · -- rel
    intro k hk
    rcases e_rel with e | ⟨e, hm⟩ <;> rw [e] at hk
    · exact hsub k (hc.rel k hk)
    · rcases List.mem_append.1 hk with h | h
      · exact hsub k (hc.rel k h)
      · simp only [List.mem_singleton] at h; subst h; exact hm
  · -- pub
    intro k hk
    rcases e_pub with e | ⟨e, hm⟩ <;> rw [e] at hk
    · exact hsub k (hc.pub k hk)
    · simp only [Option.some.injEq] at hk; subst hk; exact hm
  · -- comp
    intro M hM hle l n w ht
    rw [htop] at hle
    rw [e_hash, e_data]
    exact hs.comp M hM hle l n w ht
  · -- cut
    intro k hk hk'
    rw [e_hash]
    rcases e_lock with ⟨_, e⟩ | ⟨_, e⟩ <;> rw [e] at hk
    · exact hs.cut k hk hk'
    · rcases List.mem_append.1 hk with h | h
      · exact hs.cut k h hk'
      · simp only [List.mem_singleton] at h; subst h; exact hcut hk'

theorem commitRecord_inv (c : MCfg) (r : Req) (rep up : Fault) (st2 : MState) (next : Nat)
    (hi : MInv node emptyHash leaf c st2) (hck : r.ck ∈ st2.w.hist) (hn : st2.next = some next) (hge : r.ck.1 ≤ next)
    (hmir : (mirrorCk emptyHash st2.mlock).1 ≤ r.ck.1)
    (hcut : r.ck.1 % 256 ≠ 0 → (st2.hash 0 (r.ck.1 / 256) (r.ck.1 % 256)).isSome) :
    MInv node emptyHash leaf c (commitRecord r rep up st2).1 := by
  unfold commitRecord
  simp only []
  split
  · exact hi
  · rename_i v hmc
    have hv := hi.ctl.mc v hmc
    subst hv
    simp only [decide_true, Bool.true_and]
    have hisok : ∀ f : Fault, f.isOk = true → f.applied = true := by intro f; cases f <;> simp [Fault.isOk, Fault.applied]
    split
    · -- the compare-and-swap reported an error
      cases hra : rep.applied
      · exact record_inv node emptyHash leaf c st2 _ r.ck next hi hck hn hge hmir hcut rfl rfl rfl rfl rfl rfl
          (Or.inl ⟨by simp, by simp⟩) (Or.inl rfl) (Or.inl rfl) (Or.inl rfl)
      · exact record_inv node emptyHash leaf c st2 _ r.ck next hi hck hn hge hmir hcut rfl rfl rfl rfl rfl rfl
          (Or.inr ⟨⟨st2.serial, by simp⟩, by simp⟩) (Or.inl rfl) (Or.inl rfl) (Or.inl rfl)
    · rename_i hok
      simp only [Bool.not_eq_true', Bool.not_eq_false] at hok
      have hra := hisok rep hok
      split
      · cases hua : up.applied
        · exact record_inv node emptyHash leaf c st2 _ r.ck next hi hck hn hge hmir hcut rfl rfl rfl rfl rfl rfl
            (Or.inr ⟨⟨st2.serial, by simp⟩, by simp⟩) (Or.inr (by simp)) (Or.inl (by simp)) (Or.inl rfl)
        · exact record_inv node emptyHash leaf c st2 _ r.ck next hi hck hn hge hmir hcut rfl rfl rfl rfl rfl rfl
            (Or.inr ⟨⟨st2.serial, by simp⟩, by simp⟩) (Or.inr (by simp)) (Or.inr ⟨by simp, by simp⟩) (Or.inl rfl)
      · rename_i huok
        simp only [Bool.not_eq_true', Bool.not_eq_false] at huok
        have hua := hisok up huok
        exact record_inv node emptyHash leaf c st2 _ r.ck next hi hck hn hge hmir hcut rfl rfl rfl rfl rfl rfl
          (Or.inr ⟨⟨st2.serial, by simp⟩, by simp⟩) (Or.inr (by simp)) (Or.inr ⟨by simp [hua], by simp⟩)
          (Or.inr ⟨rfl, by simp⟩)

theorem commitDecide_inv (c : MCfg) (r : Req) (fp fh fw : Bool) (ud uh rep up : Fault) (mir : PCk) (next : Nat)
    (st1 : MState) (hi : MInv node emptyHash leaf c st1) (hck : r.ck ∈ st1.w.hist)
    (hm : mir = mirrorP emptyHash st1.mlock) (hn : st1.next = some next) :
    MInv node emptyHash leaf c (commitDecide emptyHash leaf c r fp fh fw ud uh rep up mir next st1).1 := by
  unfold commitDecide
  split
  · exact hi
  rename_i hge
  split
  · obtain ⟨i1, f1, _, _, _, _, p1⟩ := fetchPending_inv node emptyHash leaf c fp st1 hi
    split
    · rename_i st2 heq
      rw [heq] at i1; exact i1
    · rename_i st2 p heq
      rw [heq] at i1 f1 p1
      replace i1 : MInv node emptyHash leaf c st2 := i1
      replace f1 : Frame st1 st2 := f1
      replace p1 : ∀ p', some p = some p' → p'.ck ∈ st1.w.hist ∧ (∀ k, payloadCk c.origin p'.payload = some k → k ∈ st1.w.hist) := p1
      exact (conflict_inv node emptyHash leaf c 409 p _ st2 i1 (by rw [f1.hist]; exact (p1 p rfl).2)).1
  · rename_i hmir
    obtain ⟨r1, r2, r3, r4⟩ := ensureCut_inv node emptyHash leaf r.ck.1 next fh fw ud uh st1 hi.store
    split
    · rename_i st2 heq
      rw [heq] at r1 r2
      exact ⟨ctlInv_sameCtl node emptyHash leaf r2 hi.ctl, r1⟩
    · rename_i st2 heq
      rw [heq] at r1 r2 r4
      replace r2 : SameCtl st1 st2 := r2
      have i2 : MInv node emptyHash leaf c st2 := ⟨ctlInv_sameCtl node emptyHash leaf r2 hi.ctl, r1⟩
      refine commitRecord_inv node emptyHash leaf c r rep up st2 next i2 (by rw [r2.w]; exact hck) (by rw [r2.next]; exact hn)
        (by omega) ?_ (fun h => r4 rfl h)
      rw [r2.mlock, ← mirrorP_ck, ← hm]
      omega

theorem commitStep_inv (c : MCfg) (rid : Nat) (fm fp fh fw : Bool) (ud uh rep up : Fault) (st : MState)
    (hi : MInv node emptyHash leaf c st) :
    MInv node emptyHash leaf c (commitStep emptyHash leaf c rid fm fp fh fw ud uh rep up st).1 := by
  unfold commitStep
  split
  · exact hi
  · rename_i r hreq
    split
    · exact hi
    · have hr := hi.ctl.rq rid r hreq
      have hi0 := setReq_none_inv node emptyHash leaf c rid st hi
      simp only []
      obtain ⟨i2, f2, w2, r2, s2, nx2, p2⟩ := fetchMirror_inv node emptyHash leaf c fm (st.setReq rid none) hi0
      split
      · rename_i st1 heq
        rw [heq] at i2; exact i2
      · rename_i st1 mir next heq
        rw [heq] at i2 f2 w2 p2
        replace i2 : MInv node emptyHash leaf c st1 := i2
        replace f2 : Frame (st.setReq rid none) st1 := f2
        replace w2 : st1.w = (st.setReq rid none).w := w2
        replace p2 : ∀ p x, some (mir, next) = some (p, x) → p = mirrorP emptyHash (st.setReq rid none).mlock ∧
          st1.mcache = some (st.setReq rid none).mlock ∧ st1.next = some x := p2
        obtain ⟨pm, _, pn⟩ := p2 mir next rfl
        exact commitDecide_inv node emptyHash leaf c r fp fh fw ud uh rep up mir next st1 i2
          (by rw [w2]; exact hr.ck) (by rw [f2.mlock]; exact pm) pn

/-! ### restart -/

theorem restart_inv (c : MCfg) (st : MState) (hi : MInv node emptyHash leaf c st) :
    MInv node emptyHash leaf c (restart st) := by
  obtain ⟨hc, hs⟩ := hi
  unfold restart
  refine ⟨⟨⟨hc.wi.chain, hc.wi.last, hc.wi.zero, hc.wi.rel, hc.wi.pub⟩, hc.hne, ?_, hc.mh, hc.mlast, hc.mmono,
    (fun v hv => by cases hv), (fun x hx => by cases hx), (fun rid r hr => by cases hr), hc.tk, hc.rel, hc.pub⟩,
    ⟨hs.data, hs.hash, ?_, hs.cut, hs.h2d⟩⟩
  · intro v k hv
    simp [OState.restart, OState.setCache] at hv
  · intro M hM hle
    refine hs.comp M hM ?_
    unfold top at hle ⊢
    simp only [Option.getD_none] at hle
    omega

/-! ### an add-checkpoint request -/

/-- the cached copies after a step of the witness are old cached copies, the old stored value or the new one -/
def CacheStep (w0 w : OState) : Prop :=
  ∀ i v, w.cache i = some v → w0.cache i = some v ∨ v = w0.lock ∨ v = w.lock

theorem execFetch_cache (e : Env) (st : OState) :
    (execFetch emptyHash e st).1.lock = st.lock ∧
    ∀ i v, (execFetch emptyHash e st).1.cache i = some v → st.cache i = some v ∨ v = st.lock := by
  unfold execFetch
  split
  · exact ⟨rfl, fun i v h => Or.inl h⟩
  · split
    · exact ⟨rfl, fun i v h => Or.inl h⟩
    · exact ⟨rfl, fun i v h => Or.inl h⟩
    · refine ⟨rfl, fun i v h => ?_⟩
      simp only [OState.setCache] at h
      split at h
      · right; exact (Option.some.inj h).symm
      · left; exact h

theorem execReplace_cache (e : Env) (st : OState) :
    ∀ i v, (execReplace e st).1.cache i = some v → st.cache i = some v ∨ v = (execReplace e st).1.lock := by
  intro i v
  unfold execReplace
  split
  · rename_i cv s hc hs
    simp only []
    by_cases hi : i = e.inst
    · subst hi
      by_cases hv : cv = st.lock <;> cases ho : e.replaceOut <;>
        simp [hv, Out.applied, Out.seen, OState.setCache] <;> intro h <;>
        first | exact Or.inl h | exact Or.inr h.symm | exact Or.inr h
    · by_cases hv : cv = st.lock <;> cases ho : e.replaceOut <;>
        simp [hv, hi, Out.applied, Out.seen, OState.setCache] <;> intro h <;> exact Or.inl h
  · intro h; exact Or.inl h

theorem execUpload_cache (e : Env) (st : OState) :
    (execUpload e st).1.cache = st.cache ∧ (execUpload e st).1.lock = st.lock := by
  unfold execUpload
  split
  · split <;> exact ⟨rfl, rfl⟩
  · exact ⟨rfl, rfl⟩

theorem finish_cache (e : Env) (st : OState) : (finish e st).1.cache = st.cache ∧ (finish e st).1.lock = st.lock := by
  unfold finish
  split <;> exact ⟨rfl, rfl⟩

theorem addCheckpoint_cache (e : Env) (st : OState) : CacheStep st (addCheckpoint node emptyHash e st).1 := by
  rw [addCheckpoint_nf]
  split
  · intro i v h; exact Or.inl h
  · obtain ⟨fl, fc⟩ := execFetch_cache emptyHash e st
    have hst1 : ∀ st1, st1 = (execFetch emptyHash e st).1 → CacheStep st st1 := by
      intro st1 h1 i v h
      subst h1
      rcases fc i v h with h' | h'
      · exact Or.inl h'
      · exact Or.inr (Or.inl h')
    split
    · rename_i st1 heq
      exact hst1 st1 (by rw [heq])
    · rename_i st1 heq
      exact hst1 st1 (by rw [heq])
    · rename_i st1 heq
      have e1 : st1 = (execFetch emptyHash e st).1 := by rw [heq]
      have fl1 : st1.lock = st.lock := by rw [e1]; exact fl
      have fc1 : ∀ i v, st1.cache i = some v → st.cache i = some v ∨ v = st.lock := by rw [e1]; exact fc
      unfold afterFetch
      split
      · exact hst1 st1 e1
      · unfold afterMid
        have rc := execReplace_cache e st1
        have hst2 : ∀ st2, st2 = (execReplace e st1).1 → ∀ st3, st3.cache = st2.cache → st3.lock = st2.lock → CacheStep st st3 := by
          intro st2 h2 st3 hc3 hl3 i v h
          subst h2
          rw [hc3] at h
          rcases rc i v h with h' | h'
          · rcases fc1 i v h' with h'' | h''
            · exact Or.inl h''
            · exact Or.inr (Or.inl h'')
          · right; right; rw [hl3]; exact h'
        split
        · rename_i st2 heq2
          exact hst2 st2 (by rw [heq2]) st2 rfl rfl
        · rename_i st2 heq2
          exact hst2 st2 (by rw [heq2]) st2 rfl rfl
        · rename_i st2 heq2
          unfold afterUpload
          obtain ⟨uc, ul⟩ := execUpload_cache e st2
          split
          · rename_i st3 heq3
            rw [heq3] at uc ul
            exact hst2 st2 (by rw [heq2]) st3 uc ul
          · rename_i st3 heq3
            rw [heq3] at uc ul
            exact hst2 st2 (by rw [heq2]) st3 uc ul
          · rename_i st3 heq3
            rw [heq3] at uc ul
            obtain ⟨c4, l4⟩ := finish_cache e st3
            exact hst2 st2 (by rw [heq2]) _ (c4.trans uc) (l4.trans ul)

theorem truth_back {hist hist' : List (Nat × Hash)} (hc' : hist'.Pairwise (Consistent node emptyHash)) (hne : hist ≠ [])
    (hext : hist' = hist ∨ ∃ x, hist' = hist ++ [x]) {E' : List Entry} (ht : TruthH node emptyHash leaf hist' E') :
    ∃ N, TruthH node emptyHash leaf hist (E'.take N) ∧ N ≤ E'.length ∧ ∀ k ∈ hist, k.1 ≤ N := by
  rcases hext with rfl | ⟨x, rfl⟩
  · refine ⟨E'.length, by rw [List.take_length]; exact ht, Nat.le_refl _, ?_⟩
    intro k hk
    exact (truth_mem node emptyHash leaf hc' ht hk).1
  · obtain ⟨kl, hkl⟩ : ∃ kl, hist.getLast? = some kl := by
      cases h : hist.getLast? with
      | none => exact absurd (List.getLast?_eq_none_iff.1 h) hne
      | some kl => exact ⟨kl, rfl⟩
    have hmem : kl ∈ hist := List.mem_of_getLast? hkl
    obtain ⟨h1, h2⟩ := truth_mem node emptyHash leaf hc' ht (List.mem_append_left _ hmem)
    refine ⟨kl.1, ⟨kl, hkl, ?_, ?_⟩, h1, ?_⟩
    · show ((E'.take kl.1).map leaf).length = kl.1
      rw [List.length_map, List.length_take]; omega
    · show mth node emptyHash ((E'.take kl.1).map leaf) = kl.2
      rw [List.map_take]; exact h2.symm
    · intro k hk
      exact mem_le_last node emptyHash (List.pairwise_append.1 hc').1 hk hkl

theorem addCk_inv (inj : NodeInj node) (c : MCfg) (e : Env) (st : MState) (hi : MInv node emptyHash leaf c st)
    (ho : e.origin = c.origin) :
    MInv node emptyHash leaf c { st with w := (addCheckpoint node emptyHash e st.w).1 } := by
  obtain ⟨hc, hs⟩ := hi
  have hwi' : Witness.Inv node emptyHash c.origin (addCheckpoint node emptyHash e st.w).1 := by
    rw [← ho]; exact inv_add node emptyHash inj e (by rw [ho]; exact hc.wi)
  have hext : (addCheckpoint node emptyHash e st.w).1.hist = st.w.hist ∨
      ∃ x, (addCheckpoint node emptyHash e st.w).1.hist = st.w.hist ++ [x] := by
    rcases addCheckpoint_summary node emptyHash e st.w _ rfl with ⟨_, h, _⟩ | ⟨_, _, _, h, _⟩
    · exact Or.inl h
    · exact Or.inr ⟨_, h⟩
  have hsub : ∀ k ∈ st.w.hist, k ∈ (addCheckpoint node emptyHash e st.w).1.hist := by
    intro k hk
    rcases hext with h | ⟨x, h⟩ <;> rw [h]
    · exact hk
    · exact List.mem_append_left _ hk
  have hback := fun E' ht => truth_back node emptyHash leaf (hist := st.w.hist) hwi'.chain hc.hne hext (E' := E') ht
  refine ⟨⟨hwi', ?_, ?_, fun k hk => hsub k (hc.mh k hk), hc.mlast, hc.mmono, hc.mc, ?_, ?_,
    fun t ht k hk => hsub k (hc.tk t ht k hk), hc.rel, hc.pub⟩, ⟨?_, ?_, hs.comp, hs.cut, hs.h2d⟩⟩
  · rcases hext with h | ⟨x, h⟩ <;> simp only [] <;> rw [h]
    · exact hc.hne
    · simp
  · intro v k hv hk
    rcases addCheckpoint_cache node emptyHash e st.w 0 v hv with h | h | h
    · exact hsub k (hc.cache v k h hk)
    · subst h; exact hsub k (List.mem_of_getLast? (hc.wi.last k hk))
    · subst h; exact List.mem_of_getLast? (hwi'.last k hk)
  · intro x hx
    obtain ⟨a, k, hk, hk'⟩ := hc.nx x hx
    exact ⟨a, k, hsub k hk, hk'⟩
  · intro rid r hr
    obtain ⟨h1, h2, h3, h4, h5, h6, h7, h8⟩ := hc.rq rid r hr
    refine ⟨hsub _ h1, h2, h3, fun k hk => hsub k (h4 k hk), h5, h6, h7, ?_⟩
    intro E' ht
    obtain ⟨N, tN, _, hN⟩ := hback E' ht
    have := h8 _ tN
    rw [List.map_take, rng_take_of_le] at this
    · exact this
    · have := hN _ h1
      omega
  · intro E' ht n w es he
    obtain ⟨N, tN, hNl, _⟩ := hback E' ht
    obtain ⟨a, b⟩ := hs.data _ tN n w es he
    rw [List.length_take] at b
    rw [bundleOf_take E' (by omega)] at a
    exact ⟨a, by omega⟩
  · intro E' ht l n w x hx
    obtain ⟨N, tN, hNl, _⟩ := hback E' ht
    obtain ⟨a, b⟩ := hs.hash _ tN l n w x hx
    rw [List.length_map, List.length_take] at b
    rw [List.map_take, tileOf_take node emptyHash (E'.map leaf) (by omega)] at a
    exact ⟨a, by rw [List.length_map]; omega⟩

/-! ### every reachable state -/

theorem init_inv (c : MCfg) (enforce : Bool) : MInv node emptyHash leaf c (MState.init emptyHash enforce) := by
  refine ⟨⟨inv_init node emptyHash c.origin, by simp [MState.init, OState.init], ?_, ?_, rfl, List.Pairwise.nil, ?_, ?_, ?_, ?_, ?_, ?_⟩,
    ⟨?_, ?_, ?_, ?_, ?_⟩⟩
  · intro v k hv; simp [MState.init, OState.init] at hv
  · intro k hk; simp [MState.init] at hk
  · intro v hv; simp [MState.init] at hv
  · intro x hx; simp [MState.init] at hx
  · intro rid r hr; simp [MState.init] at hr
  · intro t ht; simp [MState.init] at ht
  · intro k hk; simp [MState.init] at hk
  · intro k hk; simp [MState.init] at hk
  · intro E _ n w es he; simp [MState.init] at he
  · intro E _ l n w x hx; simp [MState.init] at hx
  · intro M hM hle l n w ht
    have h0 : M = 0 := by
      simp only [top, MState.init, mirrorCk, Option.getD_none] at hle
      omega
    subst h0
    unfold IsTile lvl at ht
    have : 0 / 256 ^ l = 0 := Nat.zero_div _
    omega
  · intro k hk; simp [MState.init] at hk
  · intro n w h; simp [MState.init] at h

theorem step_inv (inj : NodeInj node) (linj : LeafInj leaf) (c : MCfg) (st : MState) (ev : Ev)
    (hi : MInv node emptyHash leaf c st) (hadm : Admissible c st ev) :
    MInv node emptyHash leaf c (step node emptyHash leaf c st ev).1 := by
  cases ev with
  | addCk e =>
    simp only [step]
    split
    · rename_i h
      exact addCk_inv node emptyHash leaf inj c e st hi h.1
    · exact hi
  | mdata rid q fp fm => exact metadata_inv node emptyHash leaf c rid q fp fm st hi hadm
  | pkg rid inp fc fp outs => exact pkgStep_inv node emptyHash leaf inj linj c rid inp fc fp outs st hi
  | commit rid fm fp fh fw ud uh rep up => exact commitStep_inv node emptyHash leaf c rid fm fp fh fw ud uh rep up st hi
  | restart => exact restart_inv node emptyHash leaf c st hi

/-- the invariant holds in every reachable state -/
theorem reachable_inv (inj : NodeInj node) (linj : LeafInj leaf) {c : MCfg} {st : MState}
    (hr : Reachable node emptyHash leaf c st) : MInv node emptyHash leaf c st := by
  induction hr with
  | init enforce => exact init_inv node emptyHash leaf c enforce
  | step st ev _ hadm ih => exact step_inv node emptyHash leaf inj linj c st ev ih hadm

end Mirror
