import Proofs.SeqSolo
/-! Publication order with one live process at a time (the quantifier of C01/C02/C03: one process dying
and restarting, no overlapping instances). Three facts, for every accepted event sequence without a
`tamper` event:

* `ckHead_reachable` (any number of instances): the checkpoint object is exactly the last effective
  checkpoint upload — the head of `pubHist`;
* `pubMono_reachable` (`ReachableSolo`): the publication history is monotone — every published
  checkpoint extends every earlier one (with two overlapping instances this is FALSE: finding F3,
  `C06_pub_order_not_monotone_witness`);
* `ackPub_reachable` (`ReachableSolo`): what the checkpoint object held at the instant an
  acknowledgement was issued covers the acknowledged index with that entry and timestamp, and so does
  the checkpoint object at every later instant.

Core Lean only. -/
namespace Seq

/-- newest-first list in which every element is extended (or equalled) by every newer one -/
def PubMono (P : List Ck) : Prop :=
  P.Pairwise (fun newer older => older.leaves <+: newer.leaves ∧ older.time ≤ newer.time)

/-- the checkpoint object is the last effective checkpoint upload -/
def CkHead (s : Sys) : Prop := s.store .ckpt = s.pubHist.head?.map (fun c => (Obj.ck c, false))

/-- who issues checkpoint uploads: log creation after its lock create, or a round after its
    compare-and-swap (in its tile batch or right after it) -/
theorem upload_ckpt_who (s s' : Sys) (i : Nat) (imm : Bool) (c : Ck) (r : Res)
    (h : step s (.upload i .ckpt imm (.ck c) r) = some s') :
    (s.insts i).phase = .creating (.ckptUpload c) ∨
    ∃ rd, (s.insts i).phase = .round rd ∧ rd.new = c ∧ (rd.pc = .ckpt ∨ ∃ d f, rd.pc = .tiles d f) := by
  simp only [step] at h
  split at h
  · cases h
  · split at h
    · -- creating, ckpt
      rename_i c' hph hk
      split at h
      · cases h
      · rename_i hg
        simp only [not_or, ne_eq, Decidable.not_not] at hg
        left
        have : c = c' := by injection hg.1
        subst this
        exact hph
    all_goals (try (rename_i hk; cases hk; done))
    · -- round, ckpt
      rename_i rd hph hk
      right
      split at h
      · rename_i hready
        split at h
        · cases h
        · rename_i hg
          simp only [not_or, ne_eq, Decidable.not_not] at hg
          have hc : c = rd.new := by injection hg.1
          refine ⟨rd, hph, hc.symm, ?_⟩
          cases hpc : rd.pc <;> simp_all
      · cases h
    · cases h

/-- the uploader of a checkpoint object holds, in single-process runs, the current lock checkpoint -/
theorem upload_ckpt_is_lock (s s' : Sys) (i : Nat) (imm : Bool) (c : Ck) (r : Res)
    (hs : SoloInv s) (h1 : Inv s) (h : step s (.upload i .ckpt imm (.ck c) r) = some s') : s.lock = some c := by
  have hso := hs.inst i
  have hio := h1.inst i
  rcases upload_ckpt_who s s' i imm c r h with hph | ⟨rd, hph, hnew, hpc⟩
  · unfold SoloOK at hso; rw [hph] at hso; exact hso
  · unfold SoloOK at hso; unfold InstOK at hio
    rw [hph] at hso hio
    simp only at hso hio
    unfold RoundOK at hio
    rcases hpc with hpc | ⟨d, f, hpc⟩
    · rw [hpc] at hso hio; simp only at hso hio; rw [hso, ← hio.2, hnew]
    · rw [hpc] at hso hio; simp only at hso hio; rw [hso, ← hio.2, hnew]

theorem pubMono_step (s s' : Sys) (e : Ev) (hs : SoloInv s) (h1 : Inv s) (hm : PubMono s.pubHist)
    (h : step s e = some s') : PubMono s'.pubHist := by
  rcases step_pubHist_ckpt s s' e h with hsame | ⟨i, imm, c, r, rfl, hp⟩
  · rw [hsame]; exact hm
  · rw [hp]
    have hl := upload_ckpt_is_lock s s' i imm c r hs h1 h
    refine List.Pairwise.cons ?_ hm
    intro b hb
    exact lock_extends_hist h1 hl b (h1.pub b hb)

/-- C01 (publication order, one live process): every published checkpoint extends every earlier one -/
theorem pubMono_reachable {s : Sys} (r : ReachableSolo s) (ht : s.tampered = false) : PubMono s.pubHist := by
  induction r with
  | init p => simp [init, PubMono]
  | @step s0 s1 e r0 h _ ih =>
    have ht0 := (step_tampered s0 s1 e h ht).1
    exact pubMono_step s0 s1 e (soloInv_reachable r0 ht0) (inv_reachable r0.reachable) (ih ht0) h

theorem ckHead_step (s s' : Sys) (e : Ev) (hc : CkHead s) (h : step s e = some s') (ht : s'.tampered = false) :
    CkHead s' := by
  unfold CkHead at *
  rcases step_store_same_unless s s' e h with ⟨i, k, imm, o, r, rfl⟩ | ⟨i, k, r, rfl⟩ | ⟨k, o, rfl⟩ | hsame
  · have hup := (upload_store s s' i k imm o r h).1
    by_cases hk : k = .ckpt
    · subst hk
      obtain ⟨himm, c, rfl⟩ := upload_ckpt_shape s s' i imm o r h
      subst himm
      obtain ⟨p1, p2⟩ := upload_ckpt_pub s s' i false (.ck c) r h
      cases hr : r.applied
      · rw [storeUpload_not_applied hup hr, p2 hr]; exact hc
      · obtain ⟨c', hcc, hp⟩ := p1 hr
        injection hcc with hcc; subst hcc
        rw [storeUpload_at hup hr, hp]; rfl
    · rw [storeUpload_other hup (Ne.symm hk)]
      rcases step_pubHist_ckpt s s' _ h with hp | ⟨_, _, _, _, he, _⟩
      · rw [hp]; exact hc
      · injection he with _ hk' _ _ _; exact absurd hk' hk
  · obtain ⟨t, rfl⟩ := discard_key s s' i k r h
    rw [discard_store s s' i _ r h .ckpt (by simp)]
    rcases step_pubHist_ckpt s s' _ h with hp | ⟨_, _, _, _, he, _⟩
    · rw [hp]; exact hc
    · cases he
  · exact absurd rfl ((step_tampered s s' _ h ht).2 k o)
  · rw [hsame]
    rcases step_pubHist_ckpt s s' e h with hp | ⟨i, imm, c, r, rfl, _⟩
    · rw [hp]; exact hc
    · -- an upload event: but the store is unchanged only if it was not applied; use the precise lemma
      obtain ⟨p1, p2⟩ := upload_ckpt_pub s s' i imm (.ck c) r h
      have hup := (upload_store s s' i .ckpt imm (.ck c) r h).1
      obtain ⟨himm, _⟩ := upload_ckpt_shape s s' i imm (.ck c) r h
      subst himm
      cases hr : r.applied
      · rw [p2 hr]; exact hc
      · obtain ⟨c', hcc, hp⟩ := p1 hr
        injection hcc with hcc; subst hcc
        rw [← hsame, storeUpload_at hup hr, hp]; rfl

/-- without tampering the checkpoint object is exactly the last effective checkpoint upload -/
theorem ckHead_reachable {s : Sys} (r : Reachable s) (ht : s.tampered = false) : CkHead s := by
  obtain ⟨p, es, h⟩ := r
  suffices ∀ (es : List Ev) (s0 : Sys), CkHead s0 → run s0 es = some s → CkHead s from
    this es (init p) (by simp [CkHead, init]) h
  intro es
  induction es with
  | nil => intro s0 h0 hr; simp [run] at hr; subst hr; exact h0
  | cons e es ih =>
    intro s0 h0 hr
    simp only [run] at hr
    split at hr
    · rename_i s1 hs1
      have ht1 : s1.tampered = false := by
        -- tampered is sticky along runs
        apply Classical.byContradiction
        intro hne
        have : ∀ (es : List Ev) (a b : Sys), a.tampered = true → run a es = some b → b.tampered = true := by
          intro es
          induction es with
          | nil => intro a b ha hr; simp [run] at hr; subst hr; exact ha
          | cons e es ih2 =>
            intro a b ha hr
            simp only [run] at hr
            split at hr
            · rename_i a1 ha1
              refine ih2 a1 b ?_ hr
              apply Classical.byContradiction
              intro hn
              have := (step_tampered a a1 e ha1 (by simpa using hn)).1
              rw [ha] at this; cases this
            · cases hr
        have := this es s1 s (by simpa using hne) hr
        rw [ht] at this; cases this
      exact ih s1 (ckHead_step s0 s1 e h0 hs1 ht1) hr
    · cases hr

/-- the leaf a published checkpoint holds at an index is held by every checkpoint extending it -/
theorem hasLeaf_head {P : List Ck} {h : Ck} {rest : List Ck} (hP : P = h :: rest) (hm : PubMono P)
    {key idx ts : Nat} (hl : HasLeaf P key idx ts) : ∃ l, h.leaves[idx]? = some l ∧ l.key = key ∧ l.ts = ts := by
  subst hP
  obtain ⟨c, hc, l, h1, h2, h3⟩ := hl
  cases hc with
  | head => exact ⟨l, h1, h2, h3⟩
  | tail _ hc' =>
    have hpre := ((List.pairwise_cons.1 hm).1 c hc').1
    obtain ⟨ext, hext⟩ := hpre
    refine ⟨l, ?_, h2, h3⟩
    rw [← hext]
    have hlt : idx < c.leaves.length := by
      by_cases hlt : idx < c.leaves.length
      · exact hlt
      · rw [List.getElem?_eq_none (by omega)] at h1; cases h1
    rw [List.getElem?_append_left hlt]; exact h1

/-- what the checkpoint object held when an acknowledgement was issued covers it -/
def AckPub (s : Sys) : Prop :=
  ∀ a ∈ s.acks, ∃ c, a.pubAt = some c ∧ ∃ l, c.leaves[a.idx]? = some l ∧ l.key = a.key ∧ l.ts = a.ts

/-- an accepted acknowledgement records the checkpoint object of that instant -/
theorem ack_shape (s s' : Sys) (i eid key idx ts : Nat) (h : step s (.ack i eid key idx ts) = some s') :
    s'.acks = ⟨i, eid, key, idx, ts, (match s.store .ckpt with | some (.ck c, _) => some c | _ => none)⟩ :: s.acks ∧
    s'.store = s.store ∧ s'.pubHist = s.pubHist := by
  simp only [step] at h
  repeat' split at h
  all_goals (first | cases h | skip)
  all_goals (try (injection h with h; subst h))
  all_goals simp_all

theorem step_acks_ack (s s' : Sys) (e : Ev) (h : step s e = some s') :
    s'.acks = s.acks ∨ ∃ i eid key idx ts, e = .ack i eid key idx ts := by
  cases e
  case ack i eid key idx ts => exact Or.inr ⟨i, eid, key, idx, ts, rfl⟩
  all_goals (left; simp only [step] at h <;> (repeat' split at h) <;>
    simp_all [Sys.setInst] <;> (try (subst h; simp_all)))

theorem ackPub_step (s s' : Sys) (e : Ev) (ha : AckPub s) (hck : CkHead s) (hm : PubMono s.pubHist)
    (h2' : Inv2 s') (h : step s e = some s') : AckPub s' := by
  rcases step_acks_ack s s' e h with hsame | ⟨i, eid, key, idx, ts, rfl⟩
  · unfold AckPub; rw [hsame]; exact ha
  · obtain ⟨hacks, _, hpub⟩ := ack_shape s s' i eid key idx ts h
    intro a hmem
    rw [hacks] at hmem
    cases hmem with
    | tail _ hm' => exact ha a hm'
    | head =>
      have hl : HasLeaf s'.pubHist key idx ts := h2'.acks _ (by rw [hacks]; exact List.mem_cons_self)
      rw [hpub] at hl
      cases hP : s.pubHist with
      | nil => rw [hP] at hl; obtain ⟨c, hc, _⟩ := hl; cases hc
      | cons hd rest =>
        unfold CkHead at hck
        rw [hP] at hck
        simp only [List.head?_cons, Option.map_some] at hck
        obtain ⟨l, h1, h2, h3⟩ := hasLeaf_head hP hm hl
        refine ⟨hd, ?_, l, h1, h2, h3⟩
        simp only [hck]

/-- C02 (one live process): the publicly readable checkpoint at the acknowledgement instant covers the entry -/
theorem ackPub_reachable {s : Sys} (r : ReachableSolo s) (ht : s.tampered = false) : AckPub s := by
  induction r with
  | init p => intro a ha; simp [init] at ha
  | @step s0 s1 e r0 h hsolo ih =>
    have ht0 := (step_tampered s0 s1 e h ht).1
    exact ackPub_step s0 s1 e (ih ht0) (ckHead_reachable r0.reachable ht0) (pubMono_reachable r0 ht0)
      (inv2_reachable (r0.reachable.step h)) h

/-- … and the checkpoint object at every later instant of the run still covers it -/
theorem acks_readable_now {s : Sys} (r : ReachableSolo s) (ht : s.tampered = false) :
    ∀ a ∈ s.acks, ∃ c, s.store .ckpt = some (.ck c, false) ∧
      ∃ l, c.leaves[a.idx]? = some l ∧ l.key = a.key ∧ l.ts = a.ts := by
  intro a ha
  have hl := (inv2_reachable r.reachable).acks a ha
  have hck := ckHead_reachable r.reachable ht
  have hm := pubMono_reachable r ht
  cases hP : s.pubHist with
  | nil => rw [hP] at hl; obtain ⟨c, hc, _⟩ := hl; cases hc
  | cons hd rest =>
    unfold CkHead at hck
    rw [hP] at hck
    simp only [List.head?_cons, Option.map_some] at hck
    obtain ⟨l, h1, h2, h3⟩ := hasLeaf_head hP hm hl
    exact ⟨hd, hck, l, h1, h2, h3⟩

end Seq
