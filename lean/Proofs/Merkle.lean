import Model.Merkle
/-! Soundness of the tlog consistency-proof checker for all sizes (DESIGN.md §6.1). -/
namespace Merkle
variable {H : Type} (node : H → H → H) (empty : H)

theorem runTreeProof_sound (inj : NodeInj node) (B : List H) :
    ∀ (p : List H) (lo hi n : Nat) (old oh th : H),
      lo < n → n ≤ hi → hi ≤ B.length →
      runTreeProof node p lo hi n old = some (oh, th) →
      th = mth node empty (rng B lo hi) →
      oh = mth node empty (rng B lo n) := by
  intro p
  induction p with
  | nil =>
    intro lo hi n old oh th h1 h2 h3 hr ht
    simp only [runTreeProof] at hr
    split at hr
    · rename_i hc
      obtain ⟨rfl, rfl⟩ := hc
      simp only [Option.some.injEq, Prod.mk.injEq] at hr
      obtain ⟨rfl, rfl⟩ := hr
      exact ht
    · cases hr
  | cons x rest ih =>
    intro lo hi n old oh th h1 h2 h3 hr ht
    simp only [runTreeProof] at hr
    split at hr
    · rename_i hnh
      subst hnh
      split at hr
      · cases hr
      · split at hr
        · simp only [Option.some.injEq, Prod.mk.injEq] at hr
          obtain ⟨rfl, rfl⟩ := hr
          exact ht
        · cases hr
    · rename_i hnh
      have hlt : n < hi := by omega
      have hlen : 2 ≤ hi - lo := by omega
      have hk1 := split_lt hlen
      have hk2 := le_two_split hlen
      have hk0 := split_pos (hi - lo)
      -- unfold the big tree at [lo,hi)
      have hbig : mth node empty (rng B lo hi) =
          node (mth node empty (rng B lo (lo + split (hi - lo))))
               (mth node empty (rng B (lo + split (hi - lo)) hi)) := by
        have hl := rng_length B h3 (by omega : lo ≤ hi)
        rw [mth_unfold node empty _ (by omega), hl]
        rw [rng_take B (by omega), rng_drop B (by omega)]
      split at hr
      · rename_i hle
        -- left branch
        cases hrec : runTreeProof node rest lo (lo + split (hi - lo)) n old with
        | none => rw [hrec] at hr; cases hr
        | some pr =>
          obtain ⟨oh', th'⟩ := pr
          rw [hrec] at hr
          simp only [Option.some.injEq, Prod.mk.injEq] at hr
          obtain ⟨rfl, rfl⟩ := hr
          rw [hbig] at ht
          obtain ⟨e1, _⟩ := inj _ _ _ _ ht
          exact ih lo _ n old oh' th' h1 hle (by omega) hrec e1
      · rename_i hgt
        cases hrec : runTreeProof node rest (lo + split (hi - lo)) hi n old with
        | none => rw [hrec] at hr; cases hr
        | some pr =>
          obtain ⟨oh', th'⟩ := pr
          rw [hrec] at hr
          simp only [Option.some.injEq, Prod.mk.injEq] at hr
          obtain ⟨rfl, rfl⟩ := hr
          rw [hbig] at ht
          obtain ⟨e1, e2⟩ := inj _ _ _ _ ht
          have hoh := ih (lo + split (hi - lo)) hi n old oh' th' (by omega) h2 h3 hrec e2
          -- the old tree [lo,n) splits at the same k
          have hl := rng_length B (by omega : n ≤ B.length) (by omega : lo ≤ n)
          have hs : split (n - lo) = split (hi - lo) :=
            split_eq_of_between hlen (by omega) (by omega)
          rw [mth_unfold node empty (rng B lo n) (by omega), hl, hs]
          rw [rng_take B (by omega), rng_drop B (by omega)]
          rw [← hoh, ← e1]

theorem checkTree_sound [DecidableEq H] (inj : NodeInj node) (p : List H) (t n : Nat) (th h : H)
    (hc : checkTree node p t th n h = true) :
    ∀ B : List H, B.length = t → mth node empty B = th → mth node empty (B.take n) = h := by
  intro B hB hroot
  unfold checkTree at hc
  split at hc
  · cases hc
  · rename_i hg
    cases hrec : runTreeProof node p 0 t n h with
    | none => rw [hrec] at hc; cases hc
    | some pr =>
      obtain ⟨h2, th2⟩ := pr
      rw [hrec] at hc
      simp only [decide_eq_true_eq] at hc
      obtain ⟨rfl, rfl⟩ := hc
      have hr0 : rng B 0 t = B := by
        unfold rng; simp only [List.drop_zero, Nat.sub_zero]
        exact List.take_of_length_le (by omega)
      have := runTreeProof_sound node empty inj B p 0 t n h2 h2 th2 (by omega) (by omega) (by omega) hrec
        (by rw [hr0, hroot])
      rw [this]
      unfold rng; simp

end Merkle
