import Model.Aftersun
import Proofs.TilePath
/-!
Lemmas for C18 (`Props/C18.lean`):

* the tile-path parsers relate a partial-tile path `a ++ ".p/" ++ q` to the path `a` of its full
  sibling: same level and index, `a` is the text before the first `".p/"` (so the two independent
  mechanisms of `cleanDir` and `overrideImmutable` look at the same file);
* the right-edge arithmetic of `cleanDir` (with Go's shift / wrap-around / divide-by-zero semantics);
* every deletion of the walk is `Justified`.
-/
namespace Aftersun
open TilePath

/-! ### no '.' in the coordinate part of a path -/

theorem digits_nodot {s : Bytes} (h : s.all isDigit = true) : (46 : UInt8) ∉ s := by
  intro hm
  have := List.all_eq_true.mp h 46 hm
  exact absurd this (by decide)

theorem fmtNat_nodot (n : Nat) : (46 : UInt8) ∉ fmtNat n := digits_nodot (fmtNat_digits n)

theorem padLeft_nodot (w : Nat) {s : Bytes} (h : (46 : UInt8) ∉ s) : (46 : UInt8) ∉ padLeft w s := by
  unfold padLeft
  intro hm
  rcases List.mem_append.mp hm with h1 | h1
  · have := List.eq_of_mem_replicate h1
    exact absurd this (by decide)
  · exact h h1

theorem fmt03_nodot (x : Int) : (46 : UInt8) ∉ fmt03 x := by
  unfold fmt03
  split
  · intro hm
    rcases List.mem_cons.mp hm with h1 | h1
    · exact absurd h1 (by decide)
    · exact padLeft_nodot _ (fmtNat_nodot _) h1
  · exact padLeft_nodot _ (fmtNat_nodot _)

theorem nStrLoop_nodot (fuel : Nat) : ∀ (n : Int) (acc : Bytes), (46 : UInt8) ∉ acc → (46 : UInt8) ∉ nStrLoop fuel n acc := by
  induction fuel with
  | zero => intro n acc h; simpa [nStrLoop] using h
  | succ f ih =>
    intro n acc h
    simp only [nStrLoop]
    split
    · apply ih
      intro hm
      rcases List.mem_cons.mp hm with h1 | h1
      · exact absurd h1 (by decide)
      · rcases List.mem_append.mp h1 with h2 | h2
        · exact fmt03_nodot _ h2
        · rcases List.mem_cons.mp h2 with h3 | h3
          · exact absurd h3 (by decide)
          · exact h h3
    · exact h

theorem nStr_nodot (n : Int) : (46 : UInt8) ∉ nStr n := nStrLoop_nodot _ _ _ (fmt03_nodot _)

theorem levelStr_nodot (l : Int) (h : -1 ≤ l) : (46 : UInt8) ∉ levelStr l := by
  unfold levelStr
  split
  · decide
  · rw [fmtInt_nonneg (by omega)]; exact fmtNat_nodot _

/-- the part of `Tile.Path()` before the optional `.p/<W>` -/
def basePath (t : Tile) : Bytes := ascii "tile/8/" ++ (levelStr t.L ++ 47 :: nStr t.N)

theorem basePath_nodot (t : Tile) (h : -1 ≤ t.L) : (46 : UInt8) ∉ basePath t := by
  unfold basePath
  intro hm
  rcases List.mem_append.mp hm with h1 | h1
  · exact absurd h1 (by decide)
  · rcases List.mem_append.mp h1 with h2 | h2
    · exact levelStr_nodot _ h h2
    · rcases List.mem_cons.mp h2 with h3 | h3
      · exact absurd h3 (by decide)
      · exact nStr_nodot _ h3

theorem tlogPath_base (t : Tile) (hH : t.H = 8) :
    tlogPath t = basePath t ++ (if t.W ≠ 256 then dotPSlash ++ fmtInt t.W else []) := by
  rw [tlogPath_prefix t hH]
  unfold basePath nwPart
  have : dotPSlash = ascii ".p" ++ [47] := by decide
  rw [this]
  split <;> simp

/-- splitting at the first '.' is unique -/
theorem first_dot_split : ∀ (a a' r r' : Bytes), (46 : UInt8) ∉ a → (46 : UInt8) ∉ a' →
    a ++ 46 :: r = a' ++ 46 :: r' → a = a' ∧ r = r' := by
  intro a
  induction a with
  | nil =>
    intro a' r r' _ h' heq
    cases a' with
    | nil => simp at heq; exact ⟨rfl, heq⟩
    | cons c cs =>
      simp at heq
      exact absurd heq.1.symm (fun hc => h' (by simp [hc]))
  | cons b bs ih =>
    intro a' r r' h h' heq
    cases a' with
    | nil =>
      simp at heq
      exact absurd heq.1 (fun hc => h (by simp [hc]))
    | cons c cs =>
      simp at heq
      obtain ⟨hbc, hrest⟩ := heq
      have := ih cs r r' (fun hm => h (by simp [hm])) (fun hm => h' (by simp [hm])) hrest
      exact ⟨by rw [hbc, this.1], this.2⟩

theorem dotPSlash_eq : dotPSlash = 46 :: ascii "p/" := by decide

/-- **tlog level.** If `X` (a `tile/8/…` path) parses and `X ++ ".p/" ++ q` parses as a partial tile,
then `X` is the full tile with the same coordinates, `X` contains no '.', and `q` is the width. -/
theorem tlog_sibling (X rest q : Bytes) (u u' : Tile) (hX : X = ascii "tile/8/" ++ rest)
    (h : tlogParse X = some u) (h' : tlogParse (X ++ dotPSlash ++ q) = some u') (hw : u'.W ≠ 256) :
    u = { u' with W := 256 } ∧ (46 : UInt8) ∉ X ∧ q = fmtInt u'.W := by
  obtain ⟨hH, hL0, hL1, hN0, hN1, hW0, hW1, _⟩ := tlogParse_dom X rest u hX h
  have hX' : X ++ dotPSlash ++ q = ascii "tile/8/" ++ (rest ++ dotPSlash ++ q) := by rw [hX]; simp
  obtain ⟨hH', hL0', hL1', hN0', hN1', hW0', hW1', _⟩ := tlogParse_dom _ _ u' hX' h'
  have hp := (tlogParse_some h).2
  have hp' := (tlogParse_some h').2
  rw [tlogPath_base u hH] at hp
  rw [tlogPath_base u' hH', if_pos hw] at hp'
  have nd := basePath_nodot u hL0
  have nd' := basePath_nodot u' hL0'
  by_cases hwu : u.W ≠ 256
  · -- X itself would be a partial path: then the width of u' would contain a '.'
    exfalso
    rw [if_pos hwu] at hp
    rw [hp, dotPSlash_eq] at hp'
    simp only [List.append_assoc, List.cons_append] at hp'
    have := (first_dot_split _ _ _ _ nd nd' hp').2
    have hdig := (fmtInt_facts (x := u'.W) (by omega) (by omega)).2.1
    have hmem : (46 : UInt8) ∈ fmtInt u'.W := by
      have h2 : ascii "p/" ++ fmtInt u'.W = ascii "p/" ++ (fmtInt u.W ++ 46 :: (ascii "p/" ++ q)) := by
        simpa using this.symm
      have h3 := List.append_cancel_left h2
      rw [h3]; simp
    exact digits_nodot hdig hmem
  · rw [if_neg hwu, List.append_nil] at hp
    rw [hp, dotPSlash_eq] at hp'
    simp only [List.append_assoc, List.cons_append] at hp'
    obtain ⟨hb, hr⟩ := first_dot_split _ _ _ _ nd nd' hp'
    have hq : q = fmtInt u'.W := by
      have h2 : ascii "p/" ++ q = ascii "p/" ++ fmtInt u'.W := by simpa using hr
      exact List.append_cancel_left h2
    refine ⟨?_, by rw [hp]; exact nd, hq⟩
    -- both u and u' with W := 256 print as the same base path; parse it back
    have hwu' : u.W = 256 := by omega
    have e1 : tlogPath u = basePath u := by
      rw [tlogPath_base u hH, if_neg hwu, List.append_nil]
    have e2 : tlogPath { u' with W := 256 } = basePath u' := by
      rw [tlogPath_base _ (show ({ u' with W := 256 } : Tile).H = 8 from hH')]
      simp [basePath]
    have p1 := tlogParse_path u hH hL0 hL1 hW0 hW1 hN0 hN1
    have p2 := tlogParse_path { u' with W := 256 } hH' hL0' hL1' (by simp) (by simp) hN0' hN1'
    rw [e1, hb] at p1
    rw [e2] at p2
    rw [p1] at p2
    exact Option.some.inj p2

/-! ### prefixes -/

theorem cutPrefix_iff {s pre r : Bytes} : cutPrefix s pre = some r ↔ s = pre ++ r :=
  ⟨cutPrefix_some, fun h => by rw [h]; exact cutPrefix_append _ _⟩

/-- a prefix without '.' that matches `a ++ "." ++ s` already matches `a` -/
theorem cutPrefix_of_append_dot {a s pre r' : Bytes} (hpre : (46 : UInt8) ∉ pre)
    (h : cutPrefix (a ++ 46 :: s) pre = some r') : ∃ r, cutPrefix a pre = some r ∧ r' = r ++ 46 :: s := by
  have h1 := cutPrefix_some h
  rcases List.append_eq_append_iff.mp h1 with ⟨c, hc1, hc2⟩ | ⟨c, hc1, hc2⟩
  · -- pre = a ++ c, 46 :: s = c ++ r'
    cases c with
    | nil =>
      refine ⟨[], cutPrefix_iff.mpr (by simpa using hc1.symm), ?_⟩
      simpa using hc2.symm
    | cons x xs =>
      exfalso
      simp at hc2
      apply hpre
      rw [hc1, ← hc2.1]
      simp
  · -- a = pre ++ c, r' = c ++ 46 :: s
    exact ⟨c, cutPrefix_iff.mpr hc1, hc2⟩

theorem cutPrefix_none_of_append_dot {a s pre : Bytes} (hpre : (46 : UInt8) ∉ pre)
    (h : cutPrefix a pre = none) : cutPrefix (a ++ 46 :: s) pre = none := by
  cases hc : cutPrefix (a ++ 46 :: s) pre with
  | none => rfl
  | some r' =>
    obtain ⟨r, hr, _⟩ := cutPrefix_of_append_dot hpre hc
    rw [h] at hr; cases hr

/-- **wrapper level** (`sunlight.ParseTilePath`, `torchwood.ParseTilePath`). -/
theorem parseWith_sibling (special : Bytes) (fixL : Option Int) (hsp : (46 : UInt8) ∉ special)
    (a q : Bytes) (t t' : Tile)
    (h : parseWith special fixL a = some t) (h' : parseWith special fixL (a ++ dotPSlash ++ q) = some t')
    (hw : t'.W ≠ 256) :
    t = { t' with W := 256 } ∧ (46 : UInt8) ∉ a ∧ q = fmtInt t'.W := by
  have happ : a ++ dotPSlash ++ q = a ++ 46 :: (ascii "p/" ++ q) := by rw [dotPSlash_eq]; simp
  unfold parseWith at h h'
  cases hc : cutPrefix a special with
  | some rest =>
    rw [hc] at h
    have ha := cutPrefix_some hc
    have hc' : cutPrefix (a ++ dotPSlash ++ q) special = some (rest ++ dotPSlash ++ q) := by
      rw [ha]; simp only [List.append_assoc]; exact cutPrefix_append _ _
    rw [hc'] at h'
    simp only at h h'
    cases hu : tlogParse (ascii "tile/8/data/" ++ rest) with
    | none => rw [hu] at h; cases h
    | some u =>
      have hX' : ascii "tile/8/data/" ++ (rest ++ dotPSlash ++ q) = (ascii "tile/8/data/" ++ rest) ++ dotPSlash ++ q := by simp
      rw [hX'] at h'
      cases hu' : tlogParse ((ascii "tile/8/data/" ++ rest) ++ dotPSlash ++ q) with
      | none => rw [hu'] at h'; cases h'
      | some u' =>
        rw [hu] at h; rw [hu'] at h'
        simp only [Option.some.injEq] at h h'
        have hdata : ascii "tile/8/data/" ++ rest = ascii "tile/8/" ++ (ascii "data/" ++ rest) := by
          have : ascii "tile/8/data/" = ascii "tile/8/" ++ ascii "data/" := by decide
          rw [this]; simp
        have hwu' : u'.W ≠ 256 := by
          rw [← h'] at hw
          cases fixL <;> simpa using hw
        obtain ⟨e1, e2, e3⟩ := tlog_sibling _ _ q u u' hdata hu hu' hwu'
        refine ⟨?_, ?_, ?_⟩
        · rw [← h, ← h', e1]; cases fixL <;> rfl
        · rw [ha]
          intro hm
          rcases List.mem_append.mp hm with h1 | h1
          · exact hsp h1
          · exact e2 (by simp [h1])
        · rw [e3, ← h']; cases fixL <;> rfl
  | none =>
    rw [hc] at h
    have hc' : cutPrefix (a ++ dotPSlash ++ q) special = none := by
      rw [happ]; exact cutPrefix_none_of_append_dot hsp hc
    rw [hc'] at h'
    simp only at h h'
    cases hc2 : cutPrefix a (ascii "tile/") with
    | none => rw [hc2] at h; cases h
    | some rest =>
      rw [hc2] at h
      have ha := cutPrefix_some hc2
      have hc2' : cutPrefix (a ++ dotPSlash ++ q) (ascii "tile/") = some (rest ++ dotPSlash ++ q) := by
        rw [ha]; simp only [List.append_assoc]; exact cutPrefix_append _ _
      rw [hc2'] at h'
      simp only at h h'
      have hX' : ascii "tile/8/" ++ (rest ++ dotPSlash ++ q) = (ascii "tile/8/" ++ rest) ++ dotPSlash ++ q := by simp
      rw [hX'] at h'
      obtain ⟨e1, e2, e3⟩ := tlog_sibling _ rest q t t' rfl h h' hw
      refine ⟨e1, ?_, e3⟩
      rw [ha]
      intro hm
      rcases List.mem_append.mp hm with h1 | h1
      · exact absurd h1 (by decide)
      · exact e2 (by simp [h1])

/-- the two parsers the tool is run with -/
inductive IsToolParser : (Bytes → Option Tile) → Prop
  | sunlight : IsToolParser sunlightParse
  | torchwood : IsToolParser torchwoodParse

theorem parser_sibling {parse : Bytes → Option Tile} (hp : IsToolParser parse) (a q : Bytes) (t t' : Tile)
    (h : parse a = some t) (h' : parse (a ++ dotPSlash ++ q) = some t') (hw : t'.W ≠ 256) :
    t = { t' with W := 256 } ∧ (46 : UInt8) ∉ a ∧ q = fmtInt t'.W := by
  cases hp with
  | sunlight =>
    rw [sunlightParse_eq] at h h'
    exact parseWith_sibling _ _ (by decide) a q t t' h h' hw
  | torchwood =>
    exact parseWith_sibling _ _ (by decide) a q t t' h h' hw

/-- what a tool parser returns is a tile of the domain (height 8, level ≥ −2, 1 ≤ W ≤ 256, 0 ≤ N) -/
theorem parseWith_dom (special : Bytes) (fixL : Option Int) (hfix : ∀ l, fixL = some l → l = -2)
    (p : Bytes) (t : Tile) (h : parseWith special fixL p = some t) : TileDom t := by
  unfold parseWith at h
  split at h
  · rename_i rest _
    split at h
    · cases h
    · rename_i u hu
      have hdata : ascii "tile/8/data/" ++ rest = ascii "tile/8/" ++ (ascii "data/" ++ rest) := by
        have : ascii "tile/8/data/" = ascii "tile/8/" ++ ascii "data/" := by decide
        rw [this]; simp
      obtain ⟨hH, hL0, hL1, hN0, hN1, hW0, hW1, _⟩ := tlogParse_dom _ _ u hdata hu
      simp only [Option.some.injEq] at h
      subst h
      cases fixL with
      | none => exact ⟨hH, by simp; omega, hL1, hN0, hN1, hW0, hW1⟩
      | some l =>
        have := hfix l rfl
        subst this
        exact ⟨hH, by simp, by simp, hN0, hN1, hW0, hW1⟩
  · split at h
    · rename_i rest _
      obtain ⟨hH, hL0, hL1, hN0, hN1, hW0, hW1, _⟩ := tlogParse_dom _ rest t rfl h
      exact ⟨hH, by omega, hL1, hN0, hN1, hW0, hW1⟩
    · cases h

theorem parser_dom {parse : Bytes → Option Tile} (hp : IsToolParser parse) (p : Bytes) (t : Tile)
    (h : parse p = some t) : TileDom t := by
  cases hp with
  | sunlight => rw [sunlightParse_eq] at h; exact parseWith_dom _ _ (by intro l hl; cases hl; rfl) p t h
  | torchwood => exact parseWith_dom _ _ (by intro l hl; cases hl) p t h

/-! ### strings.Cut -/

theorem cutSub_first (c : UInt8) (n' : Bytes) : ∀ (a r : Bytes), c ∉ a →
    cutSub (c :: n') (a ++ (c :: n') ++ r) = some (a, r) := by
  intro a
  induction a with
  | nil =>
    intro r _
    simp only [List.nil_append, List.cons_append, cutSub]
    simp
  | cons b bs ih =>
    intro r h
    have hb : b ≠ c := fun hc => h (by simp [hc])
    have hbs : c ∉ bs := fun hm => h (by simp [hm])
    simp only [List.cons_append, cutSub]
    rw [if_neg]
    · have := ih r hbs
      simp only [List.cons_append, List.append_assoc] at this ⊢
      rw [this]
    · intro hc
      simp at hc
      exact hb hc.1

theorem cutSub_dotPSlash (a r : Bytes) (h : (46 : UInt8) ∉ a) : cutSub dotPSlash (a ++ dotPSlash ++ r) = some (a, r) := by
  rw [dotPSlash_eq]
  exact cutSub_first 46 _ a r h

/-! ### suffixes -/

theorem cutSuffix_some {s suf full : Bytes} (h : cutSuffix s suf = some full) : s = full ++ suf := by
  unfold cutSuffix at h
  split at h
  · rename_i hs
    simp only [Option.some.injEq] at h
    unfold hasSuffix at hs
    simp only [Bool.and_eq_true, decide_eq_true_eq, beq_iff_eq] at hs
    have := List.take_append_drop (s.length - suf.length) s
    rw [h, hs.2] at this
    exact this.symm
  · cases h

theorem hasSuffix_append' (a b : Bytes) : hasSuffix (a ++ b) b = true := by
  unfold hasSuffix
  simp

theorem trimSuffix_join (pfx full : Bytes) : trimSuffix (join pfx (full ++ dotP)) dotP = join pfx full := by
  unfold trimSuffix cutSuffix join
  have e : pfx ++ 47 :: (full ++ dotP) = (pfx ++ 47 :: full) ++ dotP := by simp
  rw [e, hasSuffix_append']
  simp only [if_true, Option.getD_some]
  exact take_strip _ _

/-! ### the right-edge arithmetic -/

theorem wrap_pow (k : Nat) (hk : k ≤ 6) : wrap64 (1 * 2 ^ (8 * (k + 1))) = ((256 ^ (k + 1) : Nat) : Int) := by
  match k, hk with
  | 0, _ => decide
  | 1, _ => decide
  | 2, _ => decide
  | 3, _ => decide
  | 4, _ => decide
  | 5, _ => decide
  | 6, _ => decide
  | n + 7, h => omega

/-- `tileSize` for the levels a tree can have -/
theorem tileSize_small (L : Int) (k : Nat) (hk : k ≤ 6) (hL : Max.max 0 L = (k : Int)) :
    tileSizeExpr.eval (env1 L) = some ((256 ^ (k + 1) : Nat) : Int) := by
  simp only [tileSizeExpr, Expr.eval, env1, bind, Option.bind, hL]
  have hw1 : wrap64 ((k : Int) + 1) = k + 1 := by apply wrap64_id <;> omega
  rw [hw1]
  have hw2 : wrap64 (8 * ((k : Int) + 1)) = 8 * (k + 1) := by apply wrap64_id <;> omega
  rw [hw2]
  have hs0 : ¬ (8 * ((k : Int) + 1) < 0) := by omega
  have hs1 : ¬ (8 * ((k : Int) + 1) ≥ 64) := by omega
  simp only [shl64, hs0, hs1, if_false]
  have : (8 * ((k : Int) + 1)).toNat = 8 * (k + 1) := by omega
  rw [this, wrap_pow k hk]

theorem levelGuard_eval (L : Int) : levelGuardExpr.eval (env1 L) = some (if L > 6 then 1 else 0) := by
  simp [levelGuardExpr, Expr.eval, env1, bind, Option.bind]

/-- Strictly left of the edge: a level a tree can have (≤ 6) and `N < size / 256^(level+1)`. -/
theorem edge_guard (t : Tile) (size : Nat) (hL0 : -2 ≤ t.L)
    (h : atOrRightOfEdge t size = some false) :
    t.L ≤ 6 ∧ t.N < ((size / 256 ^ (lvl t + 1) : Nat) : Int) := by
  unfold atOrRightOfEdge at h
  rw [levelGuard_eval] at h
  by_cases h6 : t.L > 6
  · simp [h6] at h
  · have h6' : t.L ≤ 6 := by omega
    refine ⟨h6', ?_⟩
    simp only [h6, if_false] at h
    have hk : lvl t ≤ 6 := by unfold lvl; omega
    have hL : Max.max 0 t.L = ((lvl t : Nat) : Int) := by unfold lvl; omega
    rw [tileSize_small t.L (lvl t) hk hL] at h
    simp only [edgeGuardExpr, Expr.eval, env2, bind, Option.bind] at h
    have hne : (((256 ^ (lvl t + 1) : Nat) : Int)) ≠ 0 := by
      have : 0 < 256 ^ (lvl t + 1) := Nat.pow_pos (by decide)
      omega
    have hdiv : Int.tdiv (size : Int) ((256 ^ (lvl t + 1) : Nat) : Int) = ((size / 256 ^ (lvl t + 1) : Nat) : Int) := by
      rw [Int.tdiv_eq_ediv_of_nonneg (by omega)]
      exact (Int.natCast_ediv _ _).symm
    simp only [goDiv, hne, if_false, hdiv] at h
    by_cases hge : t.N ≥ ((size / 256 ^ (lvl t + 1) : Nat) : Int)
    · rw [if_pos hge] at h; simp at h
    · omega

/-- the right-edge arithmetic never panics on a parsed tile (level ≥ −2): levels above 6 are cut off
before the shift, below that the divisor is 256^(level+1) ≠ 0 -/
theorem atOrRightOfEdge_ne_none (t : Tile) (size : Nat) (hL0 : -2 ≤ t.L) : atOrRightOfEdge t size ≠ none := by
  unfold atOrRightOfEdge
  rw [levelGuard_eval]
  by_cases h6 : t.L > 6
  · simp [h6]
  · simp only [h6, if_false]
    have hk : lvl t ≤ 6 := by unfold lvl; omega
    have hL : Max.max 0 t.L = ((lvl t : Nat) : Int) := by unfold lvl; omega
    rw [tileSize_small t.L (lvl t) hk hL]
    simp only [edgeGuardExpr, Expr.eval, env2, bind, Option.bind]
    have hne : (((256 ^ (lvl t + 1) : Nat) : Int)) ≠ 0 := by
      have : 0 < 256 ^ (lvl t + 1) := Nat.pow_pos (by decide)
      omega
    simp only [goDiv, hne, if_false]
    intro hc
    cases hc

/-! ### every deletion of the walk is justified by the guards -/

/-- why a file is deleted: all guards of `cleanDir` and `overrideImmutable`, as evaluated -/
def FileJ (fs : FS) (parse : Bytes → Option Tile) (size : Nat) (p : Bytes) : Prop :=
  ∃ (pfx full q : Bytes) (entries : List Ent) (t t' : Tile),
    fs.readDir pfx = some entries ∧ full ∈ entries.map (·.name) ∧
    p = join (join pfx (full ++ dotP)) q ∧
    parse (join pfx full) = some t ∧ atOrRightOfEdge t size = some false ∧
    parse p = some t' ∧ t'.W ≠ 256 ∧ overrideImmutable fs p = true

/-- why a directory is removed: it is the `.p` directory of a full tile strictly left of the edge and
every entry listed in it has been deleted -/
def DirJ (fs : FS) (parse : Bytes → Option Tile) (size : Nat) (all : List Del) (d : Bytes) : Prop :=
  ∃ (pfx full : Bytes) (entries partials : List Ent) (t : Tile),
    fs.readDir pfx = some entries ∧ full ∈ entries.map (·.name) ∧
    d = join pfx (full ++ dotP) ∧
    parse (join pfx full) = some t ∧ atOrRightOfEdge t size = some false ∧
    fs.readDir d = some partials ∧ ∀ e ∈ partials, Del.file (join d e.name) ∈ all

def J (fs : FS) (parse : Bytes → Option Tile) (size : Nat) (all : List Del) : Del → Prop
  | .file p => FileJ fs parse size p
  | .dir d => DirJ fs parse size all d

theorem J_mono {fs parse size} {all all' : List Del} {d : Del} (h : J fs parse size all d)
    (hsub : ∀ x ∈ all, x ∈ all') : J fs parse size all' d := by
  cases d with
  | file p => exact h
  | dir d =>
    obtain ⟨pfx, full, es, ps, t, h1, h2, h3, h4, h5, h6, h7⟩ := h
    exact ⟨pfx, full, es, ps, t, h1, h2, h3, h4, h5, h6, fun e he => hsub _ (h7 e he)⟩

def AllJ (fs : FS) (parse : Bytes → Option Tile) (size : Nat) (l : List Del) : Prop := ∀ d ∈ l, J fs parse size l d

theorem AllJ_append {fs parse size} {l1 l2 : List Del} (h1 : AllJ fs parse size l1) (h2 : AllJ fs parse size l2) :
    AllJ fs parse size (l1 ++ l2) := by
  intro d hd
  rcases List.mem_append.mp hd with h | h
  · exact J_mono (h1 d h) (fun x hx => List.mem_append.mpr (Or.inl hx))
  · exact J_mono (h2 d h) (fun x hx => List.mem_append.mpr (Or.inr hx))

theorem AllJ_nil {fs parse size} : AllJ fs parse size [] := by intro d hd; cases hd

theorem cleanPartials_spec (fs : FS) (parse : Bytes → Option Tile) (dirName : Bytes) : ∀ (ps : List Ent),
    (∀ d ∈ (cleanPartials fs parse dirName ps).1, ∃ e ∈ ps, d = Del.file (join dirName e.name) ∧
        ∃ t', parse (join dirName e.name) = some t' ∧ t'.W ≠ 256 ∧ overrideImmutable fs (join dirName e.name) = true) ∧
    ((cleanPartials fs parse dirName ps).2 = .ok → ∀ e ∈ ps, Del.file (join dirName e.name) ∈ (cleanPartials fs parse dirName ps).1) := by
  intro ps
  induction ps with
  | nil => simp [cleanPartials]
  | cons e rest ih =>
    simp only [cleanPartials]
    split
    · simp
    · rename_i t' ht'
      by_cases hw : t'.W = 256
      · simp [hw]
      · by_cases ho : overrideImmutable fs (join dirName e.name) = true
        · by_cases hr : removable fs (join dirName e.name) e = true
          · simp only [hw, ho, hr, if_false, Bool.not_true]
            constructor
            · intro d hd
              rcases List.mem_cons.mp hd with h | h
              · exact ⟨e, by simp, h, t', ht', hw, ho⟩
              · obtain ⟨e', he', hrest⟩ := ih.1 d h
                exact ⟨e', by simp [he'], hrest⟩
            · intro hok e' he'
              rcases List.mem_cons.mp he' with h | h
              · rw [h]; simp
              · exact List.mem_cons_of_mem _ (ih.2 hok e' h)
          · simp [hw, ho, hr]
        · simp [hw, ho]

theorem cleanEntries_allJ (recur : Bytes → Res) (fs : FS) (parse : Bytes → Option Tile) (size : Nat)
    (pfx : Bytes) (entries : List Ent) (hdir : fs.readDir pfx = some entries)
    (hrec : ∀ p, AllJ fs parse size (recur p).1) : ∀ (es : List Ent),
    AllJ fs parse size (cleanEntries recur fs parse size pfx (entries.map (·.name)) es).1 := by
  intro es
  induction es with
  | nil => simp only [cleanEntries]; exact AllJ_nil
  | cons e rest ih =>
    simp only [cleanEntries]
    split
    · -- x-prefixed: recursion
      split
      · exact AllJ_append (hrec _) ih
      · exact hrec _
    · split
      · exact ih
      · rename_i full hfull
        split
        · exact ih
        · rename_i hin
          have hmem : full ∈ entries.map (·.name) := by
            simpa using hin
          have hname : e.name = full ++ dotP := cutSuffix_some hfull
          have htrim : trimSuffix (join pfx e.name) dotP = join pfx full := by
            rw [hname]; exact trimSuffix_join _ _
          rw [htrim]
          split
          · exact AllJ_nil
          · rename_i t ht
            split
            · exact AllJ_nil
            · exact ih
            · rename_i hedge
              split
              · exact AllJ_nil
              · rename_i partials hparts
                have hspec := cleanPartials_spec fs parse (join pfx e.name) partials
                split
                · rename_i hok
                  -- files of the .p directory, the directory itself, then the rest
                  have hfiles : AllJ fs parse size (cleanPartials fs parse (join pfx e.name) partials).1 := by
                    intro d hd
                    obtain ⟨e', _, hd', t', ht', hw, ho⟩ := hspec.1 d hd
                    rw [hd']
                    exact ⟨pfx, full, e'.name, entries, t, t', hdir, hmem, by rw [hname], ht, hedge, ht', hw, ho⟩
                  have hdirj : AllJ fs parse size
                      ((cleanPartials fs parse (join pfx e.name) partials).1 ++ [Del.dir (join pfx e.name)]) := by
                    intro d hd
                    rcases List.mem_append.mp hd with h | h
                    · exact J_mono (hfiles d h) (fun x hx => List.mem_append.mpr (Or.inl hx))
                    · simp at h
                      rw [h]
                      exact ⟨pfx, full, entries, partials, t, hdir, hmem, by rw [hname], ht, hedge, hparts,
                        fun e' he' => List.mem_append.mpr (Or.inl (hspec.2 hok e' he'))⟩
                  have := AllJ_append hdirj ih
                  simpa using this
                · -- aborted inside the .p directory: only files were deleted
                  intro d hd
                  obtain ⟨e', _, hd', t', ht', hw, ho⟩ := hspec.1 d hd
                  rw [hd']
                  exact ⟨pfx, full, e'.name, entries, t, t', hdir, hmem, by rw [hname], ht, hedge, ht', hw, ho⟩

theorem cleanDir_allJ (fs : FS) (parse : Bytes → Option Tile) (size : Nat) : ∀ (fuel : Nat) (pfx : Bytes),
    AllJ fs parse size (cleanDir fs parse size fuel pfx).1 := by
  intro fuel
  induction fuel with
  | zero => intro pfx; simp only [cleanDir]; exact AllJ_nil
  | succ n ih =>
    intro pfx
    simp only [cleanDir]
    split
    · exact AllJ_nil
    · rename_i entries hdir
      exact cleanEntries_allJ _ fs parse size pfx entries hdir ih entries

theorem cleanLevels_allJ (fs : FS) (parse : Bytes → Option Tile) (size fuel : Nat) : ∀ (lv : List Ent),
    AllJ fs parse size (cleanLevels fs parse size fuel lv).1 := by
  intro lv
  induction lv with
  | nil => simp only [cleanLevels]; exact AllJ_nil
  | cons l rest ih =>
    simp only [cleanLevels]
    split
    · exact AllJ_append (cleanDir_allJ fs parse size fuel _) ih
    · exact cleanDir_allJ fs parse size fuel _

theorem cleanRoot_allJ (fs : FS) (parse : Bytes → Option Tile) (size fuel : Nat) :
    AllJ fs parse size (cleanRoot fs parse size fuel).1 := by
  unfold cleanRoot
  split
  · exact AllJ_nil
  · exact cleanLevels_allJ fs parse size fuel _

theorem mem_filesOf {l : List Del} {p : Bytes} : p ∈ filesOf l ↔ Del.file p ∈ l := by
  induction l with
  | nil => simp [filesOf]
  | cons d rest ih =>
    cases d with
    | file q => simp [filesOf, ih]
    | dir q => simp [filesOf, ih]

end Aftersun
